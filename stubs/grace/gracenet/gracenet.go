// Package gracenet is a stand-in for github.com/megaease/grace/gracenet used
// by the verification build: Listen hands out listeners from ListenHook (the
// simulated network) when it is set, real listeners otherwise.
package gracenet

import (
	"errors"
	"net"
)

// ListenHook, when non-nil, provides the listener.
var ListenHook func(network, addr string) (net.Listener, error)

// Net mirrors the API easegress uses.
type Net struct{}

// Listen returns a listener.
func (n *Net) Listen(nett, laddr string) (net.Listener, error) {
	if ListenHook != nil {
		return ListenHook(nett, laddr)
	}
	return net.Listen(nett, laddr)
}

// StartProcess is not supported.
func (n *Net) StartProcess() (int, error) { return 0, errors.New("graceful restart is stubbed out in the verification build") }
