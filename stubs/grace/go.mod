module github.com/megaease/grace

go 1.17
