module github.com/patrickmn/go-cache

go 1.17
