package cache

import (
	"crypto/rand"
	"math"
	"math/big"
	insecurerand "math/rand"
	"os"
	_ "runtime"
	"time"
)

// This is an experimental and unexported (for now) attempt at making a cache
// with better algorithmic complexity than the standard one, namely by
// preventing write locks of the entire cache when an item is added. As of the
// time of writing, the overhead of selecting buckets results in cache
// operations being about twice as slow as for the standard cache with small
// total cache sizes, and faster for larger ones.
//
// See cache_test.go for a few benchmarks.

type unexportedShardedCache struct {
	*shardedCache
}

type shardedCache struct {
	seed    uint32
	m       uint32
	cs      []*cache
	janitor *shardedJanitor
}

// djb2 with better shuffling. 5x faster than FNV with the hash.Hash overhead.
func djb33(seed uint32, k string) uint32 {
	var (
		l = uint32(len(k))
		d = 5381 + seed + l
		i = uint32(0)
	)
	// Why is all this 5x faster than a for loop?
	if l >= 4 {
		for i < l-4 {
			d = (d * 33) ^ uint32(k[i])
			d = (d * 33) ^ uint32(k[i+1])
			d = (d * 33) ^ uint32(k[i+2])
			d = (d * 33) ^ uint32(k[i+3])
			i += 4
		}
	}
	switch l - i {
	case 1:
	case 2:
		d = (d * 33) ^ uint32(k[i])
	case 3:
		d = (d * 33) ^ uint32(k[i])
		d = (d * 33) ^ uint32(k[i+1])
	case 4:
		d = (d * 33) ^ uint32(k[i])
		d = (d * 33) ^ uint32(k[i+1])
		d = (d * 33) ^ uint32(k[i+2])
	}
	return d ^ (d >> 16)
}

func (sc *shardedCache) bucket(k string) *cache {
	return sc.cs[djb33(sc.seed, k)%sc.m]
}

func (sc *shardedCache) Set(k string, x interface{}, d time.Duration) {
	sc.bucket(k).Set(k, x, d)
}

func (sc *shardedCache) Add(k string, x interface{}, d time.Duration) error {
	return sc.bucket(k).Add(k, x, d)
}

func (sc *shardedCache) Replace(k string, x interface{}, d time.Duration) error {
	return sc.bucket(k).Replace(k, x, d)
}

func (sc *shardedCache) Get(k string) (interface{}, bool) {
	return sc.bucket(k).Get(k)
}

func (sc *shardedCache) Increment(k string, n int64) error {
	return sc.bucket(k).Increment(k, n)
}

func (sc *shardedCache) IncrementFloat(k string, n float64) error {
	return sc.bucket(k).IncrementFloat(k, n)
}

func (sc *shardedCache) Decrement(k string, n int64) error {
	return sc.bucket(k).Decrement(k, n)
}

func (sc *shardedCache) Delete(k string) {
	sc.bucket(k).Delete(k)
}

func (sc *shardedCache) DeleteExpired() {
	for _, v := range sc.cs {
		v.DeleteExpired()
	}
}

// Returns the items in the cache. This may include items that have expired,
// but have not yet been cleaned up. If this is significant, the Expiration
// fields of the items should be checked. Note that explicit synchronization
// is needed to use a cache and its corresponding Items() return values at
// the same time, as the maps are shared.
func (sc *shardedCache) Items() []map[string]Item {
	res := make([]map[string]Item, len(sc.cs))
	for i, v := range sc.cs {
		res[i] = v.Items()
	}
	return res
}

func (sc *shardedCache) Flush() {
	for _, v := range sc.cs {
		v.Flush()
	}
}

type shardedJanitor struct {
	Interval time.Duration
	stop     chan bool
}

func (j *shardedJanitor) Run(sc *shardedCache) {
	j.stop = make(chan bool)
	tick := time.Tick(j.Interval)
	for {
		select {
		case <-tick:
			sc.DeleteExpired()
		case <-j.stop:
			return
		}
	}
}

func stopShardedJanitor(sc *unexportedShardedCache) {
	sc.janitor.stop <- true
}

func runShardedJanitor(sc *shardedCache, ci time.Duration) {
	j := &shardedJanitor{
		Interval: ci,
	}
	sc.janitor = j
	go j.Run(sc)
}

func newShardedCache(n int, de time.Duration) *shardedCache {
	max := big.NewInt(0).SetUint64(uint64(math.MaxUint32))
	rnd, err := rand.Int(rand.Reader, max)
	var seed uint32
	if err != nil {
		os.Stderr.Write([]byte("WARNING: go-cache's newShardedCache failed to read from the system CSPRNG (/dev/urandom or equivalent.) Your system's security may be compromised. Continuing with an insecure seed.\n"))
		seed = insecurerand.Uint32()
	} else {
		seed = uint32(rnd.Uint64())
	}
	sc := &shardedCache{
		seed: seed,
		m:    uint32(n),
		cs:   make([]*cache, n),
	}
	for i := 0; i < n; i++ {
		c := &cache{
			defaultExpiration: de,
			items:             map[string]Item{},
		}
		sc.cs[i] = c
	}
	return sc
}

func unexportedNewSharded(defaultExpiration, cleanupInterval time.Duration, shards int) *unexportedShardedCache {
	if defaultExpiration == 0 {
		defaultExpiration = -1
	}
	sc := newShardedCache(shards, defaultExpiration)
	SC := &unexportedShardedCache{sc}
	if cleanupInterval > 0 {
		runShardedJanitor(sc, cleanupInterval)
		_ = stopShardedJanitor // verification copy: no finalizer (see cache.go)
	}
	return SC
}
