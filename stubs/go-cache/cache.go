package cache

import (
	"encoding/gob"
	"fmt"
	"io"
	"os"
	_ "runtime"
	"sync"
	"time"
)

type Item struct {
	Object     interface{}
	Expiration int64
}

// Returns true if the item has expired.
func (item Item) Expired() bool {
	if item.Expiration == 0 {
		return false
	}
	return time.Now().UnixNano() > item.Expiration
}

const (
	// For use with functions that take an expiration time.
	NoExpiration time.Duration = -1
	// For use with functions that take an expiration time. Equivalent to
	// passing in the same expiration duration as was given to New() or
	// NewFrom() when the cache was created (e.g. 5 minutes.)
	DefaultExpiration time.Duration = 0
)

type Cache struct {
	*cache
	// If this is confusing, see the comment at the bottom of New()
}

type cache struct {
	defaultExpiration time.Duration
	items             map[string]Item
	mu                sync.RWMutex
	onEvicted         func(string, interface{})
	janitor           *janitor
}

// Add an item to the cache, replacing any existing item. If the duration is 0
// (DefaultExpiration), the cache's default expiration time is used. If it is -1
// (NoExpiration), the item never expires.
func (c *cache) Set(k string, x interface{}, d time.Duration) {
	// "Inlining" of set
	var e int64
	if d == DefaultExpiration {
		d = c.defaultExpiration
	}
	if d > 0 {
		e = time.Now().Add(d).UnixNano()
	}
	c.mu.Lock()
	c.items[k] = Item{
		Object:     x,
		Expiration: e,
	}
	// TODO: Calls to mu.Unlock are currently not deferred because defer
	// adds ~200 ns (as of go1.)
	c.mu.Unlock()
}

func (c *cache) set(k string, x interface{}, d time.Duration) {
	var e int64
	if d == DefaultExpiration {
		d = c.defaultExpiration
	}
	if d > 0 {
		e = time.Now().Add(d).UnixNano()
	}
	c.items[k] = Item{
		Object:     x,
		Expiration: e,
	}
}

// Add an item to the cache, replacing any existing item, using the default
// expiration.
func (c *cache) SetDefault(k string, x interface{}) {
	c.Set(k, x, DefaultExpiration)
}

// Add an item to the cache only if an item doesn't already exist for the given
// key, or if the existing item has expired. Returns an error otherwise.
func (c *cache) Add(k string, x interface{}, d time.Duration) error {
	c.mu.Lock()
	_, found := c.get(k)
	if found {
		c.mu.Unlock()
		return fmt.Errorf("Item %s already exists", k)
	}
	c.set(k, x, d)
	c.mu.Unlock()
	return nil
}

// Set a new value for the cache key only if it already exists, and the existing
// item hasn't expired. Returns an error otherwise.
func (c *cache) Replace(k string, x interface{}, d time.Duration) error {
	c.mu.Lock()
	_, found := c.get(k)
	if !found {
		c.mu.Unlock()
		return fmt.Errorf("Item %s doesn't exist", k)
	}
	c.set(k, x, d)
	c.mu.Unlock()
	return nil
}

// Get an item from the cache. Returns the item or nil, and a bool indicating
// whether the key was found.
func (c *cache) Get(k string) (interface{}, bool) {
	c.mu.RLock()
	// "Inlining" of get and Expired
	item, found := c.items[k]
	if !found {
		c.mu.RUnlock()
		return nil, false
	}
	if item.Expiration > 0 {
		if time.Now().UnixNano() > item.Expiration {
			c.mu.RUnlock()
			return nil, false
		}
	}
	c.mu.RUnlock()
	return item.Object, true
}

// GetWithExpiration returns an item and its expiration time from the cache.
// It returns the item or nil, the expiration time if one is set (if the item
// never expires a zero value for time.Time is returned), and a bool indicating
// whether the key was found.
func (c *cache) GetWithExpiration(k string) (interface{}, time.Time, bool) {
	c.mu.RLock()
	// "Inlining" of get and Expired
	item, found := c.items[k]
	if !found {
		c.mu.RUnlock()
		return nil, time.Time{}, false
	}

	if item.Expiration > 0 {
		if time.Now().UnixNano() > item.Expiration {
			c.mu.RUnlock()
			return nil, time.Time{}, false
		}

		// Return the item and the expiration time
		c.mu.RUnlock()
		return item.Object, time.Unix(0, item.Expiration), true
	}

	// If expiration <= 0 (i.e. no expiration time set) then return the item
	// and a zeroed time.Time
	c.mu.RUnlock()
	return item.Object, time.Time{}, true
}

func (c *cache) get(k string) (interface{}, bool) {
	item, found := c.items[k]
	if !found {
		return nil, false
	}
	// "Inlining" of Expired
	if item.Expiration > 0 {
		if time.Now().UnixNano() > item.Expiration {
			return nil, false
		}
	}
	return item.Object, true
}

// Increment an item of type int, int8, int16, int32, int64, uintptr, uint,
// uint8, uint32, or uint64, float32 or float64 by n. Returns an error if the
// item's value is not an integer, if it was not found, or if it is not
// possible to increment it by n. To retrieve the incremented value, use one
// of the specialized methods, e.g. IncrementInt64.
func (c *cache) Increment(k string, n int64) error {
	c.mu.Lock()
	v, found := c.items[k]
	if !found || v.Expired() {
		c.mu.Unlock()
		return fmt.Errorf("Item %s not found", k)
	}
	switch v.Object.(type) {
	case int:
		v.Object = v.Object.(int) + int(n)
	case int8:
		v.Object = v.Object.(int8) + int8(n)
	case int16:
		v.Object = v.Object.(int16) + int16(n)
	case int32:
		v.Object = v.Object.(int32) + int32(n)
	case int64:
		v.Object = v.Object.(int64) + n
	case uint:
		v.Object = v.Object.(uint) + uint(n)
	case uintptr:
		v.Object = v.Object.(uintptr) + uintptr(n)
	case uint8:
		v.Object = v.Object.(uint8) + uint8(n)
	case uint16:
		v.Object = v.Object.(uint16) + uint16(n)
	case uint32:
		v.Object = v.Object.(uint32) + uint32(n)
	case uint64:
		v.Object = v.Object.(uint64) + uint64(n)
	case float32:
		v.Object = v.Object.(float32) + float32(n)
	case float64:
		v.Object = v.Object.(float64) + float64(n)
	default:
		c.mu.Unlock()
		return fmt.Errorf("The value for %s is not an integer", k)
	}
	c.items[k] = v
	c.mu.Unlock()
	return nil
}

// Increment an item of type float32 or float64 by n. Returns an error if the
// item's value is not floating point, if it was not found, or if it is not
// possible to increment it by n. Pass a negative number to decrement the
// value. To retrieve the incremented value, use one of the specialized methods,
// e.g. IncrementFloat64.
func (c *cache) IncrementFloat(k string, n float64) error {
	c.mu.Lock()
	v, found := c.items[k]
	if !found || v.Expired() {
		c.mu.Unlock()
		return fmt.Errorf("Item %s not found", k)
	}
	switch v.Object.(type) {
	case float32:
		v.Object = v.Object.(float32) + float32(n)
	case float64:
		v.Object = v.Object.(float64) + n
	default:
		c.mu.Unlock()
		return fmt.Errorf("The value for %s does not have type float32 or float64", k)
	}
	c.items[k] = v
	c.mu.Unlock()
	return nil
}

// Increment an item of type int by n. Returns an error if the item's value is
// not an int, or if it was not found. If there is no error, the incremented
// value is returned.
func (c *cache) IncrementInt(k string, n int) (int, error) {
	c.mu.Lock()
	v, found := c.items[k]
	if !found || v.Expired() {
		c.mu.Unlock()
		return 0, fmt.Errorf("Item %s not found", k)
	}
	rv, ok := v.Object.(int)
	if !ok {
		c.mu.Unlock()
		return 0, fmt.Errorf("The value for %s is not an int", k)
	}
	nv := rv + n
	v.Object = nv
	c.items[k] = v
	c.mu.Unlock()
	return nv, nil
}

// Increment an item of type int8 by n. Returns an error if the item's value is
// not an int8, or if it was not found. If there is no error, the incremented
// value is returned.
func (c *cache) IncrementInt8(k string, n int8) (int8, error) {
	c.mu.Lock()
	v, found := c.items[k]
	if !found || v.Expired() {
		c.mu.Unlock()
		return 0, fmt.Errorf("Item %s not found", k)
	}
	rv, ok := v.Object.(int8)
	if !ok {
		c.mu.Unlock()
		return 0, fmt.Errorf("The value for %s is not an int8", k)
	}
	nv := rv + n
	v.Object = nv
	c.items[k] = v
	c.mu.Unlock()
	return nv, nil
}

// Increment an item of type int16 by n. Returns an error if the item's value is
// not an int16, or if it was not found. If there is no error, the incremented
// value is returned.
func (c *cache) IncrementInt16(k string, n int16) (int16, error) {
	c.mu.Lock()
	v, found := c.items[k]
	if !found || v.Expired() {
		c.mu.Unlock()
		return 0, fmt.Errorf("Item %s not found", k)
	}
	rv, ok := v.Object.(int16)
	if !ok {
		c.mu.Unlock()
		return 0, fmt.Errorf("The value for %s is not an int16", k)
	}
	nv := rv + n
	v.Object = nv
	c.items[k] = v
	c.mu.Unlock()
	return nv, nil
}

// Increment an item of type int32 by n. Returns an error if the item's value is
// not an int32, or if it was not found. If there is no error, the incremented
// value is returned.
func (c *cache) IncrementInt32(k string, n int32) (int32, error) {
	c.mu.Lock()
	v, found := c.items[k]
	if !found || v.Expired() {
		c.mu.Unlock()
		return 0, fmt.Errorf("Item %s not found", k)
	}
	rv, ok := v.Object.(int32)
	if !ok {
		c.mu.Unlock()
		return 0, fmt.Errorf("The value for %s is not an int32", k)
	}
	nv := rv + n
	v.Object = nv
	c.items[k] = v
	c.mu.Unlock()
	return nv, nil
}

// Increment an item of type int64 by n. Returns an error if the item's value is
// not an int64, or if it was not found. If there is no error, the incremented
// value is returned.
func (c *cache) IncrementInt64(k string, n int64) (int64, error) {
	c.mu.Lock()
	v, found := c.items[k]
	if !found || v.Expired() {
		c.mu.Unlock()
		return 0, fmt.Errorf("Item %s not found", k)
	}
	rv, ok := v.Object.(int64)
	if !ok {
		c.mu.Unlock()
		return 0, fmt.Errorf("The value for %s is not an int64", k)
	}
	nv := rv + n
	v.Object = nv
	c.items[k] = v
	c.mu.Unlock()
	return nv, nil
}

// Increment an item of type uint by n. Returns an error if the item's value is
// not an uint, or if it was not found. If there is no error, the incremented
// value is returned.
func (c *cache) IncrementUint(k string, n uint) (uint, error) {
	c.mu.Lock()
	v, found := c.items[k]
	if !found || v.Expired() {
		c.mu.Unlock()
		return 0, fmt.Errorf("Item %s not found", k)
	}
	rv, ok := v.Object.(uint)
	if !ok {
		c.mu.Unlock()
		return 0, fmt.Errorf("The value for %s is not an uint", k)
	}
	nv := rv + n
	v.Object = nv
	c.items[k] = v
	c.mu.Unlock()
	return nv, nil
}

// Increment an item of type uintptr by n. Returns an error if the item's value
// is not an uintptr, or if it was not found. If there is no error, the
// incremented value is returned.
func (c *cache) IncrementUintptr(k string, n uintptr) (uintptr, error) {
	c.mu.Lock()
	v, found := c.items[k]
	if !found || v.Expired() {
		c.mu.Unlock()
		return 0, fmt.Errorf("Item %s not found", k)
	}
	rv, ok := v.Object.(uintptr)
	if !ok {
		c.mu.Unlock()
		return 0, fmt.Errorf("The value for %s is not an uintptr", k)
	}
	nv := rv + n
	v.Object = nv
	c.items[k] = v
	c.mu.Unlock()
	return nv, nil
}

// Increment an item of type uint8 by n. Returns an error if the item's value
// is not an uint8, or if it was not found. If there is no error, the
// incremented value is returned.
func (c *cache) IncrementUint8(k string, n uint8) (uint8, error) {
	c.mu.Lock()
	v, found := c.items[k]
	if !found || v.Expired() {
		c.mu.Unlock()
		return 0, fmt.Errorf("Item %s not found", k)
	}
	rv, ok := v.Object.(uint8)
	if !ok {
		c.mu.Unlock()
		return 0, fmt.Errorf("The value for %s is not an uint8", k)
	}
	nv := rv + n
	v.Object = nv
	c.items[k] = v
	c.mu.Unlock()
	return nv, nil
}

// Increment an item of type uint16 by n. Returns an error if the item's value
// is not an uint16, or if it was not found. If there is no error, the
// incremented value is returned.
func (c *cache) IncrementUint16(k string, n uint16) (uint16, error) {
	c.mu.Lock()
	v, found := c.items[k]
	if !found || v.Expired() {
		c.mu.Unlock()
		return 0, fmt.Errorf("Item %s not found", k)
	}
	rv, ok := v.Object.(uint16)
	if !ok {
		c.mu.Unlock()
		return 0, fmt.Errorf("The value for %s is not an uint16", k)
	}
	nv := rv + n
	v.Object = nv
	c.items[k] = v
	c.mu.Unlock()
	return nv, nil
}

// Increment an item of type uint32 by n. Returns an error if the item's value
// is not an uint32, or if it was not found. If there is no error, the
// incremented value is returned.
func (c *cache) IncrementUint32(k string, n uint32) (uint32, error) {
	c.mu.Lock()
	v, found := c.items[k]
	if !found || v.Expired() {
		c.mu.Unlock()
		return 0, fmt.Errorf("Item %s not found", k)
	}
	rv, ok := v.Object.(uint32)
	if !ok {
		c.mu.Unlock()
		return 0, fmt.Errorf("The value for %s is not an uint32", k)
	}
	nv := rv + n
	v.Object = nv
	c.items[k] = v
	c.mu.Unlock()
	return nv, nil
}

// Increment an item of type uint64 by n. Returns an error if the item's value
// is not an uint64, or if it was not found. If there is no error, the
// incremented value is returned.
func (c *cache) IncrementUint64(k string, n uint64) (uint64, error) {
	c.mu.Lock()
	v, found := c.items[k]
	if !found || v.Expired() {
		c.mu.Unlock()
		return 0, fmt.Errorf("Item %s not found", k)
	}
	rv, ok := v.Object.(uint64)
	if !ok {
		c.mu.Unlock()
		return 0, fmt.Errorf("The value for %s is not an uint64", k)
	}
	nv := rv + n
	v.Object = nv
	c.items[k] = v
	c.mu.Unlock()
	return nv, nil
}

// Increment an item of type float32 by n. Returns an error if the item's value
// is not an float32, or if it was not found. If there is no error, the
// incremented value is returned.
func (c *cache) IncrementFloat32(k string, n float32) (float32, error) {
	c.mu.Lock()
	v, found := c.items[k]
	if !found || v.Expired() {
		c.mu.Unlock()
		return 0, fmt.Errorf("Item %s not found", k)
	}
	rv, ok := v.Object.(float32)
	if !ok {
		c.mu.Unlock()
		return 0, fmt.Errorf("The value for %s is not an float32", k)
	}
	nv := rv + n
	v.Object = nv
	c.items[k] = v
	c.mu.Unlock()
	return nv, nil
}

// Increment an item of type float64 by n. Returns an error if the item's value
// is not an float64, or if it was not found. If there is no error, the
// incremented value is returned.
func (c *cache) IncrementFloat64(k string, n float64) (float64, error) {
	c.mu.Lock()
	v, found := c.items[k]
	if !found || v.Expired() {
		c.mu.Unlock()
		return 0, fmt.Errorf("Item %s not found", k)
	}
	rv, ok := v.Object.(float64)
	if !ok {
		c.mu.Unlock()
		return 0, fmt.Errorf("The value for %s is not an float64", k)
	}
	nv := rv + n
	v.Object = nv
	c.items[k] = v
	c.mu.Unlock()
	return nv, nil
}

// Decrement an item of type int, int8, int16, int32, int64, uintptr, uint,
// uint8, uint32, or uint64, float32 or float64 by n. Returns an error if the
// item's value is not an integer, if it was not found, or if it is not
// possible to decrement it by n. To retrieve the decremented value, use one
// of the specialized methods, e.g. DecrementInt64.
func (c *cache) Decrement(k string, n int64) error {
	// TODO: Implement Increment and Decrement more cleanly.
	// (Cannot do Increment(k, n*-1) for uints.)
	c.mu.Lock()
	v, found := c.items[k]
	if !found || v.Expired() {
		c.mu.Unlock()
		return fmt.Errorf("Item not found")
	}
	switch v.Object.(type) {
	case int:
		v.Object = v.Object.(int) - int(n)
	case int8:
		v.Object = v.Object.(int8) - int8(n)
	case int16:
		v.Object = v.Object.(int16) - int16(n)
	case int32:
		v.Object = v.Object.(int32) - int32(n)
	case int64:
		v.Object = v.Object.(int64) - n
	case uint:
		v.Object = v.Object.(uint) - uint(n)
	case uintptr:
		v.Object = v.Object.(uintptr) - uintptr(n)
	case uint8:
		v.Object = v.Object.(uint8) - uint8(n)
	case uint16:
		v.Object = v.Object.(uint16) - uint16(n)
	case uint32:
		v.Object = v.Object.(uint32) - uint32(n)
	case uint64:
		v.Object = v.Object.(uint64) - uint64(n)
	case float32:
		v.Object = v.Object.(float32) - float32(n)
	case float64:
		v.Object = v.Object.(float64) - float64(n)
	default:
		c.mu.Unlock()
		return fmt.Errorf("The value for %s is not an integer", k)
	}
	c.items[k] = v
	c.mu.Unlock()
	return nil
}

// Decrement an item of type float32 or float64 by n. Returns an error if the
// item's value is not floating point, if it was not found, or if it is not
// possible to decrement it by n. Pass a negative number to decrement the
// value. To retrieve the decremented value, use one of the specialized methods,
// e.g. DecrementFloat64.
func (c *cache) DecrementFloat(k string, n float64) error {
	c.mu.Lock()
	v, found := c.items[k]
	if !found || v.Expired() {
		c.mu.Unlock()
		return fmt.Errorf("Item %s not found", k)
	}
	switch v.Object.(type) {
	case float32:
		v.Object = v.Object.(float32) - float32(n)
	case float64:
		v.Object = v.Object.(float64) - n
	default:
		c.mu.Unlock()
		return fmt.Errorf("The value for %s does not have type float32 or float64", k)
	}
	c.items[k] = v
	c.mu.Unlock()
	return nil
}

// Decrement an item of type int by n. Returns an error if the item's value is
// not an int, or if it was not found. If there is no error, the decremented
// value is returned.
func (c *cache) DecrementInt(k string, n int) (int, error) {
	c.mu.Lock()
	v, found := c.items[k]
	if !found || v.Expired() {
		c.mu.Unlock()
		return 0, fmt.Errorf("Item %s not found", k)
	}
	rv, ok := v.Object.(int)
	if !ok {
		c.mu.Unlock()
		return 0, fmt.Errorf("The value for %s is not an int", k)
	}
	nv := rv - n
	v.Object = nv
	c.items[k] = v
	c.mu.Unlock()
	return nv, nil
}

// Decrement an item of type int8 by n. Returns an error if the item's value is
// not an int8, or if it was not found. If there is no error, the decremented
// value is returned.
func (c *cache) DecrementInt8(k string, n int8) (int8, error) {
	c.mu.Lock()
	v, found := c.items[k]
	if !found || v.Expired() {
		c.mu.Unlock()
		return 0, fmt.Errorf("Item %s not found", k)
	}
	rv, ok := v.Object.(int8)
	if !ok {
		c.mu.Unlock()
		return 0, fmt.Errorf("The value for %s is not an int8", k)
	}
	nv := rv - n
	v.Object = nv
	c.items[k] = v
	c.mu.Unlock()
	return nv, nil
}

// Decrement an item of type int16 by n. Returns an error if the item's value is
// not an int16, or if it was not found. If there is no error, the decremented
// value is returned.
func (c *cache) DecrementInt16(k string, n int16) (int16, error) {
	c.mu.Lock()
	v, found := c.items[k]
	if !found || v.Expired() {
		c.mu.Unlock()
		return 0, fmt.Errorf("Item %s not found", k)
	}
	rv, ok := v.Object.(int16)
	if !ok {
		c.mu.Unlock()
		return 0, fmt.Errorf("The value for %s is not an int16", k)
	}
	nv := rv - n
	v.Object = nv
	c.items[k] = v
	c.mu.Unlock()
	return nv, nil
}

// Decrement an item of type int32 by n. Returns an error if the item's value is
// not an int32, or if it was not found. If there is no error, the decremented
// value is returned.
func (c *cache) DecrementInt32(k string, n int32) (int32, error) {
	c.mu.Lock()
	v, found := c.items[k]
	if !found || v.Expired() {
		c.mu.Unlock()
		return 0, fmt.Errorf("Item %s not found", k)
	}
	rv, ok := v.Object.(int32)
	if !ok {
		c.mu.Unlock()
		return 0, fmt.Errorf("The value for %s is not an int32", k)
	}
	nv := rv - n
	v.Object = nv
	c.items[k] = v
	c.mu.Unlock()
	return nv, nil
}

// Decrement an item of type int64 by n. Returns an error if the item's value is
// not an int64, or if it was not found. If there is no error, the decremented
// value is returned.
func (c *cache) DecrementInt64(k string, n int64) (int64, error) {
	c.mu.Lock()
	v, found := c.items[k]
	if !found || v.Expired() {
		c.mu.Unlock()
		return 0, fmt.Errorf("Item %s not found", k)
	}
	rv, ok := v.Object.(int64)
	if !ok {
		c.mu.Unlock()
		return 0, fmt.Errorf("The value for %s is not an int64", k)
	}
	nv := rv - n
	v.Object = nv
	c.items[k] = v
	c.mu.Unlock()
	return nv, nil
}

// Decrement an item of type uint by n. Returns an error if the item's value is
// not an uint, or if it was not found. If there is no error, the decremented
// value is returned.
func (c *cache) DecrementUint(k string, n uint) (uint, error) {
	c.mu.Lock()
	v, found := c.items[k]
	if !found || v.Expired() {
		c.mu.Unlock()
		return 0, fmt.Errorf("Item %s not found", k)
	}
	rv, ok := v.Object.(uint)
	if !ok {
		c.mu.Unlock()
		return 0, fmt.Errorf("The value for %s is not an uint", k)
	}
	nv := rv - n
	v.Object = nv
	c.items[k] = v
	c.mu.Unlock()
	return nv, nil
}

// Decrement an item of type uintptr by n. Returns an error if the item's value
// is not an uintptr, or if it was not found. If there is no error, the
// decremented value is returned.
func (c *cache) DecrementUintptr(k string, n uintptr) (uintptr, error) {
	c.mu.Lock()
	v, found := c.items[k]
	if !found || v.Expired() {
		c.mu.Unlock()
		return 0, fmt.Errorf("Item %s not found", k)
	}
	rv, ok := v.Object.(uintptr)
	if !ok {
		c.mu.Unlock()
		return 0, fmt.Errorf("The value for %s is not an uintptr", k)
	}
	nv := rv - n
	v.Object = nv
	c.items[k] = v
	c.mu.Unlock()
	return nv, nil
}

// Decrement an item of type uint8 by n. Returns an error if the item's value is
// not an uint8, or if it was not found. If there is no error, the decremented
// value is returned.
func (c *cache) DecrementUint8(k string, n uint8) (uint8, error) {
	c.mu.Lock()
	v, found := c.items[k]
	if !found || v.Expired() {
		c.mu.Unlock()
		return 0, fmt.Errorf("Item %s not found", k)
	}
	rv, ok := v.Object.(uint8)
	if !ok {
		c.mu.Unlock()
		return 0, fmt.Errorf("The value for %s is not an uint8", k)
	}
	nv := rv - n
	v.Object = nv
	c.items[k] = v
	c.mu.Unlock()
	return nv, nil
}

// Decrement an item of type uint16 by n. Returns an error if the item's value
// is not an uint16, or if it was not found. If there is no error, the
// decremented value is returned.
func (c *cache) DecrementUint16(k string, n uint16) (uint16, error) {
	c.mu.Lock()
	v, found := c.items[k]
	if !found || v.Expired() {
		c.mu.Unlock()
		return 0, fmt.Errorf("Item %s not found", k)
	}
	rv, ok := v.Object.(uint16)
	if !ok {
		c.mu.Unlock()
		return 0, fmt.Errorf("The value for %s is not an uint16", k)
	}
	nv := rv - n
	v.Object = nv
	c.items[k] = v
	c.mu.Unlock()
	return nv, nil
}

// Decrement an item of type uint32 by n. Returns an error if the item's value
// is not an uint32, or if it was not found. If there is no error, the
// decremented value is returned.
func (c *cache) DecrementUint32(k string, n uint32) (uint32, error) {
	c.mu.Lock()
	v, found := c.items[k]
	if !found || v.Expired() {
		c.mu.Unlock()
		return 0, fmt.Errorf("Item %s not found", k)
	}
	rv, ok := v.Object.(uint32)
	if !ok {
		c.mu.Unlock()
		return 0, fmt.Errorf("The value for %s is not an uint32", k)
	}
	nv := rv - n
	v.Object = nv
	c.items[k] = v
	c.mu.Unlock()
	return nv, nil
}

// Decrement an item of type uint64 by n. Returns an error if the item's value
// is not an uint64, or if it was not found. If there is no error, the
// decremented value is returned.
func (c *cache) DecrementUint64(k string, n uint64) (uint64, error) {
	c.mu.Lock()
	v, found := c.items[k]
	if !found || v.Expired() {
		c.mu.Unlock()
		return 0, fmt.Errorf("Item %s not found", k)
	}
	rv, ok := v.Object.(uint64)
	if !ok {
		c.mu.Unlock()
		return 0, fmt.Errorf("The value for %s is not an uint64", k)
	}
	nv := rv - n
	v.Object = nv
	c.items[k] = v
	c.mu.Unlock()
	return nv, nil
}

// Decrement an item of type float32 by n. Returns an error if the item's value
// is not an float32, or if it was not found. If there is no error, the
// decremented value is returned.
func (c *cache) DecrementFloat32(k string, n float32) (float32, error) {
	c.mu.Lock()
	v, found := c.items[k]
	if !found || v.Expired() {
		c.mu.Unlock()
		return 0, fmt.Errorf("Item %s not found", k)
	}
	rv, ok := v.Object.(float32)
	if !ok {
		c.mu.Unlock()
		return 0, fmt.Errorf("The value for %s is not an float32", k)
	}
	nv := rv - n
	v.Object = nv
	c.items[k] = v
	c.mu.Unlock()
	return nv, nil
}

// Decrement an item of type float64 by n. Returns an error if the item's value
// is not an float64, or if it was not found. If there is no error, the
// decremented value is returned.
func (c *cache) DecrementFloat64(k string, n float64) (float64, error) {
	c.mu.Lock()
	v, found := c.items[k]
	if !found || v.Expired() {
		c.mu.Unlock()
		return 0, fmt.Errorf("Item %s not found", k)
	}
	rv, ok := v.Object.(float64)
	if !ok {
		c.mu.Unlock()
		return 0, fmt.Errorf("The value for %s is not an float64", k)
	}
	nv := rv - n
	v.Object = nv
	c.items[k] = v
	c.mu.Unlock()
	return nv, nil
}

// Delete an item from the cache. Does nothing if the key is not in the cache.
func (c *cache) Delete(k string) {
	c.mu.Lock()
	v, evicted := c.delete(k)
	c.mu.Unlock()
	if evicted {
		c.onEvicted(k, v)
	}
}

func (c *cache) delete(k string) (interface{}, bool) {
	if c.onEvicted != nil {
		if v, found := c.items[k]; found {
			delete(c.items, k)
			return v.Object, true
		}
	}
	delete(c.items, k)
	return nil, false
}

type keyAndValue struct {
	key   string
	value interface{}
}

// Delete all expired items from the cache.
func (c *cache) DeleteExpired() {
	var evictedItems []keyAndValue
	now := time.Now().UnixNano()
	c.mu.Lock()
	for k, v := range c.items {
		// "Inlining" of expired
		if v.Expiration > 0 && now > v.Expiration {
			ov, evicted := c.delete(k)
			if evicted {
				evictedItems = append(evictedItems, keyAndValue{k, ov})
			}
		}
	}
	c.mu.Unlock()
	for _, v := range evictedItems {
		c.onEvicted(v.key, v.value)
	}
}

// Sets an (optional) function that is called with the key and value when an
// item is evicted from the cache. (Including when it is deleted manually, but
// not when it is overwritten.) Set to nil to disable.
func (c *cache) OnEvicted(f func(string, interface{})) {
	c.mu.Lock()
	c.onEvicted = f
	c.mu.Unlock()
}

// Write the cache's items (using Gob) to an io.Writer.
//
// NOTE: This method is deprecated in favor of c.Items() and NewFrom() (see the
// documentation for NewFrom().)
func (c *cache) Save(w io.Writer) (err error) {
	enc := gob.NewEncoder(w)
	defer func() {
		if x := recover(); x != nil {
			err = fmt.Errorf("Error registering item types with Gob library")
		}
	}()
	c.mu.RLock()
	defer c.mu.RUnlock()
	for _, v := range c.items {
		gob.Register(v.Object)
	}
	err = enc.Encode(&c.items)
	return
}

// Save the cache's items to the given filename, creating the file if it
// doesn't exist, and overwriting it if it does.
//
// NOTE: This method is deprecated in favor of c.Items() and NewFrom() (see the
// documentation for NewFrom().)
func (c *cache) SaveFile(fname string) error {
	fp, err := os.Create(fname)
	if err != nil {
		return err
	}
	err = c.Save(fp)
	if err != nil {
		fp.Close()
		return err
	}
	return fp.Close()
}

// Add (Gob-serialized) cache items from an io.Reader, excluding any items with
// keys that already exist (and haven't expired) in the current cache.
//
// NOTE: This method is deprecated in favor of c.Items() and NewFrom() (see the
// documentation for NewFrom().)
func (c *cache) Load(r io.Reader) error {
	dec := gob.NewDecoder(r)
	items := map[string]Item{}
	err := dec.Decode(&items)
	if err == nil {
		c.mu.Lock()
		defer c.mu.Unlock()
		for k, v := range items {
			ov, found := c.items[k]
			if !found || ov.Expired() {
				c.items[k] = v
			}
		}
	}
	return err
}

// Load and add cache items from the given filename, excluding any items with
// keys that already exist in the current cache.
//
// NOTE: This method is deprecated in favor of c.Items() and NewFrom() (see the
// documentation for NewFrom().)
func (c *cache) LoadFile(fname string) error {
	fp, err := os.Open(fname)
	if err != nil {
		return err
	}
	err = c.Load(fp)
	if err != nil {
		fp.Close()
		return err
	}
	return fp.Close()
}

// Copies all unexpired items in the cache into a new map and returns it.
func (c *cache) Items() map[string]Item {
	c.mu.RLock()
	defer c.mu.RUnlock()
	m := make(map[string]Item, len(c.items))
	now := time.Now().UnixNano()
	for k, v := range c.items {
		// "Inlining" of Expired
		if v.Expiration > 0 {
			if now > v.Expiration {
				continue
			}
		}
		m[k] = v
	}
	return m
}

// Returns the number of items in the cache. This may include items that have
// expired, but have not yet been cleaned up.
func (c *cache) ItemCount() int {
	c.mu.RLock()
	n := len(c.items)
	c.mu.RUnlock()
	return n
}

// Delete all items from the cache.
func (c *cache) Flush() {
	c.mu.Lock()
	c.items = map[string]Item{}
	c.mu.Unlock()
}

type janitor struct {
	Interval time.Duration
	stop     chan bool
}

func (j *janitor) Run(c *cache) {
	ticker := time.NewTicker(j.Interval)
	for {
		select {
		case <-ticker.C:
			c.DeleteExpired()
		case <-j.stop:
			ticker.Stop()
			return
		}
	}
}

func stopJanitor(c *Cache) {
	c.janitor.stop <- true
}

func runJanitor(c *cache, ci time.Duration) {
	j := &janitor{
		Interval: ci,
		stop:     make(chan bool),
	}
	c.janitor = j
	go j.Run(c)
}

func newCache(de time.Duration, m map[string]Item) *cache {
	if de == 0 {
		de = -1
	}
	c := &cache{
		defaultExpiration: de,
		items:             m,
	}
	return c
}

func newCacheWithJanitor(de time.Duration, ci time.Duration, m map[string]Item) *Cache {
	c := newCache(de, m)
	// This trick ensures that the janitor goroutine (which--granted it
	// was enabled--is running DeleteExpired on c forever) does not keep
	// the returned C object from being garbage collected. When it is
	// garbage collected, the finalizer stops the janitor goroutine, after
	// which c can be collected.
	C := &Cache{c}
	if ci > 0 {
		runJanitor(c, ci)
		// verification copy: no finalizer. The original stops the janitor from a
		// finalizer by a channel send; for a cache created inside a testing/synctest
		// bubble that send comes from the GC goroutine (outside the bubble) and is a
		// fatal error. The janitor goroutine ends with its bubble instead.
		_ = stopJanitor
	}
	return C
}

// Return a new cache with a given default expiration duration and cleanup
// interval. If the expiration duration is less than one (or NoExpiration),
// the items in the cache never expire (by default), and must be deleted
// manually. If the cleanup interval is less than one, expired items are not
// deleted from the cache before calling c.DeleteExpired().
func New(defaultExpiration, cleanupInterval time.Duration) *Cache {
	items := make(map[string]Item)
	return newCacheWithJanitor(defaultExpiration, cleanupInterval, items)
}

// Return a new cache with a given default expiration duration and cleanup
// interval. If the expiration duration is less than one (or NoExpiration),
// the items in the cache never expire (by default), and must be deleted
// manually. If the cleanup interval is less than one, expired items are not
// deleted from the cache before calling c.DeleteExpired().
//
// NewFrom() also accepts an items map which will serve as the underlying map
// for the cache. This is useful for starting from a deserialized cache
// (serialized using e.g. gob.Encode() on c.Items()), or passing in e.g.
// make(map[string]Item, 500) to improve startup performance when the cache
// is expected to reach a certain minimum size.
//
// Only the cache's methods synchronize access to this map, so it is not
// recommended to keep any references to the map around after creating a cache.
// If need be, the map can be accessed at a later point using c.Items() (subject
// to the same caveat.)
//
// Note regarding serialization: When using e.g. gob, make sure to
// gob.Register() the individual types stored in the cache before encoding a
// map retrieved with c.Items(), and to register those same types before
// decoding a blob containing an items map.
func NewFrom(defaultExpiration, cleanupInterval time.Duration, items map[string]Item) *Cache {
	return newCacheWithJanitor(defaultExpiration, cleanupInterval, items)
}
