// Package http3 is a compile-only stand-in for quic-go's http3 (v0.27.2 does
// not build with the toolchains in this sandbox). HTTP/3 is outside every
// listed property; ListenAndServe fails immediately.
package http3

import (
	"errors"
	"net/http"
)

// Server mirrors the fields easegress uses.
type Server struct {
	*http.Server
}

// ListenAndServe is not supported in the simulation.
func (s *Server) ListenAndServe() error { return errors.New("http3 is stubbed out in the verification build") }

// Close does nothing.
func (s *Server) Close() error { return nil }
