#!/usr/bin/env python3
"""Prints the markdown table of seeded changes (from /verif/seeded/*/meta.json) for DESIGN.md §14."""
import json, glob, os
rows = []
for d in sorted(glob.glob('/verif/seeded/*')):
    mp = os.path.join(d, 'meta.json')
    if not os.path.exists(mp): continue
    m = json.load(open(mp))
    name = os.path.basename(d)
    checks = m.get('checks', {})
    res = []
    own = m.get('property', name.split('-')[0])
    for cid, r in sorted(checks.items(), key=lambda kv: kv[0] != own):
        tag = cid if cid == own else f"(also {cid}"
        end = "" if cid == own else ")"
        if r.get('caught'):
            res.append(f"{tag}: caught ({', '.join(sorted(set(r.get('classes', [])))[:3])}){end}")
        elif cid == own:
            res.append(f"{tag}: MISSED")
    title = m.get('title', '').replace('|', '/')
    needs = (m.get('needs_to_manifest', '') or '').replace('|', '/').replace('\n', ' ')
    if len(needs) > 160: needs = needs[:157] + '...'
    kept = m.get('verified_here', {}).get('kept')
    note = m.get('note', '')
    rows.append(f"| {name} | {title[:110]} | {needs} | {'; '.join(res)}{' — ' + note if note else ''} |")
print("| seeded change | what | needs to manifest | quick tier result |")
print("|---|---|---|---|")
print("\n".join(rows))
