import json,sys,glob,os,subprocess
pid=sys.argv[1]; n=sys.argv[2] if len(sys.argv)>2 else "3"; rnd=sys.argv[3] if len(sys.argv)>3 else "2"
base=subprocess.run(["python3","/verif/tools/prompts/mut_prompt.py",pid,n],capture_output=True,text=True).stdout
base=base.replace("the package pkg/object/httpserver does not compile in this sandbox because of the quic-go dependency — that is pre-existing;","the package pkg/object/httpserver (and packages importing it) does not compile with the default go because of the quic-go dependency (pre-existing) — to build and test those use: cp go.mod /tmp/stubmod-X.mod; cp go.sum /tmp/stubmod-X.sum; printf \"\\nreplace github.com/lucas-clemente/quic-go => /opt/stubs/quic-go\\nreplace github.com/megaease/grace => /opt/stubs/grace\\n\" >> /tmp/stubmod-X.mod; GOTOOLCHAIN=local go1.26.8 test -modfile=/tmp/stubmod-X.mod -vet=off -count=1 -ldflags=-checklinkname=0 ./pkg/object/httpserver/ (compile-only stubs are in /opt/stubs; replace X by a unique suffix); the mqttproxy unit tests bind the fixed port 1883 and fail when another process on this shared machine holds it — run them under `unshare -n` if that happens;")
titles=[]
for d in sorted(glob.glob(f'/verif/seeded/{pid}-*m*')):
    try: titles.append(json.load(open(os.path.join(d,'meta.json')))['title'])
    except Exception: pass
avoid="\n".join("  - "+t for t in titles)
extra=f"""

ALREADY TAKEN (another engineer delivered these for the same property; yours must be DIFFERENT in mechanism and location, do not vary them):
{avoid}
Aim this time for defects that are harder to notice: ones that depend on a particular interleaving of concurrent goroutines, on a timer / time-out / clock boundary, on a fault (connection reset, error return, panic in a callback) at a particular point, or on state carried across several operations (reload, reconnect, eviction, retry)."""
print(base.replace("\nFor EACH change i = 1..", extra+"\n\nFor EACH change i = 1..",1).replace(f"/tmp/mut-{pid}",f"/tmp/mut{rnd}-{pid}"))
