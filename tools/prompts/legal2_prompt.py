import json,sys,glob,subprocess
pid=sys.argv[1]
base=subprocess.run(["python3","/verif/tools/prompts/legal_prompt.py",pid],capture_output=True,text=True).stdout
titles=[]
for d in sorted(glob.glob(f'/verif/legal/leg-{pid}-l*')):
    m=json.load(open(d+'/meta.json')); titles.append(m.get('title',''))
extra="\n\nALREADY TAKEN (another engineer delivered these; yours must be DIFFERENT in mechanism and location - in particular do not deliver further 'error body / extra header / log text' changes):\n"+"\n".join("  - "+t for t in titles)+"\nAim this time for deeper but still legal moves: another status or result of the SAME class the statement names, another choice among outcomes the statement explicitly allows, timing moved inside an allowed bound (earlier/later release, shorter/longer wait, different but conforming back-off), a different tie-break, different handling of inputs or configurations the statement does not quantify over, keeping or resetting state where the statement does not say which, stricter or looser validation of specs outside the quantifier."
print(base.replace("\nFor EACH change i = 1..4 deliver", extra+"\n\nFor EACH change i = 1..4 deliver",1).replace(f"/tmp/leg-{pid}",f"/tmp/leg2-{pid}"))
