import json,sys
pid=sys.argv[1]; n=sys.argv[2] if len(sys.argv)>2 else "3"
props={json.loads(l)['id']:json.loads(l) for l in open('/verif/properties.jsonl')}
p=props[pid]
wt=f"/tmp/mut-{pid}"
print(f"""You are a senior Go engineer doing mutation/fault-seeding work on the open-source project megaease/easegress (a cloud-native API gateway in Go). Your private scratch git worktree of the repository is {wt} (already created, at the current HEAD). Work ONLY inside {wt}. Do not read or touch /verif or /repo (they are off limits for this task), and do not look for any verification tooling on this machine: your work must be independent of it.

Environment for every shell command: export GOFLAGS=-mod=mod GOPROXY=off GOSUMDB=off   (no network; the default `go` is 1.23; the package pkg/object/httpserver does not compile in this sandbox because of the quic-go dependency — that is pre-existing; `go vet` is not needed, pass -vet=off to go test).

THE PROPERTY (a semantic guarantee users of easegress rely on):
  Title: {p['title']}
  Statement: {p['statement']}
  It must hold for: {p['quantifier']['text']}
  Code it is anchored in: {', '.join(p['anchors']['files'])}

YOUR TASK: produce {n} DIFFERENT, independent source changes ("seeded defects") to easegress, each of which BREAKS this property while (a) the repository still compiles (`go build ./pkg/...` apart from the pre-existing httpserver/quic-go failure — i.e. the same set of packages builds as before) and (b) the existing unit tests of the touched packages and of their obvious dependants still pass unchanged (`go test -vet=off -count=1 <pkgs>`). Each change should look like a plausible slip a maintainer could make in a refactoring or "optimisation" (a few lines), and it must need something SPECIFIC to manifest: a particular interleaving of goroutines, a fault or time-out at a particular point, a multi-step sequence of operations, an unusual but legal input or configuration, or two cooperating sites that each look fine alone — NOT something any ordinary request/use would expose immediately. Prefer variety: different mechanisms of the property, different files.

For EACH change i = 1..{n} deliver, under {wt}/OUT/m<i>/ :
  - patch.diff : `git diff` of ONLY that change against HEAD (it must apply to a clean checkout with `git apply`);
  - a demonstration: a Go test file (or small program) plus the exact command to run it, which FAILS with the change applied and PASSES without it (put the demo test under OUT/m<i>/ and say where it must be copied inside the tree to run, e.g. pkg/util/circuitbreaker/zz_demo_test.go; if the demo lives in package pkg/object/httpserver, which cannot be compiled here, make the demo exercise the changed logic in a way that can run, or choose another change);
  - meta.json : {{"property": "{pid}", "title": <one line>, "what_it_breaks": <which clause of the statement>, "needs_to_manifest": <the specific interleaving / sequence / input / fault>, "files_changed": [...], "demo_copy_to": <path>, "demo_cmd": <command>, "tests_run": <the go test commands you ran with the change applied and their result>}}.
Verify everything yourself before finishing: for each change, from a clean tree: apply patch -> build -> run the existing tests of the touched packages (must pass) -> copy demo -> run demo (must FAIL) -> revert patch (git checkout -- . ; keep OUT/) -> run demo (must PASS) -> remove the copied demo file. Leave the worktree clean (git status shows only OUT/ untracked) at the end.

Your final message: a short list of the {n} changes (one line each: what, where, what it needs to manifest) and the verification results.""")
