import json,sys
pid=sys.argv[1]
extra=sys.argv[2] if len(sys.argv)>2 else ""
props={json.loads(l)['id']:json.loads(l) for l in open('/verif/properties.jsonl')}
p=props[pid]
print(f"""You are building one verification harness in an existing deterministic-simulation framework for the Go project megaease/easegress (source at /repo, read-only for you). Work ONLY under /verif/harness/{pid}/ (create it). First read /verif/HARNESS_GUIDE.md completely, then /verif/harness/C08/c08_test.go and /verif/harness/C08/check.json (the reference example), then the section "### {pid}" of /verif/DESIGN.md (plus §5.6 "Oracle discipline" there), then the easegress code the property is anchored in.

PROPERTY {pid}: {p['title']}
STATEMENT: {p['statement']}
QUANTIFIER: {p['quantifier']['text']}
ANCHORS: files {p['anchors']['files']}; mechanisms {json.dumps(p['anchors']['mechanism'])}

YOUR TASK: write /verif/harness/{pid}/check.json and /verif/harness/{pid}/*_test.go implementing the harness designed in DESIGN.md for {pid}: a seeded scenario generator, an executor that drives the REAL easegress code (instrumented copies are generated automatically from check.json) with several simulated tasks under the seeded scheduler and virtual clock, and an oracle (reference model written from the property statement and the docs under /repo/doc, never copied from the implementation) that reports violations with precise classes "{pid}.<rule>". {extra}

RULES: follow HARNESS_GUIDE.md strictly (environment variables, never modify /repo, never modify /verif/simkit, /verif/cmd, /verif/tools, MANIFEST.json, DESIGN.md or other harness directories; do not run git commands inside /verif; for mutation experiments use your own worktree /tmp/wt-{pid} and VERIF_REPO=/tmp/wt-{pid}, and remove it at the end). Other engineers are working in sibling harness directories at the same time and the machine is shared: keep runs short (VERIF_BUDGET_S=10..20 while developing).

DONE MEANS: (1) `bin/vcheck run {pid}` exits 0 on the unchanged tree for VERIF_SEED=1, 2 and 7, with tens of thousands of runs in the quick budget if the code under test is cheap, and the evidence file validates (`python3-vt tools/validate.py`); (2) `bin/vcheck determinism {pid} --seeds 500` prints mismatches=0; (3) at least 6 realistic mutations of the code behind the property, applied one at a time in your scratch worktree, are caught by the quick tier (improve generator/oracle until most are; report the ones that are not and why); (4) probes show the interesting conditions are reached. If the check fires on the UNCHANGED tree: analyse it to the bottom. If easegress really violates the property statement, keep the oracle, give that violation its own specific class name, and report it to me with the replay file path, the minimal scenario and the code path (I will decide between fixing easegress and recording a known finding) — in that case exit code 1 on the unchanged tree for exactly that class is acceptable for now. If your oracle was wrong or stricter than the statement, fix the oracle.

FINAL REPORT (your last message, concise): files written; runs/sec and what a run does; unchanged-tree results per seed; determinism result; table of mutants (diff one-liner → caught? how fast); probes reached; every genuine-defect candidate with class, replay path and explanation; oracle leniency decisions you took (what is accepted both ways / not generated); framework features you missed or worked around.""")
