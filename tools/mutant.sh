#!/bin/sh
# usage: tools/mutant.sh <ID> <file relative to /repo> <python-regex> <replacement>   (applies, runs quick check, reverts)
ID=$1; F=$2; PAT=$3; REP=$4
cd /repo || exit 9
python3 - "$F" "$PAT" "$REP" <<'PY'
import re,sys
f,pat,rep=sys.argv[1:4]
s=open(f).read()
n=len(re.findall(pat,s,flags=re.S))
if n!=1:
    print("PATTERN MATCHES",n,"times"); sys.exit(7)
open(f,'w').write(re.sub(pat,rep,s,count=1,flags=re.S))
PY
[ $? = 0 ] || { git checkout -- .; exit 7; }
git diff | grep '^[-+]' | grep -v '^+++\|^---' | head -6
cd /verif && VERIF_BUDGET_S=${BUDGET:-25} bin/vcheck run $ID | grep -v "^  \|history" | cut -c1-300 | head -8
echo "exit=$?"
git -C /repo checkout -- .
rm -f /verif/replays/*.json
