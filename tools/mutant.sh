#!/bin/sh
# usage: tools/mutant.sh <ID> <file relative to repo> <python-regex> <replacement>
# Applies one mutation in the scratch worktree $WT (default /tmp/wt-mine, created from /repo HEAD if missing),
# runs the quick check against it, and reverts. /repo itself is never touched.
ID=$1; F=$2; PAT=$3; REP=$4
WT=${WT:-/tmp/wt-mine}
[ -d "$WT" ] || git -C /repo worktree add --detach "$WT" HEAD >/dev/null 2>&1
cd "$WT" || exit 9
git checkout -q -- . && git checkout -q --detach "$(git -C /repo rev-parse HEAD)"
python3 - "$F" "$PAT" "$REP" <<'PY'
import re,sys
f,pat,rep=sys.argv[1:4]
s=open(f).read()
n=len(re.findall(pat,s,flags=re.S))
if n!=1:
    print("PATTERN MATCHES",n,"times"); sys.exit(7)
rep=rep.replace('\\n','\n').replace('\\t','\t')
open(f,'w').write(re.sub(pat,lambda m: rep,s,count=1,flags=re.S))
PY
[ $? = 0 ] || { git checkout -q -- .; exit 7; }
git diff | grep '^[-+]' | grep -v '^+++\|^---' | head -6
cd /verif && VERIF_REPO=$WT VERIF_BUDGET_S=${BUDGET:-25} bin/vcheck run $ID 2>&1 | grep -v "^  \|history" | cut -c1-260 | head -${LINES_OUT:-4}
cd "$WT" && git checkout -q -- .
rm -f /verif/replays/$ID-*.json
