#!/bin/sh
# Builds the vcheck driver from files on disk only (offline).
set -e
cd "$(dirname "$0")/.."
export GOFLAGS=-mod=mod GOPROXY=off GOSUMDB=off GOTOOLCHAIN=local
mkdir -p bin build replays evidence
(cd cmd/vcheck && go1.26.8 build -o ../../bin/vcheck .)
echo "vcheck built: $(pwd)/bin/vcheck"
