#!/usr/bin/env python3
"""Regenerates /verif/MANIFEST.json from the table below (kept valid at all times)."""
import json, os

V = "/verif"
BASE_OFF = "for m in $(cat /w/out/gomods.txt); do MF=$(cd /repo/$m && . /w/out/goenv.sh && gomodflag); (cd /repo/$m && go test $MF -json -vet=off -count=1 -timeout 25m ./...); done"

NOTE_COMMON = ("Trusted base: Go 1.26.8 runtime and testing/synctest (virtual clock, quiescence), the simkit scheduler and shims "
               "(sync/atomic/rand replaced by semantically equal gated versions in instrumented copies of the files under test), "
               "the harness's reference model/oracle. Sampling, not enumeration: a clean batch is evidence, not proof.")

# id -> (technique, level text, design ref, note extra)
CLAIMED = {
 "C03": ("deterministic simulation: raw HTTP clients and scripted backend around the real http.Server+mux+Pipeline+Proxy over a simulated TCP network (segmentation, latency, resets), strict wire-level response parser as oracle; optional retry policy, pool memory cache, mirror pool (healthy/slow/resetting/down), servers delivered by the service registry, faulty backends (mid-body reset, damaged gzip)",
         "Seeded search over chain configurations x request/response shapes (all methods incl. HEAD, percent-encoded reserved characters in paths, gzip and Expect: 100-continue request bodies) x network fragmentation/latency x client interleavings; every exchange is compared field by field (method, path, query, headers, body, framing) between what the client sent/received and what the backend received/sent. Exploration: the input space is unbounded; framing and keep-alive reuse only show on a real byte stream, which the simulated network provides deterministically.",
         "DESIGN.md §6 C03", "net/http client and server code is real; the network is simnet."),
 "C04": ("deterministic simulation: concurrent selector and updater tasks on the real ServerPool/load balancers under the seeded scheduler (gates at atomic.Value, the round-robin counter and seeded math/rand), versioned-list reference model",
         "Seeded search over policies x server lists x keys x interleavings of selection with list replacement; each choice is judged against the set of list generations current during the call, fairness per generation at quiescent instants.",
         "DESIGN.md §6 C04", "fnSendRequest is stubbed by a recorder."),
 "C05": ("deterministic simulation: request histories from concurrent clients against the real mux with route cache, compared with quiescent cache-less / filter-less twins of the same code, across hot reloads of the filter lists (quiescent and under traffic, one reference per generation)",
         "Seeded search over allow/block lists at three levels x client addresses x request histories that populate the route cache x client interleavings; denial and routing are compared with twins and with net.IPNet membership.",
         "DESIGN.md §6 C05", "routing itself is taken from a twin of the same code (C01's domain is not judged)."),
 "C06": ("deterministic simulation: credentials produced by an independent issuer on a skewed issuer clock, delivered over a simulated TCP network through the real http.Server+mux (which drains the body) to the real Validator at drawn validator-clock instants (exp/nbf/TTL edges), with single-field corruption in flight",
         "Seeded search over validator configurations (headers/JWT/signature/basic, combined) x requests x issuer-vs-validator clock skew and exact boundary instants x one in-flight mutation of a covered element x body segmentation; accept/reject, result string, status and the body that would be forwarded are compared with what the credentials and the clock dictate.",
         "DESIGN.md §6 C06", "the issuer (JWT writer, SigV4-style signer, Basic encoder) is harness code written from the documented algorithms; both answers are accepted exactly on time edges; oauth2 and basicAuth FILE mode are not generated."),
 "C07": ("deterministic simulation: same real HTTP chain as C03 with body sizes on and around the effective limits, declared/chunked/lying lengths (both directions), route cache, header-conditioned path entries, Proxy compression, mirror pool, pool memory cache, backends that close kept-alive connections under a request (HTTP-client replays) and a hot update of all four limits between two rounds, over a simulated TCP network",
         "Seeded search over limit settings at path/server/pool/proxy level x body sizes around the limit x encodings x segmentation; the client-visible status/body and what the backend saw are compared with the limit rules of the statement.",
         "DESIGN.md §6 C07", "the 4 MiB default is exercised in the thorough tier only."),
 "C08": ("deterministic simulation: real CircuitBreaker + resilience wrapper under seeded scheduler and virtual clock, lock-step comparison with a reference automaton",
         "Seeded search over policies x call histories x interleavings x clock advances; every admission and recorded result of the real breaker is compared with an independent reference automaton written from the statement. Exploration is the right level: the space (histories x schedules x clock positions) is unbounded and the breaker is cheap enough for ~10^5 runs per minute.",
         "DESIGN.md §6 C08", "The last sentence of the property (Proxy maps a short-circuited call to 503/shortCircuited without contacting a server, buffered and stream requests) is decided by the sub-harness C08P (real ServerPool with an injected CircuitBreakerPolicy, scripted transport), run as part of this check."),
 "C09": ("deterministic simulation: real RateLimiter / MultiRateLimiter / RateLimiter filter (incl. reload) / MQTT limiter (called directly and through the packet path of connected clients: CONNECT validation, QoS 0/1/2, DUP re-sends, reconnects, take-overs) driven by concurrent tasks on the virtual clock, reservation-ledger oracle",
         "Seeded search over policies x arrival patterns (bursts, exact period boundaries, idle gaps) x concurrent acquirers x reloads; per-period release counts, waits and rejections are checked against a ledger written from the statement.",
         "DESIGN.md §6 C09", "a hook file added by overlay reports the instants the limiter reads from its clock (still time.Now on the virtual clock)."),
 "C10": ("deterministic simulation: real ServerPool.handle with Retry/CircuitBreaker wrappers and pool time-out under concurrent clients on the virtual clock; scripted per-attempt transport outcomes (incl. stream responses read after the handler returned), client cancellation at drawn instants (incl. exact back-off boundaries); second variant with the Proxy's real http.Transport over the simulated network against a stalling/resetting backend",
         "Seeded search over retry policies x per-attempt outcome scripts x cancellation instants x time-outs x buffered/stream bodies x interleavings; attempts, their spacing, the final outcome and the breaker's window totals are checked against the statement, with bounded liveness (408 within the bound of simulated time) on the network variant.",
         "DESIGN.md §6 C10", "fnSendRequest is scripted in 92% of runs; 8% use the real transport over simnet."),
 "C11": ("deterministic simulation: requests kept in flight (parked at gates inside handlers/filters) while reload / Inherit / apply / delete run on the real mux (with and without a tracing section), Pipeline + 12 filter kinds and TrafficController, with a real MQTTProxy (broker on the simulated network, raw MQTT clients, CONNECT and PUBLISH pipelines) living next to the HTTP objects and being created / updated / deleted meanwhile; quiescent twins per generation as oracle",
         "Seeded search over chains of old/new specs x request mixes x interleavings of request handling with mux.reload, Pipeline.Inherit (which closes the previous generation) and TrafficController create/apply/update/delete; every answer must equal, in all observed fields at once, the answer of a quiescent twin of one generation that was legitimately in effect during the request; no panic on the old generation; identical re-apply invokes no lifecycle call; untouched objects stay available.",
         "DESIGN.md §6 C11", "twins are the same code at rest; service discovery, tracing, HTTPS and filter kinds needing a cluster or remote endpoint are not generated."),
 "C12": ("deterministic simulation: request histories from concurrent clients against twin real muxes (cacheSize n vs 0), including colliding keys, constant eviction, rewritten paths that coincide with literal ones, request bodies with body limits, proxy-header client IPs and hot reloads of both twins (quiescent and in flight)",
         "Seeded search over rule sets x request sequences x cache sizes x client interleavings; each answer of the cached mux must equal the cache-less twin's answer.",
         "DESIGN.md §6 C12", "the oracle is the same routing code without cache."),
 "C14": ("deterministic simulation: concurrent MQTT client tasks driving the real TopicManager/processSubscribe/processUnsubscribe/closeAndDelSession under the seeded scheduler, compared with an MQTT 3.1.1 reference matcher",
         "Seeded search over subscribe/unsubscribe/disconnect histories x filters with wildcards/empty levels/malformed x LRU sizes x interleavings; routing results and residue are compared with a reference subscription set.",
         "DESIGN.md §6 C14", ""),
 "C15": ("deterministic simulation: real MQTT Broker (read/write loops, sessions, resend ticker on the virtual clock, topic manager) listening on the simulated network, raw MQTT clients with scripted PUBACK behaviour (prompt, omitted k times, delayed, duplicated, stop reading), publishes through the real HTTP publish handler; subscriber enumeration order is a seeded choice (map-range rewriting)",
         "Seeded search over subscriber populations with overlapping filters and mixed QoS x message QoS x enumeration orders x ack behaviours x bursts that overflow the outbound queue x interleavings; every publish must reach every eligible client (QoS0 loss only with a provably full queue), none ineligible, un-acked QoS1 packets are retransmitted until acked and not after, client QoS1 PUBLISHes reach the backend pipeline and are acked with the same id.",
         "DESIGN.md §6 C15", "storage is the repo's mock storage behind a recording wrapper (sessions restored from storage after a complete teardown are generated); cluster member look-up faults and client DUP retries are generated; QoS2, retained messages and wills are not."),
 "C16": ("deterministic simulation: real MQTT Broker (handleConn, read/write loops, sessions, session manager, topic manager, resend tickers on the virtual clock) on the simulated network with 1-4 scripted connections contending for one client id; the instant at which a superseded connection's read loop learns of its end (reset, half-close, silence until keep-alive, late packet) is placed before/between/after the successor's steps by simnet and the scheduler; simulated session store with latency, errors and delete watch",
         "Seeded search over orders of connect / subscribe / drop / reconnect / takeover with both cleanSession values x teardown instants x pipelined packets x store latency/errors x interleavings (gates at locks, goroutine starts, selects, timers); after settling, the surviving connection's session, subscriptions (white-box and by probe publishes) and registration must be what the cleanSession rules dictate; invariants on the broker's client table at every quiescent point; admin delete disconnects.",
         "DESIGN.md §6 C16", "three genuine findings (own-delete echo, SUBACK/UNSUBACK before the snapshot is persisted) are listed as known in known_findings.txt; storage is a simulated etcd-like store."),
 "C17": ("deterministic simulation: real LimitListener+Semaphore under a real http.Server, the whole real httpserver runtime reconfigured through its event channel, and the real MQTT Broker, all on the simulated network with concurrent connects/closes/resets, SetMaxConnection sequences, aborted and delayed handshakes, listener restarts and MQTTProxy updates (old broker closed, new one on the same port); open-connection counting oracle evaluated at every quiescent instant",
         "Seeded search over client populations x connect/idle/close/reset patterns x cap changes (grow, shrink below usage, back-to-back) x interleavings; open <= cap whenever no adjustment is pending, no accept at or above an applied cap, no established connection dropped by a shrink, released capacity is reusable (final phase admits exactly cap fresh connections), MQTT connects beyond the cap are refused with server-unavailable.",
         "DESIGN.md §6 C17", "a takeover of a connected id at the cap is accepted both ways (statement silent); sub-harness C17L (run as part of this check) drives LimitListener+Semaphore directly, without net/http, with gates inside Close and concurrent closers."),
 "C18": ("deterministic simulation: 1-3 simulated cluster members, each the real cluster code (lease, concurrency.Session/Mutex through pkg/cluster/mutex.go) with its own real etcd clientv3 over gRPC on the simulated network against simetcd, plus a real api.Server per member (chi router, middlewares, object handlers) driven concurrently; critical-section overlap counter, version/fold oracle and porcupine linearizability check (map+counter model) over histories stamped with the simulator's event sequence numbers",
         "Seeded search over contention patterns (goroutines x members x hold times) x request time-outs below/above RPC latency x faults (slow request applied after the client gave up, slow reply, refused RPC, reply lost after apply, server stop/start) x concurrent create/update/delete/get/list mixes on overlapping names; holders <= 1 at every step, a failed acquisition leaves the lock free (liveness probe once faults stop), successful mutations carry distinct gap-free versions, 409/400/404 change nothing, final listing = fold in version order, history linearizable (porcupine; inconclusive is never a violation).",
         "DESIGN.md §6 C18", "simetcd is a single linearizable store (raft, multi-node etcd and lease expiry while holding are out of scope); three genuine findings about requests applied after the caller gave up are listed as known in known_findings.txt."),
 "C19": ("deterministic simulation: real syncer + real etcd clientv3 (watcher resume, retry) over gRPC on the simulated network against simetcd, a simulated single-copy MVCC etcd server, with write histories, watch-stream breaks, compaction cancels, server stop/start, RPC errors/latency and slow consumers; post-hoc oracle over simetcd's complete revision log",
         "Seeded search over put/delete histories under and outside the watched key/prefix x the four Sync adapters x fault sequences (stream break, fatal stream end, compaction while down, server restart, Range errors and latency, reply lost after apply, slow watch delivery) x consumer lag x interleavings; every delivered snapshot must be a state the store really had, in non-decreasing store order, consecutive ones different, and once writes and faults stop the final state must be delivered within a bounded number of quiet periods (bounded liveness).",
         "DESIGN.md §6 C19", "simetcd replaces raft+bbolt by a linearizable in-memory model (differentially tested against the repo's embedded etcd: 40 x 80 random ops, 0 mismatches); the etcd client is a copy of client/v3 v3.5.4 with two patched places (a package-level channel that would stall the bubble; a hook variable for extra dial options so that the unmodified cluster.getClient reaches the simulated server); four Go runtime files are overlaid for reproducible replays (harness/simetcd/README.md)."),
 "C20": ("deterministic simulation: snapshot sequences fed through a mocked cluster syncer into the real Supervisor/ObjectRegistry/TrafficController/RawConfigTrafficController with panicking lifecycle callbacks, per-name lifecycle automaton as oracle",
         "Seeded search over snapshot histories (appear/change/unchanged/disappear/reappear/kind change/coalesced) x injected panics in Init/Inherit/Close x goroutine interleavings; recorded lifecycle calls are compared with the sequence derived from the snapshots.",
         "DESIGN.md §6 C20", "the cluster is clustertest.MockedCluster; object kinds are recording test kinds (one registered under the kind name Pipeline so that the pipeline half of TrafficController runs); a second TrafficController namespace is driven concurrently; unusable documents are a fault kind."),
}

PENDING = {}

NOT_APPLICABLE = {
 "C01": "pure function of (rule set, request) with the route cache off: no schedule, clock, I/O fault or history to simulate; deciding it needs input generation against a reference router, which is property-based testing, not deterministic simulation (DESIGN.md §7)",
 "C02": "the visited filter sequence is a pure function of (flow, result assignment) and validation is a pure predicate on the spec: nothing for a scheduler, clock or fault injector to decide (DESIGN.md §7)",
 "C13": "quantifies over the configuration grammar only (accepted spec => instantiates and serves without panic); no interleaving, clock or fault in it, so simulation adds nothing over spec fuzzing (DESIGN.md §7)",
}

ALL = ["C%02d" % i for i in range(1, 21)]

def main():
    checks = []
    for pid in ALL:
        if pid in CLAIMED:
            tech, text, ref, extra = CLAIMED[pid]
            checks.append({
                "property_id": pid,
                "quick_cmd": f"{V}/bin/vcheck run {pid} --tier quick",
                "thorough_cmd": f"{V}/bin/vcheck run {pid} --tier thorough",
                "evidence_file": f"{V}/evidence/{pid}.json",
                "replay_cmd_template": f"{V}/bin/vcheck replay {{path}}",
                "engine": "simkit",
                "level_claimed": {"category": "exploration", "text": text, "design_ref": ref},
                "level_note": (NOTE_COMMON + " " + extra).strip(),
                "technique": tech,
            })
    na = []
    for pid in ALL:
        if pid in NOT_APPLICABLE:
            na.append({"property_id": pid, "reason": NOT_APPLICABLE[pid]})
        elif pid not in CLAIMED:
            na.append({"property_id": pid, "reason": "not claimed yet: the simulation harness for this property is designed (DESIGN.md §6) but not built/validated at this commit; no verdict is given"})
    m = {
        "version": 1,
        "setup_cmd": f"cd {V} && sh tools/setup.sh",
        "hooks": {
            "guard": "verif",
            "enable": "no source hooks are committed in /repo: checks build /repo's working tree with go1.26.8 `go test -c -overlay <instrumented copies + in-package harness files> -modfile <copy of go.mod + verif/simkit>`; the tag `verif` is reserved for overlay-added files",
            "baseline_off_cmd": BASE_OFF,
            "source_commits": [],
            "add_only": True,
        },
        "engines": [{
            "name": "simkit",
            "path": f"{V}/simkit",
            "serves_properties": sorted(CLAIMED),
            "kind_free_text": "deterministic simulation with fault injection: one testing/synctest bubble per run (virtual clock), seeded scheduler gating every lock/atomic/sync.Map/net delivery of the instrumented real code, recorded decision tape, delta-debugging minimiser, exact replay",
        }],
        "checks": checks,
        "not_applicable": na,
        "notes": "vcheck exit codes: 0 held (KNOWN-FINDING lines possible), 1 VIOLATION, 2 build/infrastructure trouble. VERIF_SEED selects the seed block; VERIF_BUDGET_S overrides the wall budget of the run phase.",
    }
    json.dump(m, open(os.path.join(V, "MANIFEST.json"), "w"), indent=1)
    print("claimed:", sorted(CLAIMED), "n/a:", [x["property_id"] for x in na])

main()
