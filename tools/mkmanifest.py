#!/usr/bin/env python3
"""Regenerates /verif/MANIFEST.json from the table below (kept valid at all times)."""
import json, os

V = "/verif"
BASE_OFF = "for m in $(cat /w/out/gomods.txt); do MF=$(cd /repo/$m && . /w/out/goenv.sh && gomodflag); (cd /repo/$m && go test $MF -json -vet=off -count=1 -timeout 25m ./...); done"

NOTE_COMMON = ("Trusted base: Go 1.26.8 runtime and testing/synctest (virtual clock, quiescence), the simkit scheduler and shims "
               "(sync/atomic/rand replaced by semantically equal gated versions in instrumented copies of the files under test), "
               "the harness's reference model/oracle. Sampling, not enumeration: a clean batch is evidence, not proof.")

# id -> (technique, level text, design ref, note extra)
CLAIMED = {
 "C08": ("deterministic simulation: real CircuitBreaker + resilience wrapper under seeded scheduler and virtual clock, lock-step comparison with a reference automaton",
         "Seeded search over policies x call histories x interleavings x clock advances; every admission and recorded result of the real breaker is compared with an independent reference automaton written from the statement. Exploration is the right level: the space (histories x schedules x clock positions) is unbounded and the breaker is cheap enough for ~10^5 runs per minute.",
         "DESIGN.md §6 C08", ""),
}

PENDING = {}

NOT_APPLICABLE = {
 "C01": "pure function of (rule set, request) with the route cache off: no schedule, clock, I/O fault or history to simulate; deciding it needs input generation against a reference router, which is property-based testing, not deterministic simulation (DESIGN.md §7)",
 "C02": "the visited filter sequence is a pure function of (flow, result assignment) and validation is a pure predicate on the spec: nothing for a scheduler, clock or fault injector to decide (DESIGN.md §7)",
 "C13": "quantifies over the configuration grammar only (accepted spec => instantiates and serves without panic); no interleaving, clock or fault in it, so simulation adds nothing over spec fuzzing (DESIGN.md §7)",
}

ALL = ["C%02d" % i for i in range(1, 21)]

def main():
    checks = []
    for pid in ALL:
        if pid in CLAIMED:
            tech, text, ref, extra = CLAIMED[pid]
            checks.append({
                "property_id": pid,
                "quick_cmd": f"{V}/bin/vcheck run {pid} --tier quick",
                "thorough_cmd": f"{V}/bin/vcheck run {pid} --tier thorough",
                "evidence_file": f"{V}/evidence/{pid}.json",
                "replay_cmd_template": f"{V}/bin/vcheck replay {{path}}",
                "engine": "simkit",
                "level_claimed": {"category": "exploration", "text": text, "design_ref": ref},
                "level_note": (NOTE_COMMON + " " + extra).strip(),
                "technique": tech,
            })
    na = []
    for pid in ALL:
        if pid in NOT_APPLICABLE:
            na.append({"property_id": pid, "reason": NOT_APPLICABLE[pid]})
        elif pid not in CLAIMED:
            na.append({"property_id": pid, "reason": "not claimed yet: the simulation harness for this property is designed (DESIGN.md §6) but not built/validated at this commit; no verdict is given"})
    m = {
        "version": 1,
        "setup_cmd": f"cd {V} && sh tools/setup.sh",
        "hooks": {
            "guard": "verif",
            "enable": "no source hooks are committed in /repo: checks build /repo's working tree with go1.26.8 `go test -c -overlay <instrumented copies + in-package harness files> -modfile <copy of go.mod + verif/simkit>`; the tag `verif` is reserved for overlay-added files",
            "baseline_off_cmd": BASE_OFF,
            "source_commits": [],
            "add_only": True,
        },
        "engines": [{
            "name": "simkit",
            "path": f"{V}/simkit",
            "serves_properties": sorted(CLAIMED),
            "kind_free_text": "deterministic simulation with fault injection: one testing/synctest bubble per run (virtual clock), seeded scheduler gating every lock/atomic/sync.Map/net delivery of the instrumented real code, recorded decision tape, delta-debugging minimiser, exact replay",
        }],
        "checks": checks,
        "not_applicable": na,
        "notes": "vcheck exit codes: 0 held (KNOWN-FINDING lines possible), 1 VIOLATION, 2 build/infrastructure trouble. VERIF_SEED selects the seed block; VERIF_BUDGET_S overrides the wall budget of the run phase.",
    }
    json.dump(m, open(os.path.join(V, "MANIFEST.json"), "w"), indent=1)
    print("claimed:", sorted(CLAIMED), "n/a:", [x["property_id"] for x in na])

main()
