#!/bin/sh
# Re-runs the quick tier of every claimed check against /repo itself and rewrites /verif/evidence/<id>.json.
cd /verif || exit 2
for id in $(python3 -c "import json; print(' '.join(c['property_id'] for c in json.load(open('MANIFEST.json'))['checks']))"); do
  bin/vcheck run $id --tier quick 2>&1 | grep "^VIOLATION\|^C[0-9P]* quick\|INFRA\|KNOWN" | cut -c1-170
done
python3-vt tools/validate.py | grep -v " valid$"
