#!/usr/bin/env python3
"""Re-runs the property check(s) against an already stored seeded change and updates its meta.json.
usage: tools/recheck_seeded.py <name under /verif/seeded> <ID> [more IDs]   (uses scratch worktree /tmp/wt-mine)"""
import json, os, re, subprocess, sys, time
name, ids = sys.argv[1], sys.argv[2:]
wt = os.environ.get("WT", "/tmp/wt-mine")
d = os.path.join("/verif/seeded", name)
meta = json.load(open(os.path.join(d, "meta.json")))
def sh(cmd, cwd=wt, e=None, timeout=3600):
    p = subprocess.run(cmd, shell=True, cwd=cwd, env=e or os.environ, capture_output=True, text=True, timeout=timeout)
    return p.returncode, p.stdout + p.stderr
if not os.path.isdir(wt):
    sh(f"git -C /repo worktree add --detach {wt} HEAD", cwd="/")
head = sh("git rev-parse HEAD", cwd="/repo")[1].strip()
sh(f"git checkout -q -- . && git clean -fdq && git checkout -q --detach {head}")
rc, out = sh(f"git apply {d}/patch.diff")
if rc != 0:
    print("patch does not apply:", out[:300]); sys.exit(3)
for cid in ids:
    t0 = time.time()
    e2 = dict(os.environ, VERIF_REPO=wt, VERIF_BUDGET_S=os.environ.get("BUDGET", "40"))
    rc, out = sh(f"/verif/bin/vcheck run {cid} --tier quick", cwd="/verif", e=e2)
    classes = re.findall(r"class=(\S+) seed=(\d+) count=(\d+) replay_reproduced=(\S+)", out)
    summ = [l for l in out.splitlines() if re.match(r"^C\d+ (quick|thorough):", l)]
    for rp in re.findall(r"VIOLATION property=\S+ replay=(\S+)", out):
        try: os.remove(rp)
        except OSError: pass
    meta.setdefault("checks", {})[cid] = {"exit": rc, "caught": rc == 1, "classes": [c[0] for c in classes], "replay_reproduced": [c[3] for c in classes],
                          "summary": summ[-1] if summ else out[-300:], "wall_s": round(time.time() - t0, 1), "rechecked_at_verif_commit": sh("git rev-parse --short HEAD", cwd="/verif")[1].strip()}
    print(name, cid, "caught" if rc == 1 else f"MISSED (exit {rc})", [c[0] for c in classes][:4], (summ[-1] if summ else "")[:140])
sh("git checkout -q -- . && git clean -fdq")
json.dump(meta, open(os.path.join(d, "meta.json"), "w"), indent=1)

# scratch build dirs of this worktree (vcheck keeps one per tree and check)
import glob as _glob, shutil as _shutil
for _d in _glob.glob("/verif/build/*-" + wt.strip("/").replace("/", "_")):
    _shutil.rmtree(_d, ignore_errors=True)
