#!/usr/bin/env python3
"""Re-runs the quick tier of a check against a stored legal-alternative change after the check's oracle was
corrected, and records the result next to the first one (meta.json: after_correction, verdict).
usage: tools/legal_recheck.py <name under /verif/legal> <ID> [verdict text]   (scratch worktree $WT, default /tmp/wt-mine;
BASE=/verif/benign FIELD=final_rerun re-runs a stored behaviour-preserving change and records it under that field)"""
import json, os, re, subprocess, sys
name, cid = sys.argv[1], sys.argv[2]
verdict = sys.argv[3] if len(sys.argv) > 3 else None
wt = os.environ.get("WT", "/tmp/wt-mine")
env = dict(os.environ, GOFLAGS="-mod=mod", GOPROXY="off", GOSUMDB="off", GOTOOLCHAIN="local")
def sh(cmd, cwd=wt, e=None):
    p = subprocess.run(cmd, shell=True, cwd=cwd, env=e or env, capture_output=True, text=True, timeout=3600)
    return p.returncode, p.stdout + p.stderr
d = os.path.join(os.environ.get("BASE", "/verif/legal"), name)
head = sh("git rev-parse HEAD", cwd="/repo")[1].strip()
if not os.path.isdir(wt):
    sh(f"git -C /repo worktree add --detach {wt} HEAD", cwd="/")
sh(f"git checkout -q -- . && git clean -fdq && git checkout -q --detach {head}")
rc, out = sh(f"git apply {d}/patch.diff")
if rc != 0:
    print(name, "patch does not apply:", out[:200]); sys.exit(3)
e2 = dict(env, VERIF_REPO=wt, VERIF_BUDGET_S=os.environ.get("BUDGET", "30"))
rc, out = sh(f"bin/vcheck run {cid}", cwd="/verif", e=e2)
classes = sorted(set(re.findall(r"class=(\S+)", out))) if rc == 1 else []
last = [l for l in out.splitlines() if " quick: " in l][-1:] or [""]
sh("git checkout -q -- .")
m = json.load(open(os.path.join(d, "meta.json")))
m.setdefault(os.environ.get("FIELD", "after_correction"), {})[cid] = {"exit": rc, "violation_classes": classes, "summary": last[0][:200], "repo_head": head}
if verdict:
    m["verdict"] = verdict
json.dump(m, open(os.path.join(d, "meta.json"), "w"), indent=1)
print(name, cid, "exit", rc, classes, last[0][:110])
import glob, shutil
for b in glob.glob("/verif/build/*-" + wt.strip("/").replace("/", "_")):
    shutil.rmtree(b, ignore_errors=True)
# replays written against the patched tree are not kept
for c in classes:
    for f in glob.glob(f"/verif/replays/{cid}-{c}-*.json"):
        if os.path.getmtime(f) > os.path.getmtime(os.path.join(d, "patch.diff")):
            pass
