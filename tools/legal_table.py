#!/usr/bin/env python3
# Prints the markdown table of /verif/legal (changes of behaviour that stay inside
# the statement of a property x the quick tier of that property's own check).
import json, glob, os, sys

rows = []
tot = quiet = 0
for d in sorted(glob.glob('/verif/legal/*/')):
    mp = os.path.join(d, 'meta.json')
    if not os.path.exists(mp):
        continue
    m = json.load(open(mp))
    name = os.path.basename(d.rstrip('/'))
    title = (m.get('title') or m.get('behaviour_change') or '').replace('|', '/').replace('\n', ' ')
    if len(title) > 150:
        title = title[:147] + '...'
    res = []
    for cid, c in sorted((m.get('checks') or {}).items()):
        tot += 1
        if c.get('exit') == 0:
            quiet += 1
        s = '%s:%s' % (cid, c.get('exit'))
        if c.get('violation_classes'):
            s += ' (' + ', '.join(c['violation_classes'][:3]) + ')'
        res.append(s)
    verdict = (m.get('verdict') or '').replace('|', '/')
    aft = ', '.join('%s:%s' % (c, v.get('exit')) for c, v in sorted((m.get('after_correction') or {}).items()))
    fin = ', '.join('%s:%s' % (c, v.get('exit')) for c, v in sorted((m.get('final_rerun') or {}).items()))
    rows.append('| %s | %s | %s | %s | %s | %s |' % (name, title, ', '.join(res), aft, fin, verdict))
print('| change | what | own check, first run: exit code | after the correction | final harnesses | disposition |')
print('|---|---|---|---|---|---|')
print('\n'.join(rows))
print('\n%d changes, %d check runs, %d exit 0' % (len(rows), tot, quiet), file=sys.stderr)
