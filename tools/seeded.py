#!/usr/bin/env python3
"""Verify a seeded change delivered by a mutation sub-agent and run the property's check against it.

usage: tools/seeded.py <ID> <worktree> <OUT/m<i> dir> <name>
Steps (all in the scratch worktree, never in /repo):
  clean -> apply patch -> go build touched pkgs -> existing tests of touched pkgs pass
  -> copy demo -> demo FAILS -> revert patch -> demo PASSES -> remove demo
  -> apply patch -> vcheck run <ID> (quick) with VERIF_REPO=<worktree> -> revert
Stores /verif/seeded/<name>/{patch.diff, demo file, meta.json (agent's meta + what was run here)}.
"""
import json, os, re, shutil, subprocess, sys, time

pid, wt, mdir, name = sys.argv[1:5]
extra_ids = sys.argv[5:]  # further property checks to run against the change
env = dict(os.environ, GOFLAGS="-mod=mod", GOPROXY="off", GOSUMDB="off")

def sh(cmd, cwd=wt, timeout=1200, e=None):
    p = subprocess.run(cmd, shell=True, cwd=cwd, env=e or env, capture_output=True, text=True, timeout=timeout)
    return p.returncode, (p.stdout + p.stderr)

def clean():
    sh("git checkout -q -- . && git clean -fdq -e OUT")

meta = json.load(open(os.path.join(mdir, "meta.json")))
patch = os.path.join(mdir, "patch.diff")
res = {"verified_here": {}, "checks": {}}
clean()
head = sh("git rev-parse HEAD")[1].strip()
repo_head = sh("git rev-parse HEAD", cwd="/repo")[1].strip()
res["verified_here"]["worktree_head"] = head
if head != repo_head:
    # bring the worktree to /repo's HEAD so that the check runs on the current tree + the change
    rc, out = sh(f"git checkout -q --detach {repo_head}")
    res["verified_here"]["moved_to_repo_head"] = repo_head
rc, out = sh(f"git apply --check {patch}")
if rc != 0:
    rc3, out3 = sh(f"git apply --3way {patch}")
    if rc3 != 0:
        print("PATCH DOES NOT APPLY to current HEAD:", out[:400]); sys.exit(3)
    sh("git reset -q")
else:
    sh(f"git apply {patch}")
files = [l[6:].strip() for l in open(patch) if l.startswith("+++ b/")]
pkgs = sorted({"./" + os.path.dirname(f) for f in files if f.endswith(".go")})
STUB = "go1.26.8 test -modfile=/tmp/stubmod/go.mod -vet=off -count=1 -ldflags=-checklinkname=0 "
def stubmod():
    os.makedirs("/tmp/stubmod", exist_ok=True)
    gm = open("/repo/go.mod").read() + "\nreplace github.com/lucas-clemente/quic-go => /verif/stubs/quic-go\nreplace github.com/megaease/grace => /verif/stubs/grace\n"
    open("/tmp/stubmod/go.mod", "w").write(gm); shutil.copy("/repo/go.sum", "/tmp/stubmod/go.sum")
rc, out = sh("go build " + " ".join(pkgs))
quic = rc != 0 and "quic-go" in out
if quic:
    # pre-existing: quic-go v0.27.2 does not compile here; use the compile stub (as the checks do)
    stubmod()
    e3 = dict(env, GOTOOLCHAIN="local")
    rc, out = sh("go1.26.8 build -modfile=/tmp/stubmod/go.mod " + " ".join(pkgs), e=e3)
res["verified_here"]["build"] = "ok" if rc == 0 else out[-600:]
if quic:
    rc, out = sh(STUB + " ".join(pkgs), timeout=1800, e=dict(env, GOTOOLCHAIN="local"))
    res["verified_here"]["existing_tests_cmd"] = STUB + " ".join(pkgs) + "  (quic-go replaced by the compile stub)"
else:
    cmd = "go test -vet=off -count=1 " + " ".join(pkgs)
    if any("mqttproxy" in p for p in pkgs):
        # these tests bind the fixed port 1883: give them a private network namespace
        cmd = "unshare -n sh -c 'ip link set lo up; " + cmd + "'"
    rc, out = sh(cmd, timeout=1800)
res["verified_here"]["existing_tests_with_change"] = "pass" if rc == 0 else "FAIL: " + out[-800:]
demo_files = [f for f in os.listdir(mdir) if f.endswith(".go")]
copy_to = meta.get("demo_copy_to", "")
demo_cmd = meta.get("demo_cmd", "").replace("<repo root>", wt).replace("<repo-root>", wt).replace("$REPO", wt)
demo_cmd = re.sub(r"\s{2,}\([^()]*\)\s*$", "", demo_cmd)  # trailing prose remark in parentheses
copied = []
def copy_demo():
    for f in demo_files:
        dst = copy_to if copy_to.endswith(".go") and len(demo_files) == 1 else os.path.join(copy_to if not copy_to.endswith(".go") else os.path.dirname(copy_to), f)
        dst = os.path.join(wt, dst)
        os.makedirs(os.path.dirname(dst), exist_ok=True)
        shutil.copy(os.path.join(mdir, f), dst); copied.append(dst)
self_contained = "cp " in demo_cmd and "OUT/" in demo_cmd
if not self_contained:
    copy_demo()
def failed(rc, out):
    return rc != 0 or "--- FAIL" in out or re.search(r"^FAIL\b", out, re.M) is not None
rc, out = sh(demo_cmd, timeout=1800)
demo_fail_with = failed(rc, out)
res["verified_here"]["demo_with_change"] = "fails (as required)" if demo_fail_with else "PASSES (demo does not show the break)"
sh(f"git apply -R {patch}")
rc2, out2 = sh(demo_cmd, timeout=1800)
demo_fail_without = failed(rc2, out2)
res["verified_here"]["demo_without_change"] = "passes (as required)" if not demo_fail_without else "FAILS: " + out2[-600:]
rc, rc2 = (1 if demo_fail_with else 0), (1 if demo_fail_without else 0)
for f in copied:
    os.remove(f)
clean()
ok = res["verified_here"]["build"] == "ok" and res["verified_here"]["existing_tests_with_change"] == "pass" and rc != 0 and rc2 == 0
res["verified_here"]["kept"] = ok
# run the checks
sh(f"git apply {patch}")
for cid in [pid] + extra_ids:
    t0 = time.time()
    e2 = dict(env, VERIF_REPO=wt, VERIF_BUDGET_S=os.environ.get("BUDGET", "40"))
    rc, out = sh(f"/verif/bin/vcheck run {cid} --tier quick", cwd="/verif", e=e2, timeout=3600)
    viol = re.findall(r"VIOLATION property=(\S+) replay=(\S+)", out)
    classes = re.findall(r"class=(\S+) seed=(\d+) count=(\d+) replay_reproduced=(\S+)", out)
    summ = [l for l in out.splitlines() if re.match(r"^C\d+ (quick|thorough):", l)]
    res["checks"][cid] = {"exit": rc, "caught": rc == 1, "classes": [c[0] for c in classes], "replay_reproduced": [c[3] for c in classes],
                          "summary": summ[-1] if summ else out[-300:], "wall_s": round(time.time() - t0, 1)}
    for _, rp in viol:
        try: os.remove(rp)
        except OSError: pass
clean()
dst = os.path.join("/verif/seeded", name)
os.makedirs(dst, exist_ok=True)
shutil.copy(patch, os.path.join(dst, "patch.diff"))
for f in os.listdir(mdir):
    if f not in ("meta.json", "patch.diff") and os.path.isfile(os.path.join(mdir, f)):
        shutil.copy(os.path.join(mdir, f), os.path.join(dst, f))
meta.update(res)
meta["ran"] = f"tools/seeded.py {pid} {wt} {mdir} {name} (apply, build, existing tests, demo fail/pass, then `VERIF_REPO={wt} bin/vcheck run {pid}` with the change applied)"
json.dump(meta, open(os.path.join(dst, "meta.json"), "w"), indent=1)
print(name, "kept" if ok else "NOT KEPT", json.dumps(res["verified_here"])[:500])
for cid, r in res["checks"].items():
    print("  check", cid, "caught" if r["caught"] else f"MISSED (exit {r['exit']})", r["classes"], r["summary"][:160])

# scratch build dirs of this worktree (vcheck keeps one per tree and check)
import glob as _glob, shutil as _shutil
for _d in _glob.glob("/verif/build/*-" + wt.strip("/").replace("/", "_")):
    _shutil.rmtree(_d, ignore_errors=True)
