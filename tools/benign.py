#!/usr/bin/env python3
"""Runs the quick tier of the given checks against a behaviour-preserving change (a refactoring delivered by a
sub-agent) and stores it under /verif/benign/<name>/. Expected: every check exits 0 (2 = inconclusive, e.g. the
harness no longer builds); exit 1 is a false alarm of the check or a change that is not behaviour-preserving.
usage: tools/benign.py <name> <dir with patch.diff+meta.json> <ID...>   (scratch worktree $WT, default /tmp/wt-mine)"""
import json, os, re, shutil, subprocess, sys
name, src, ids = sys.argv[1], sys.argv[2], sys.argv[3:]
wt = os.environ.get("WT", "/tmp/wt-mine")
env = dict(os.environ, GOFLAGS="-mod=mod", GOPROXY="off", GOSUMDB="off", GOTOOLCHAIN="local")
def sh(cmd, cwd=wt, e=None, timeout=3600):
    p = subprocess.run(cmd, shell=True, cwd=cwd, env=e or env, capture_output=True, text=True, timeout=timeout)
    return p.returncode, p.stdout + p.stderr
if not os.path.isdir(wt):
    sh(f"git -C /repo worktree add --detach {wt} HEAD", cwd="/")
head = sh("git rev-parse HEAD", cwd="/repo")[1].strip()
sh(f"git checkout -q -- . && git clean -fdq && git checkout -q --detach {head}")
patch = os.path.join(src, "patch.diff")
rc, out = sh(f"git apply {patch}")
if rc != 0:
    print(name, "patch does not apply:", out[:200]); sys.exit(3)
meta = json.load(open(os.path.join(src, "meta.json")))
res = {}
for cid in ids:
    e2 = dict(env, VERIF_REPO=wt, VERIF_BUDGET_S=os.environ.get("BUDGET", "25"))
    rc, out = sh(f"bin/vcheck run {cid}", cwd="/verif", e=e2)
    classes = sorted(set(re.findall(r"class=(\S+)", out)))
    known = len(re.findall(r"^KNOWN-FINDING", out, re.M))
    last = [l for l in out.splitlines() if " quick: " in l][-1:] or [""]
    res[cid] = {"exit": rc, "violation_classes": classes if rc == 1 else [], "summary": last[0][:200]}
    print(name, cid, "exit", rc, (classes if rc == 1 else ""), last[0][:110])
sh("git checkout -q -- .")
d = os.path.join(os.environ.get("OUT_DIR", "/verif/benign"), name); os.makedirs(d, exist_ok=True)
shutil.copy(patch, os.path.join(d, "patch.diff"))
meta["checks"] = res; meta["repo_head"] = head
json.dump(meta, open(os.path.join(d, "meta.json"), "w"), indent=1)
import glob
for b in glob.glob("/verif/build/*-" + wt.strip("/").replace("/", "_")):
    shutil.rmtree(b, ignore_errors=True)
