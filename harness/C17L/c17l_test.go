//go:debug asynctimerchan=0
//go:build go1.21

package limitlistener

// C17L - sub-harness of C17 (connection caps hold at every instant): the real
// LimitListener / limitListenerConn / sem.Semaphore driven directly, without
// net/http, so that limitlistener.go itself can be instrumented (under
// net/http its Close methods run while the server holds its own real mutex,
// and a gate there would hang the bubble; see harness/C17).
//
// What this adds to C17's http-ll scenarios: SEVERAL goroutines close one and
// the same accepted connection at the same time (net/http does that: the
// serving goroutine's deferred close against closeIdleConns / Shutdown / a
// hijacker), with gates inside the wrapped connection's Close, i.e. between
// whatever the LimitListener's connection does before and after it; sequential
// double closes, late second closes, cap changes and temporary Accept errors
// are mixed in.
//
// The wrapped listener and its connections are harness objects: Accept hands
// out the connections the client tasks have "dialled" (queued), Close of a
// connection passes 1-3 gates and then marks it closed. The LimitListener only
// ever calls Accept / Close on them.
//
// Oracle (from the statement; same rules and class names as harness/C17):
// open = handed out by the wrapped Accept and not yet closed. With the cap in
// force (no change pending) an accept that makes open > cap is
// C17.http-cap-exceeded; between a SetMaxConnection call and the first
// quiescent instant after its return at which open (+1 for a slot reserved by
// the waiting Accept) <= new cap only open <= max(caps configured since the
// last applied one) is asserted (C17.http-resize-overshoot; for this decision
// only, a connection whose Close is still under way counts as open: its slot
// may not be back yet); every dialled
// connection is eventually accepted (C17.http-capacity-not-reused); after
// everything is closed the last cap comes into force
// (C17.http-resize-not-applied) and of cap+1 fresh connections that are kept
// open exactly cap are accepted (C17.http-capacity-not-reused /
// C17.http-cap-exceeded); then the LimitListener is closed in that state (at
// its cap, Accept waiting for a slot, one client in the backlog, the wrapped
// listener's Close passing gates): no further connection may be handed out.
//
// Leniency: none beyond the "applied" definition above. Not generated: Close of
// the LimitListener in the middle of a run, concurrent SetMaxConnection callers.

import (
	"fmt"
	"net"
	"strings"
	"testing"
	"time"

	"verif/simkit/hdrv"
	"verif/simkit/sim"
)

type c17lConn struct {
	GapUs  int64  `json:"gap_us"`
	HoldUs int64  `json:"hold_us"`
	Close  string `json:"close"`   // once | twice | later | conc2 | conc3
	SkewUs int64  `json:"skew_us"` // later: delay of the second close; conc*: start skew of the extra closers
}

type c17lClient struct {
	Conns []c17lConn `json:"conns"`
}

type c17lResize struct {
	GapUs int64 `json:"gap_us"`
	Cap   int   `json:"cap"`
}

type c17lScenario struct {
	Cap         int          `json:"cap"`
	CloseYields int          `json:"close_yields"` // gates inside the wrapped connection's Close
	AcceptErrs  []int        `json:"accept_errs"`
	Clients     []c17lClient `json:"clients"`
	Admin       []c17lResize `json:"admin"`
}

func c17lGen(rng *sim.Rand, tier string) interface{} {
	sc := &c17lScenario{}
	sc.Cap = rng.Pick(1, 1, 2, 2, 3, 4)
	sc.CloseYields = rng.Pick(1, 1, 2, 3)
	if rng.Bool(0.25) {
		for k, n := 0, rng.Range(1, 3); k < n; k++ {
			sc.AcceptErrs = append(sc.AcceptErrs, rng.Range(1, 10))
		}
	}
	dur := func() int64 { return int64(rng.Pick(0, 0, 1, 10, 1000, 100000)) }
	concP := float64(rng.Pick(0, 30, 60, 90)) / 100
	for c, nc := 0, rng.Range(2, 8); c < nc; c++ {
		var cl c17lClient
		for k, n := 0, rng.Pick(1, 1, 2, 3); k < n; k++ {
			op := c17lConn{GapUs: dur(), HoldUs: dur(), Close: "once"}
			switch x := rng.Float64(); {
			case x < concP*0.8:
				op.Close = "conc2"
				op.SkewUs = int64(rng.Pick(0, 0, 0, 1))
			case x < concP:
				op.Close = "conc3"
				op.SkewUs = int64(rng.Pick(0, 0, 1))
			case x < concP+0.15:
				op.Close = "twice"
			case x < concP+0.25:
				op.Close = "later"
				op.SkewUs = dur()
			}
			cl.Conns = append(cl.Conns, op)
		}
		sc.Clients = append(sc.Clients, cl)
	}
	for i, na := 0, rng.Pick(0, 0, 0, 1, 2, 3); i < na; i++ {
		var cp int
		switch rng.Intn(4) {
		case 0:
			cp = rng.Range(1, 2)
		case 1:
			cp = sc.Cap + rng.Range(1, 2)
		case 2:
			cp = sc.Cap
		default:
			cp = rng.Range(1, 5)
		}
		sc.Admin = append(sc.Admin, c17lResize{GapUs: int64(rng.Pick(0, 0, 1, 100, 5000, 100000)), Cap: cp})
	}
	return sc
}

func c17lUs(v int64) time.Duration {
	if v < 0 {
		v = 0
	}
	if v > 10_000_000 {
		v = 10_000_000
	}
	return time.Duration(v) * time.Microsecond
}

// ---- the wrapped listener and its connections ---------------------------------

type c17lH struct {
	r *sim.Run

	pending  []*c17lFake // dialled, not yet handed out
	wake     chan struct{}
	lclosed  bool
	yields   int
	teardown bool

	nOpen         int
	closing       int // closed below the LimitListener, but no Close call on the LimitListener's connection has returned since
	acceptPending int
	accepted      int
	closedN       int
	dialled       int

	caps    []int
	lastCap int
	settled bool
	busy    bool

	acceptErrs  map[int]bool
	acceptCalls int

	hist []string
	sig  strings.Builder

	sawSaturated, sawHeldBack, sawShrinkBelow, sawUnsettledAccept, sawSettle bool
	sawOverlap, sawTwice                                                     bool
}

func (h *c17lH) note(format string, a ...interface{}) {
	s := fmt.Sprintf(format, a...)
	h.r.Eventf("%s", s)
	if len(h.hist) < 300 {
		h.hist = append(h.hist, fmt.Sprintf("%v:%s", h.r.Now(), s))
	}
	if h.sig.Len() < 500 {
		if i := strings.IndexByte(s, ' '); i > 0 {
			h.sig.WriteString(s[:i])
		} else {
			h.sig.WriteString(s)
		}
		h.sig.WriteByte(',')
	}
}

func (h *c17lH) history() string { return strings.Join(h.hist, " | ") }

func (h *c17lH) bound() int {
	if h.settled {
		return h.lastCap
	}
	m := 0
	for _, c := range h.caps {
		if c > m {
			m = c
		}
	}
	return m
}

func (h *c17lH) quiescent() string {
	if h.teardown {
		return ""
	}
	// a connection whose Close is still under way may not have given its slot
	// back yet: the change cannot be said to be applied before that
	if !h.settled && !h.busy && h.nOpen+h.closing+h.acceptPending <= h.lastCap {
		h.settled = true
		h.caps = []int{h.lastCap}
		h.sawSettle = true
		h.note("applied cap=%d open=%d", h.lastCap, h.nOpen)
	}
	if len(h.pending) > 0 && h.nOpen >= h.bound() {
		h.sawHeldBack = true
	}
	return ""
}

type c17lTempErr struct{}

func (c17lTempErr) Error() string   { return "accept: too many open files (injected)" }
func (c17lTempErr) Timeout() bool   { return false }
func (c17lTempErr) Temporary() bool { return true }

type c17lAddr struct{}

func (c17lAddr) Network() string { return "sim" }
func (c17lAddr) String() string  { return "c17l" }

type c17lInner struct{ h *c17lH }

func (l *c17lInner) Addr() net.Addr { return c17lAddr{} }

func (l *c17lInner) Close() error {
	h := l.h
	// closing a listener takes a moment (gates), like a close(2) would
	for i := 0; i < h.yields && i < 4 && !h.teardown; i++ {
		h.r.Yield("c17l.listener-close")
	}
	h.lclosed = true
	if h.wake != nil {
		close(h.wake)
		h.wake = nil
	}
	return nil
}

func (l *c17lInner) Accept() (net.Conn, error) {
	h := l.h
	h.acceptCalls++
	if h.acceptErrs[h.acceptCalls] && !h.teardown {
		h.r.Fault("ll.accept_temporary_error")
		h.note("accepterr #%d", h.acceptCalls)
		return nil, c17lTempErr{}
	}
	h.acceptPending++
	defer func() { h.acceptPending-- }()
	for {
		if h.lclosed {
			return nil, net.ErrClosed
		}
		if len(h.pending) > 0 {
			c := h.pending[0]
			h.pending = h.pending[1:]
			h.onAccept(c)
			return c, nil
		}
		if h.wake == nil {
			h.wake = make(chan struct{})
		}
		<-h.wake
	}
}

func (h *c17lH) dial(c *c17lFake) {
	h.dialled++
	h.pending = append(h.pending, c)
	h.note("dial c%d", c.id)
	if h.wake != nil {
		close(h.wake)
		h.wake = nil
	}
}

func (h *c17lH) onAccept(c *c17lFake) {
	h.nOpen++
	h.accepted++
	b := h.bound()
	h.note("accept c%d open=%d bound=%d settled=%v", c.id, h.nOpen, b, h.settled)
	if h.nOpen == b {
		h.sawSaturated = true
	}
	if !h.settled {
		h.sawUnsettledAccept = true
	}
	if h.teardown {
		return
	}
	if h.nOpen > b {
		if h.settled {
			h.r.Violate("C17.http-cap-exceeded", "connection c%d accepted while %d connections were open and maxConnections=%d is in force\nhistory: %s", c.id, h.nOpen-1, h.lastCap, h.history())
		} else {
			h.r.Violate("C17.http-resize-overshoot", "connection c%d accepted as number %d while maxConnections was being changed; every cap configured since the last applied one is smaller: %v\nhistory: %s", c.id, h.nOpen, h.caps, h.history())
		}
	}
}

// c17lFake is a connection of the wrapped listener. Only Close is ever called.
type c17lFake struct {
	net.Conn
	h       *c17lH
	id      int
	closed  bool
	inClose int
	calls   int
	settled bool // a Close call of the LimitListener's connection has returned after the wrapped close
}

func (c *c17lFake) Close() error {
	h := c.h
	c.calls++
	c.inClose++
	if c.inClose > 1 {
		h.sawOverlap = true
	}
	for i := 0; i < h.yields && i < 4 && !h.teardown; i++ {
		h.r.Yield("c17l.conn-close")
	}
	c.inClose--
	if c.closed {
		return net.ErrClosed
	}
	c.closed = true
	h.nOpen--
	h.closing++
	h.closedN++
	h.note("close c%d open=%d", c.id, h.nOpen)
	return nil
}

func c17lSettle(r *sim.Run, d time.Duration, cond func() bool) bool {
	for i := 0; i < 60; i++ {
		if cond() {
			return true
		}
		if r.Aborted() || r.Violated() {
			return false
		}
		r.Sleep(d)
	}
	return cond()
}

func c17lExec(r *sim.Run, sci interface{}) {
	sc := sci.(*c17lScenario)
	if sc.Cap < 1 || sc.Cap > 64 || len(sc.Clients) == 0 {
		return
	}
	h := &c17lH{r: r, yields: sc.CloseYields, caps: []int{sc.Cap}, lastCap: sc.Cap, settled: true, acceptErrs: map[int]bool{}}
	if h.yields < 1 {
		h.yields = 1
	}
	for _, k := range sc.AcceptErrs {
		h.acceptErrs[k] = true
	}
	ll := NewLimitListener(&c17lInner{h: h}, uint32(sc.Cap))
	r.SetInvariant(h.quiescent)

	// what the server does with an accepted connection: keep it for the scripted
	// time, then close it the scripted way
	scripts := map[int]c17lConn{}
	nextID := 0
	serve := func(conn net.Conn) {
		lc, _ := conn.(*limitListenerConn)
		var id int
		if lc != nil {
			if f, ok := lc.Conn.(*c17lFake); ok {
				id = f.id
			}
		}
		var fk *c17lFake
		if lc != nil {
			fk, _ = lc.Conn.(*c17lFake)
		}
		closeIt := func() {
			conn.Close()
			if fk != nil && fk.closed && !fk.settled {
				fk.settled = true
				h.closing--
			}
		}
		op := scripts[id]
		r.Sleep(c17lUs(op.HoldUs))
		closer := func(k int, skew time.Duration) {
			r.Go(fmt.Sprintf("closer%03d.%d", id, k), func() {
				if skew > 0 {
					r.Sleep(skew)
				}
				closeIt()
			})
		}
		switch op.Close {
		case "twice":
			closeIt()
			closeIt()
			h.sawTwice = true
		case "later":
			closeIt()
			r.Sleep(c17lUs(op.SkewUs))
			closeIt()
			h.sawTwice = true
		case "conc2":
			closer(1, c17lUs(op.SkewUs))
			closeIt()
		case "conc3":
			closer(1, 0)
			closer(2, c17lUs(op.SkewUs))
			closeIt()
		default:
			closeIt()
		}
	}
	r.Go("acceptor", func() {
		for {
			conn, err := ll.Accept()
			if err != nil {
				if ne, ok := err.(interface{ Temporary() bool }); ok && ne.Temporary() && !h.lclosed {
					r.Sleep(5 * time.Millisecond)
					continue
				}
				return
			}
			id := -1
			if lc, ok := conn.(*limitListenerConn); ok {
				if f, ok := lc.Conn.(*c17lFake); ok {
					id = f.id
				}
			}
			r.Go(fmt.Sprintf("serve%03d", id), func() { serve(conn) })
		}
	})

	for ci := range sc.Clients {
		conns := sc.Clients[ci].Conns
		r.Go(fmt.Sprintf("client%02d", ci), func() {
			for _, op := range conns {
				if r.Violated() || r.Aborted() {
					return
				}
				r.Sleep(c17lUs(op.GapUs))
				nextID++
				f := &c17lFake{h: h, id: nextID}
				scripts[f.id] = op
				h.dial(f)
			}
		})
	}
	adminDone := len(sc.Admin) == 0
	if len(sc.Admin) > 0 {
		ops := sc.Admin
		r.Go("admin", func() {
			defer func() { adminDone = true }()
			for _, op := range ops {
				if r.Violated() || r.Aborted() {
					return
				}
				r.Sleep(c17lUs(op.GapUs))
				if op.Cap < 1 || op.Cap > 64 {
					continue
				}
				if op.Cap < h.nOpen {
					h.sawShrinkBelow = true
				}
				h.caps = append(h.caps, op.Cap)
				h.lastCap = op.Cap
				h.settled = false
				h.note("setmax %d open=%d", op.Cap, h.nOpen)
				h.busy = true
				ll.SetMaxConnection(uint32(op.Cap))
				h.busy = false
			}
		})
	}
	total := 0
	for _, cl := range sc.Clients {
		total += len(cl.Conns)
	}

	// every dialled connection is accepted and closed in the end
	done := func() bool { return adminDone && h.dialled == total && h.closedN == total }
	if !c17lSettle(r, time.Second, done) && !r.Violated() && !r.Aborted() {
		r.Violate("C17.http-capacity-not-reused", "%d connections were dialled, %d accepted, %d closed: the rest is never accepted although capacity was released (open=%d caps=%v)\nhistory: %s", h.dialled, h.accepted, h.closedN, h.nOpen, h.caps, h.history())
	}
	if !r.Violated() && !r.Aborted() {
		if !c17lSettle(r, time.Second, func() bool { return h.settled && h.nOpen == 0 }) && !r.Violated() && !r.Aborted() {
			r.Violate("C17.http-resize-not-applied", "all connections are closed but maxConnections=%d is still not in force (open=%d, reserved accept=%d)\nhistory: %s", h.lastCap, h.nOpen, h.acceptPending, h.history())
		}
	}
	heldBack := h.sawHeldBack
	if !r.Violated() && !r.Aborted() {
		// cap+1 fresh connections that stay open: exactly cap are accepted
		want := h.lastCap
		base := h.accepted
		for i := 0; i <= want; i++ {
			nextID++
			f := &c17lFake{h: h, id: nextID}
			scripts[f.id] = c17lConn{HoldUs: 10_000_000, Close: "once"}
			h.dial(f)
		}
		ok := c17lSettle(r, time.Millisecond, func() bool { return h.accepted-base >= want })
		if !ok && !r.Violated() && !r.Aborted() {
			r.Violate("C17.http-capacity-not-reused", "after all connections were closed only %d of maxConnections=%d fresh connections are accepted\nhistory: %s", h.accepted-base, want, h.history())
		}
		// give the listener the chance to accept one too many (onAccept reports it)
		for i := 0; i < 3 && !r.Violated() && !r.Aborted(); i++ {
			r.Sleep(time.Millisecond)
		}
	}
	if !r.Violated() && !r.Aborted() {
		// the server shuts down: the listener is at its cap, its Accept waits for
		// a slot and one more client waits in the backlog. Closing the listener
		// must not let that client in (onAccept reports it).
		if h.nOpen >= h.lastCap && len(h.pending) > 0 {
			r.Probe("ll.listener_closed_at_cap_with_backlog")
		}
		h.note("shutdown open=%d backlog=%d", h.nOpen, len(h.pending))
		ll.Close()
		for i := 0; i < 3 && !r.Violated() && !r.Aborted(); i++ {
			r.Sleep(time.Millisecond)
		}
	}
	h.teardown = true
	r.SetInvariant(nil)
	ll.Close()
	// wake the serving tasks' long holds: they end with the bubble; the tasks
	// that matter (acceptor, clients, admin) are done or return now
	if h.sawSaturated {
		r.Probe("ll.open_reached_cap")
	}
	if heldBack {
		r.Probe("ll.client_held_back_at_cap")
		r.Nontrivial()
	}
	if h.sawShrinkBelow {
		r.Probe("ll.shrink_below_usage")
	}
	if h.sawUnsettledAccept {
		r.Probe("ll.accept_while_resize_pending")
	}
	if h.sawSettle {
		r.Probe("ll.resize_applied")
	}
	if h.sawOverlap {
		r.Probe("ll.closers_overlap_inside_conn_close")
	}
	if h.sawTwice {
		r.Probe("ll.sequential_double_close")
	}
	r.SetSig("ll|" + h.sig.String())
	r.WaitTasks()
}

func TestVerifC17L(t *testing.T) {
	hdrv.Main(t, &hdrv.Harness{
		ID:       "C17L",
		Gen:      c17lGen,
		New:      func() interface{} { return &c17lScenario{} },
		Exec:     c17lExec,
		MaxSteps: 30000,
		Rule: "scenario = real LimitListener (cap 1-4) over a harness listener + 2-8 client tasks dialling 1-3 connections each + per connection a hold time and a close pattern (once, twice, second close later, 2 or 3 goroutines closing concurrently with 1-3 gates inside the wrapped Close) + 0-3 SetMaxConnection calls + temporary Accept errors; " +
			"non-trivial = a dialled connection was held back at the cap; distinct = distinct histories of dial/accept/close/resize events",
		Real: []string{"pkg/util/limitlistener (LimitListener.Accept/SetMaxConnection/Close, limitListenerConn.Close; instrumented)", "pkg/util/sem (Semaphore, instrumented)", "golang.org/x/sync/semaphore"},
		Stub: []string{"the wrapped net.Listener and its connections (harness objects: queue of dialled connections, Close with gates)", "the server: an accept loop and one serving task per connection that closes it the scripted way (no net/http)", "sync / sync/atomic of the instrumented files -> simsync/simatomic (same semantics + gates)"},
		Assumptions: []string{
			"a maxConnections change counts as applied from the first quiescent instant after the call at which open connections (+1 for a slot reserved by the waiting Accept) <= new cap; until then only open <= max(caps configured since the last applied one) is asserted",
			"a connection counts as open from the wrapped Accept handing it out until its (first effective) Close has completed",
			"cap changes are issued by one admin task; LimitListener.Close only at the end of a run",
		},
	})
}
