//go:debug asynctimerchan=0
//go:build go1.21

package proxy

// C04 — load balancers pick only live pool members, fairly or stickily, never
// failing.
//
// The real ServerPool (NewServerPool, createLoadBalancer, useService, handle,
// doHandle, handleMirror) and the five real balancers run under 1-6 simulated
// selector tasks and 0-2 updater tasks (which call sp.useService with drawn
// instance maps, as the registry watcher goroutine would). The only stub is the
// transport (package variable fnSendRequest): it records which server URL each
// request was sent to and answers 200. sync/atomic and math/rand of the
// package are the gated/taped simkit versions, so the scheduler interleaves
// tasks at the atomic.Value load/store of the balancer and at the round-robin
// counter increment.
//
// Reference model (written from the property statement and
// doc/reference/filters.md, not from the code): the harness versions the
// pool's list. Generation 0 is the static list; every useService call creates
// a generation whose list is "the instances that carry at least one of the
// pool's serverTags, or the static list if there is none". A generation is a
// candidate for a request if it may have been the current one at some instant
// between the request's start and end (call intervals are stamped by the
// harness; overlapping calls are resolved conservatively). Rules:
//
//   C04.foreign-server               forwarded to a URL that is in no candidate list
//   C04.zero-weight-picked           weightedRandom chose a weight-0 member of every
//                                    candidate list that contains it although that list
//                                    has a positive weight
//   C04.no-server-but-list-nonempty  request failed (no transport call / non-200 /
//                                    non-empty result) although no candidate list is empty
//                                    (the stub transport never fails)
//   C04.rr-unfair                    roundRobin: at an instant with no selection in flight
//                                    some generation's per-server counts cannot be within
//                                    one of each other
//   C04.hash-not-sticky              ipHash/headerHash: two requests with equal key,
//                                    both attributable to the same generation only, went
//                                    to different servers
//   C04.panic-zero-total-weight-static / -discovery
//                                    a selection panicked while a candidate list under
//                                    weightedRandom was non-empty with all weights zero
//                                    (accepted by Validate / reported by discovery)
//   C04.panic                        any other panic escaping sp.handle
//   C04.other                        transport called more than once, unknown request...
//
// Leniency decisions (statement silent or two readings):
//   * a request overlapping a list replacement may be served from either list;
//     such a request is counted towards the fairness of a generation only as
//     "may belong to it", and is not used for stickiness;
//   * the same URL may appear in several generations with different weights:
//     a choice is accepted if at least one candidate generation explains it;
//   * "equal key" for ipHash = equal (remote IP, X-Real-Ip, X-Forwarded-For)
//     triple, ports differ freely; for headerHash = equal value of the
//     configured header (absent and empty are different keys: no claim);
//   * no spread requirement for hash policies or random, no distribution check
//     for weightedRandom (only "never weight 0 when some weight > 0");
//   * policy "" (loadBalance omitted) gets the generic rules only;
//   * static servers always carry a matching tag (doc says serverTags select
//     servers, the statement says "the static list"); serverTags is never
//     empty when discovery is used; URLs are unique within one list; negative
//     weights are not generated;
//   * a spec rejected by ServerPoolSpec.Validate is not run (the property is
//     about accepted pools); Validate's own verdict is not judged.
//
// Extensions (second round):
//   * optional Retry policy on the pool (resilience.NewPolicy +
//     InjectResiliencePolicy); the transport stub fails the first op.Fails calls
//     of a request. Every transport call is one selection and is judged against
//     the generations current during THAT attempt: the first attempt begins with
//     the request, a retry attempt begins after the previous transport call
//     returned and not before half the configured waitDuration has passed since
//     (doc: waitDuration is the wait between attempts). A request that was never
//     forwarded under a retry policy is judged against the lists current during
//     its last attempt (not before (maxAttempts-1) half-waits after its start).
//     Final outcomes after a scripted transport failure are C10's business and
//     only checked for consistency (last transport call ok <=> success).
//   * watcher mode: the pool is created with serviceRegistry set, so the real
//     watchServers start-up and goroutine run against the real
//     serviceregistry.ServiceRegistry with a fake registry driver (c04Registry).
//     Updater tasks send notifications, singly or in back-to-back bursts; each
//     ListServiceInstances call made for a notification is one discovery report
//     (= one generation, applied in report order by the pool's goroutine). When
//     a report took effect is only known at harness-proven quiescence (virtual
//     time passed without any scheduler stall => every goroutine was blocked
//     with empty queues): until then all reports of a burst stay candidates.
//   * after the tasks, at quiescence, two more requests are issued: only the
//     generation LAST reported/installed is a candidate for them.
//
// Determinism note: useService ranges over the instances map, so the order of
// a discovered list (and with it *which* member a given counter value / hash /
// random draw maps to) is not reproducible. No recorded event and no rule
// depends on that order on a correct implementation.

import (
	"fmt"
	"net/http"
	"runtime"
	"sort"
	"strings"
	"sync"
	"testing"
	"time"

	egctx "github.com/megaease/easegress/pkg/context"
	"github.com/megaease/easegress/pkg/logger"
	"github.com/megaease/easegress/pkg/object/serviceregistry"
	"github.com/megaease/easegress/pkg/protocols/httpprot"
	"github.com/megaease/easegress/pkg/resilience"
	"github.com/megaease/easegress/pkg/supervisor"
	"github.com/megaease/easegress/pkg/tracing"
	"verif/simkit/hdrv"
	"verif/simkit/sim"
)

// ---- scenario ---------------------------------------------------------------

type c04Srv struct {
	Host   string `json:"host"` // URL = "http://" + Host
	Weight int    `json:"weight"`
}

type c04Inst struct {
	ID     string   `json:"id"`
	Addr   string   `json:"addr"`
	Port   int      `json:"port"`
	Scheme string   `json:"scheme"`
	Weight int      `json:"weight"`
	Tags   []string `json:"tags"`
}

type c04Update struct {
	GapUs int64     `json:"gap_us"`
	Burst bool      `json:"burst"` // watcher mode: sent right behind the previous event of this task (no gate, no gap)
	Insts []c04Inst `json:"insts"`
}

type c04Retry struct {
	MaxAttempts int  `json:"max_attempts"`
	WaitMs      int  `json:"wait_ms"`
	Exponential bool `json:"exponential"`
}

type c04Updater struct {
	Updates []c04Update `json:"updates"`
}

type c04Op struct {
	GapUs  int64  `json:"gap_us"`
	IP     string `json:"ip"`
	Port   int    `json:"port"`
	Mode   string `json:"mode"` // remote | xreal | xff
	HasHdr bool   `json:"has_hdr"`
	Hdr    string `json:"hdr"`
	Mirror bool   `json:"mirror"`
	HoldUs int64  `json:"hold_us"` // inside the transport stub: -1 no gate, 0 gate, >0 sleep
	Fails  int    `json:"fails"`   // the first Fails transport calls of this request answer with an error
}

type c04Selector struct {
	Ops []c04Op `json:"ops"`
}

type c04Scenario struct {
	Policy      string        `json:"policy"`
	HashKey     string        `json:"hash_key"`
	ServerTags  []string      `json:"server_tags"`
	Static      []c04Srv      `json:"static"`
	ServiceName string        `json:"service_name"`
	Selectors   []c04Selector `json:"selectors"`
	Updaters    []c04Updater  `json:"updaters"`
	Retry       *c04Retry     `json:"retry,omitempty"`
	Watcher     bool          `json:"watcher"`    // discovery through the real ServiceRegistry + the pool's own watchServers goroutine
	InitInsts   []c04Inst     `json:"init_insts"` // watcher mode: what the registry holds when the pool is created
}

func c04Gen(rng *sim.Rand, tier string) interface{} {
	sc := &c04Scenario{}
	switch x := rng.Intn(100); {
	case x < 32:
		sc.Policy = LoadBalancePolicyRoundRobin
	case x < 42:
		sc.Policy = LoadBalancePolicyRandom
	case x < 64:
		sc.Policy = LoadBalancePolicyWeightedRandom
	case x < 80:
		sc.Policy = LoadBalancePolicyIPHash
	case x < 95:
		sc.Policy = LoadBalancePolicyHeaderHash
	default:
		sc.Policy = ""
	}
	weighted := sc.Policy == LoadBalancePolicyWeightedRandom
	sc.HashKey = rng.PickStr("X-User", "x-session", "Cookie-Id")
	allTags := []string{"blue", "green", "v2", "canary"}
	tp := rng.Perm(len(allTags))
	nt := rng.Range(1, 2)
	var otherTags []string
	for i, p := range tp {
		if i < nt {
			sc.ServerTags = append(sc.ServerTags, allTags[p])
		} else {
			otherTags = append(otherTags, allTags[p])
		}
	}

	// static list
	nStatic := rng.Pick(0, 1, 1, 2, 2, 3, 3, 4, 5, 8)
	zeroAll := rng.Bool(0.5)
	if weighted {
		zeroAll = rng.Bool(0.06)
	}
	equalW := rng.Pick(0, 0, 1, 10, 100)
	hostNames := rng.Bool(0.2)
	for i := 0; i < nStatic; i++ {
		s := c04Srv{Host: fmt.Sprintf("10.1.0.%d:8080", i+1)}
		if hostNames {
			s.Host = fmt.Sprintf("backend-%d.example.com", i+1)
		}
		switch {
		case zeroAll:
			s.Weight = 0
		case equalW > 0:
			s.Weight = equalW
		default:
			s.Weight = rng.Range(1, 100)
		}
		sc.Static = append(sc.Static, s)
	}
	if nStatic >= 2 && rng.Bool(0.02) {
		// not all servers have a weight: Validate is expected to reject
		sc.Static[0].Weight = 0
		sc.Static[1].Weight = 7
	}

	// optional retry policy
	retry := rng.Bool(0.25)
	if retry {
		sc.Retry = &c04Retry{MaxAttempts: rng.Pick(2, 2, 3, 4), WaitMs: rng.Pick(1, 1, 5, 20), Exponential: rng.Bool(0.3)}
	}

	// discovery
	discovery := nStatic == 0 || rng.Bool(0.65) || (retry && rng.Bool(0.6))
	if discovery {
		sc.ServiceName = "svc"
		overlap := rng.Bool(0.35)
		nUpd := rng.Range(1, 4)
		nTasks := 1
		if rng.Bool(0.15) {
			nTasks = 2
		}
		sc.Watcher = rng.Bool(0.35)
		if sc.Watcher {
			nUpd = rng.Range(1, 6)
		}
		sc.Updaters = make([]c04Updater, nTasks)
		type addr struct {
			a string
			p int
		}
		var universe []addr
		for i := 1; i <= 6; i++ {
			universe = append(universe, addr{fmt.Sprintf("10.3.0.%d", i), 9000})
		}
		if !hostNames {
			for i := 0; i < nStatic && i < 3; i++ {
				universe = append(universe, addr{fmt.Sprintf("10.1.0.%d", i+1), 8080})
			}
		}
		nInit := 0
		if sc.Watcher && rng.Bool(0.5) {
			nInit = 1
		}
		for uid := -nInit; uid < nUpd; uid++ {
			u := c04Update{GapUs: int64(rng.Pick(0, 0, 1, 10, 100, 1000, 5000))}
			if retry {
				u.GapUs = int64(rng.Pick(0, 50, 200, 600, 1500, 4000, 12000))
			}
			ni := rng.Pick(0, 1, 1, 2, 3, 3, 5, 8)
			pMatch := rng.Pick(0, 50, 80, 100, 100)
			wmode := "any"
			if weighted {
				switch x := rng.Intn(100); {
				case x < 5:
					wmode = "zero"
				case x < 50:
					wmode = "mixed"
				default:
					wmode = "positive"
				}
			}
			up := rng.Perm(len(universe))
			firstMatch := -1
			anyPositive := false
			for j := 0; j < ni; j++ {
				in := c04Inst{ID: fmt.Sprintf("i%d", j), Scheme: rng.PickStr("", "", "http", "https")}
				if overlap && j < len(universe) {
					in.Addr, in.Port = universe[up[j]].a, universe[up[j]].p
					if in.Port == 8080 {
						in.Scheme = rng.PickStr("", "http") // may coincide with a static server's URL
					}
				} else {
					in.Addr, in.Port = fmt.Sprintf("10.2.%d.%d", uid+2, j+1), 9000+j
				}
				match := rng.Intn(100) < pMatch
				if match {
					in.Tags = []string{sc.ServerTags[rng.Intn(len(sc.ServerTags))]}
					if rng.Bool(0.3) {
						in.Tags = append([]string{otherTags[rng.Intn(len(otherTags))]}, in.Tags...)
					}
					if rng.Bool(0.2) {
						in.Tags = append(in.Tags, "extra")
					}
				} else if rng.Bool(0.6) {
					in.Tags = []string{otherTags[rng.Intn(len(otherTags))]}
				}
				switch wmode {
				case "zero":
					in.Weight = 0
				case "positive":
					in.Weight = rng.Range(1, 100)
				case "mixed":
					if !rng.Bool(0.45) {
						in.Weight = rng.Pick(1, 1, 5, 50, 100)
					}
				default:
					in.Weight = rng.Pick(0, 0, 1, 10, rng.Range(0, 100))
				}
				if match {
					if firstMatch < 0 {
						firstMatch = j
					}
					if in.Weight > 0 {
						anyPositive = true
					}
				}
				u.Insts = append(u.Insts, in)
			}
			if wmode == "mixed" && firstMatch >= 0 && !anyPositive {
				// keep the all-zero discovery case to wmode "zero"; put the positive
				// weight on the last tagged instance so that zero-weight ones precede it
				for j := len(u.Insts) - 1; j >= 0; j-- {
					if c04Tagged(sc.ServerTags, u.Insts[j].Tags) {
						u.Insts[j].Weight = rng.Pick(1, 3, 100)
						break
					}
				}
			}
			if uid < 0 {
				sc.InitInsts = u.Insts
				continue
			}
			t := rng.Intn(nTasks)
			if sc.Watcher && len(sc.Updaters[t].Updates) > 0 && rng.Bool(0.55) {
				u.Burst, u.GapUs = true, 0
			}
			sc.Updaters[t].Updates = append(sc.Updaters[t].Updates, u)
		}
	}

	// selectors
	ns := rng.Range(1, 6)
	total := rng.Pick(4, 10, 20, 40, 60, 100, 160, 200)
	if retry {
		total = rng.Pick(4, 10, 20, 40)
	}
	per := total / ns
	if per < 1 {
		per = 1
	}
	nIP := rng.Range(2, 6)
	nHdr := rng.Range(2, 5)
	mode := rng.PickStr("remote", "remote", "xreal", "xff")
	dense := rng.Bool(0.4)
	mirrorPct := rng.Pick(0, 0, 0, 10, 30)
	holdy := rng.Bool(0.5)
	for s := 0; s < ns; s++ {
		var sel c04Selector
		for i := 0; i < per; i++ {
			op := c04Op{Mode: mode, Port: rng.Range(1024, 65000), HoldUs: -1}
			if rng.Bool(0.1) {
				op.Mode = rng.PickStr("remote", "xreal", "xff")
			}
			op.IP = fmt.Sprintf("203.0.113.%d", 1+rng.Intn(nIP))
			if !dense {
				op.GapUs = int64(rng.Pick(0, 0, 0, 1, 10, 100, 1000))
			}
			if rng.Intn(10) < 8 {
				op.HasHdr = true
				op.Hdr = fmt.Sprintf("user-%d", rng.Intn(nHdr))
				if rng.Bool(0.05) {
					op.Hdr = ""
				}
			}
			op.Mirror = rng.Intn(100) < mirrorPct
			if holdy {
				op.HoldUs = int64(rng.Pick(-1, 0, 0, 1, 100))
			}
			if !op.Mirror {
				if retry && rng.Bool(0.5) {
					op.Fails = rng.Pick(1, 1, 1, 2, sc.Retry.MaxAttempts)
					op.HoldUs = int64(rng.Pick(0, 100, 500, 2000))
					if op.GapUs == 0 {
						op.GapUs = int64(rng.Pick(0, 100, 1000, 3000))
					}
				} else if !retry && rng.Bool(0.03) {
					op.Fails = 1
				}
			}
			sel.Ops = append(sel.Ops, op)
		}
		sc.Selectors = append(sc.Selectors, sel)
	}
	return sc
}

// ---- reference model ----------------------------------------------------------

// c04Tagged: an instance belongs to the pool if it carries at least one of the
// pool's serverTags (doc: "only servers have tags in this array are included").
func c04Tagged(poolTags, instTags []string) bool {
	for _, p := range poolTags {
		for _, t := range instTags {
			if p == t {
				return true
			}
		}
	}
	return false
}

func c04InstURL(in c04Inst) string {
	scheme := in.Scheme
	if scheme == "" {
		scheme = "http"
	}
	return fmt.Sprintf("%s://%s:%d", scheme, in.Addr, in.Port)
}

type c04Generation struct {
	id         int
	start, end int           // harness stamps: reported / known to be in force (installed)
	endT       time.Duration // virtual time of end
	installed  bool
	fifo       int // watcher mode: index of the discovery report (applied in this order by one goroutine); -1 otherwise
	src        string
	weight     map[string]int // url -> weight
	n, total   int
	sure       map[string]int // selections that can only belong to this generation
	maybe      map[string]int // selections that may belong to it
	sticky     map[string]string
	k          int
}

func (g *c04Generation) describe() string {
	urls := make([]string, 0, len(g.weight))
	for u := range g.weight {
		urls = append(urls, u)
	}
	sort.Strings(urls)
	var b strings.Builder
	end := fmt.Sprint(g.end)
	if !g.installed {
		end = "?"
	}
	fmt.Fprintf(&b, "gen%d(%s,[%d..%s]){", g.id, g.src, g.start, end)
	for _, u := range urls {
		fmt.Fprintf(&b, " %s w=%d sure=%d maybe=%d;", u, g.weight[u], g.sure[u], g.maybe[u])
	}
	b.WriteString(" }")
	return b.String()
}

type c04Model struct {
	sc     *c04Scenario
	static map[string]int
	gens   []*c04Generation
}

func (m *c04Model) newGen(src string, list map[string]int, start int) *c04Generation {
	g := &c04Generation{id: len(m.gens), start: start, src: src, weight: list, n: len(list), fifo: -1,
		sure: map[string]int{}, maybe: map[string]int{}, sticky: map[string]string{}}
	for _, w := range list {
		g.total += w
	}
	m.gens = append(m.gens, g)
	return g
}

// listFor is the reference for useService: tagged instances, else static list.
func (m *c04Model) listFor(insts []c04Inst) (map[string]int, string) {
	list := map[string]int{}
	for _, in := range insts {
		if c04Tagged(m.sc.ServerTags, in.Tags) {
			list[c04InstURL(in)] = in.Weight
		}
	}
	if len(list) == 0 {
		return m.static, "fallback"
	}
	return list, "discovery"
}

// later tells whether generation j certainly took effect after generation i.
func c04Later(j, i *c04Generation) bool {
	if j.id == i.id {
		return false
	}
	if i.fifo >= 0 && j.fifo >= 0 {
		return j.fifo > i.fifo
	}
	if !i.installed {
		return false
	}
	return j.start > i.end
}

// candidates returns the generations that may have been current at some
// instant of an attempt that began not before stamp s / virtual time sT and was
// over at stamp e.
func (m *c04Model) candidates(s int, sT time.Duration, e int) []*c04Generation {
	var out []*c04Generation
	for _, g := range m.gens {
		if g.start >= e {
			continue
		}
		superseded := false
		for _, j := range m.gens {
			if j.installed && c04Later(j, g) && (j.end < s || j.endT < sT) {
				superseded = true
				break
			}
		}
		if !superseded {
			out = append(out, g)
		}
	}
	return out
}

func c04Desc(gs []*c04Generation) string {
	var b strings.Builder
	for _, g := range gs {
		b.WriteString("\n  " + g.describe())
	}
	return b.String()
}

// ---- executor -------------------------------------------------------------------

type c04Sel struct {
	name      string
	s         int
	sT        time.Duration
	prevEnd   int           // stamp at which the previous transport call of this request returned
	prevEndT  time.Duration // its virtual time
	fwd       []string
	lastOK    bool
	selecting bool
	key       string
	hold      int64
	fails     int
	mirror    bool
}

func c04ValidPolicy(p string) bool {
	switch p {
	case "", LoadBalancePolicyRoundRobin, LoadBalancePolicyRandom, LoadBalancePolicyWeightedRandom, LoadBalancePolicyIPHash, LoadBalancePolicyHeaderHash:
		return true
	}
	return false
}

// c04Registry is the harness's fake external registry driver behind the real
// serviceregistry.ServiceRegistry. Every notification the harness sends stands
// for one state of the registry; the state becomes visible to the k-th
// ListServiceInstances call made on behalf of a notification (that call IS the
// discovery report the property speaks of).
type c04Registry struct {
	notify  chan *serviceregistry.RegistryEvent
	cur     []c04Inst
	pending [][]c04Inst
	service string
	onList  func(insts []c04Inst)
}

func (f *c04Registry) Name() string                                  { return "c04reg" }
func (f *c04Registry) Notify() <-chan *serviceregistry.RegistryEvent { return f.notify }
func (f *c04Registry) ApplyServiceInstances(map[string]*serviceregistry.ServiceInstanceSpec) error {
	return nil
}
func (f *c04Registry) DeleteServiceInstances(map[string]*serviceregistry.ServiceInstanceSpec) error {
	return nil
}
func (f *c04Registry) GetServiceInstance(serviceName, instanceID string) (*serviceregistry.ServiceInstanceSpec, error) {
	return nil, fmt.Errorf("not found")
}
func (f *c04Registry) ListServiceInstances(serviceName string) (map[string]*serviceregistry.ServiceInstanceSpec, error) {
	if len(f.pending) > 0 {
		f.cur = f.pending[0]
		f.pending = f.pending[1:]
	}
	if f.onList != nil {
		f.onList(f.cur)
	}
	return c04InstMap(f.cur, f.service), nil
}
func (f *c04Registry) ListAllServiceInstances() (map[string]*serviceregistry.ServiceInstanceSpec, error) {
	return c04InstMap(f.cur, f.service), nil
}

// c04Usable drops instances a shrunk scenario may have made meaningless.
func c04Usable(in []c04Inst) []c04Inst {
	var used []c04Inst
	seenURL, seenID := map[string]bool{}, map[string]bool{}
	for _, x := range in {
		url := c04InstURL(x)
		if x.ID == "" || x.Addr == "" || x.Weight < 0 || x.Port <= 0 || x.Port > 65535 || seenURL[url] || seenID[x.ID] {
			continue
		}
		switch x.Scheme {
		case "", "http", "https":
		default:
			continue
		}
		seenURL[url], seenID[x.ID] = true, true
		used = append(used, x)
	}
	return used
}

func c04InstMap(used []c04Inst, service string) map[string]*serviceregistry.ServiceInstanceSpec {
	m := map[string]*serviceregistry.ServiceInstanceSpec{}
	for _, in := range used {
		m[in.ID] = &serviceregistry.ServiceInstanceSpec{RegistryName: "c04reg", ServiceName: service, InstanceID: in.ID,
			Address: in.Addr, Port: uint16(in.Port), Scheme: in.Scheme, Weight: in.Weight, Tags: append([]string(nil), in.Tags...)}
	}
	return m
}

var (
	c04RegistrySpec *supervisor.Spec
	c04RetryCache   = map[string]resilience.Policy{}
)

func c04RetryPolicy(rt *c04Retry) (resilience.Policy, error) {
	key := fmt.Sprintf("%d/%d/%v", rt.MaxAttempts, rt.WaitMs, rt.Exponential)
	if p, ok := c04RetryCache[key]; ok {
		return p, nil
	}
	raw := map[string]interface{}{"kind": "Retry", "name": "c04retry", "maxAttempts": rt.MaxAttempts, "waitDuration": fmt.Sprintf("%dms", rt.WaitMs)}
	if rt.Exponential {
		raw["backOffPolicy"] = "exponential"
	}
	p, err := resilience.NewPolicy(raw)
	if err == nil {
		c04RetryCache[key] = p
	}
	return p, err
}

func c04Exec(r *sim.Run, sci interface{}) {
	sc := sci.(*c04Scenario)
	if !c04ValidPolicy(sc.Policy) || len(sc.Selectors) == 0 {
		return
	}
	if sc.Policy == LoadBalancePolicyHeaderHash && sc.HashKey == "" {
		return
	}
	updaters := sc.Updaters
	watcher := sc.Watcher
	if len(sc.ServerTags) == 0 {
		updaters = nil // "no selector tags" has two readings: discovery is not exercised then
		watcher = false
	}
	if watcher && sc.ServiceName == "" {
		return
	}
	policy := sc.Policy
	weighted := policy == LoadBalancePolicyWeightedRandom
	maxAttempts, wait := 1, time.Duration(0)
	if rt := sc.Retry; rt != nil {
		if rt.MaxAttempts < 1 || rt.MaxAttempts > 6 || rt.WaitMs < 1 || rt.WaitMs > 1000 {
			return
		}
		maxAttempts, wait = rt.MaxAttempts, time.Duration(rt.WaitMs)*time.Millisecond
	}

	// --- system under test
	spec := &ServerPoolSpec{ServiceName: sc.ServiceName, ServerTags: append([]string(nil), sc.ServerTags...)}
	if policy != "" {
		spec.LoadBalance = &LoadBalanceSpec{Policy: policy, HeaderHashKey: sc.HashKey}
	}
	model := &c04Model{sc: sc, static: map[string]int{}}
	for _, s := range sc.Static {
		url := "http://" + s.Host
		if _, dup := model.static[url]; dup || s.Host == "" || s.Weight < 0 {
			return
		}
		model.static[url] = s.Weight
		spec.Servers = append(spec.Servers, &Server{URL: url, Weight: s.Weight, Tags: append([]string(nil), sc.ServerTags...)})
	}
	if err := spec.Validate(); err != nil {
		r.Probe("c04.validate_rejected")
		return
	}
	policies := map[string]resilience.Policy{}
	if sc.Retry != nil {
		p, err := c04RetryPolicy(sc.Retry)
		if err != nil {
			r.Violate("C04.other", "retry policy %+v rejected: %v", *sc.Retry, err)
			return
		}
		policies["c04retry"] = p
		spec.RetryPolicy = "c04retry"
	}
	saved := fnSendRequest
	defer func() { fnSendRequest = saved }()

	clk := 0
	stamp := func() int { clk++; return clk }
	var hist []string
	note := func(format string, a ...interface{}) {
		if len(hist) < 600 {
			hist = append(hist, fmt.Sprintf(format, a...))
		}
	}
	history := func() string {
		h := hist
		if len(h) > 80 {
			h = h[len(h)-80:]
		}
		return strings.Join(h, " ")
	}
	inflight := map[string]*c04Sel{}
	selecting := 0
	maxSelecting, maxOpen, open := 0, 0, 0
	var fairChecked, stickyRepeated, zeroWeightMember, noServer, overlapSeen, retryAfterReplacement bool

	fairCheck := func(when string) {
		if policy != LoadBalancePolicyRoundRobin || r.Violated() {
			return
		}
		for _, g := range model.gens {
			if g.n == 0 {
				continue
			}
			maxSure, minAll := 0, int(^uint(0)>>1)
			for u := range g.weight {
				if g.sure[u] > maxSure {
					maxSure = g.sure[u]
				}
				if v := g.sure[u] + g.maybe[u]; v < minAll {
					minAll = v
				}
			}
			if maxSure-1 > minAll {
				r.Violate("C04.rr-unfair", "roundRobin, %s, no selection in flight: some server of generation %d was chosen %d times while another at most %d times\n%s\nhistory: %s",
					when, g.id, maxSure, minAll, g.describe(), history())
				return
			}
			if g.n >= 2 && g.k >= g.n {
				fairChecked = true
			}
		}
	}

	selectionMade := func(st *c04Sel) {
		if st.selecting {
			st.selecting = false
			selecting--
			if selecting == 0 {
				fairCheck("mid-run")
			}
		}
	}

	var forwarded func(st *c04Sel, url string, attempt int)
	fnSendRequest = func(hr *http.Request, _ *http.Client) (*http.Response, error) {
		st := inflight[hr.URL.Path]
		hold := int64(-1)
		fail := false
		if st == nil {
			r.Violate("C04.other", "transport called for unknown request %s", hr.URL.String())
		} else {
			url := hr.URL.Scheme + "://" + hr.URL.Host
			attempt := len(st.fwd)
			st.fwd = append(st.fwd, url)
			hold = st.hold
			fail = attempt < st.fails
			st.lastOK = !fail
			if !r.Violated() {
				forwarded(st, url, attempt)
			}
			selectionMade(st)
		}
		if hold >= 0 && !r.Violated() && !r.Aborted() {
			r.Sleep(time.Duration(hold) * time.Microsecond)
		}
		if st != nil {
			st.prevEnd, st.prevEndT = stamp(), r.Now()
			if fail && !st.mirror && maxAttempts > 1 && !st.selecting {
				// the retry wrapper will select again: from here to the next
				// transport call (or the return) a selection may be in flight
				st.selecting = true
				selecting++
			}
		}
		if fail {
			return nil, fmt.Errorf("c04: scripted transport failure")
		}
		return &http.Response{StatusCode: http.StatusOK, Header: http.Header{}, Body: http.NoBody}, nil
	}

	// --- discovery plumbing (watcher mode): real ServiceRegistry, fake driver
	var sent int // notifications handed to the registry (incl. the watcher's initial event)
	var fake *c04Registry
	var sreg *serviceregistry.ServiceRegistry
	px := &Proxy{spec: &Spec{}}
	booting := true
	reportProbes := func(g *c04Generation, nUsed int) {
		switch {
		case g.src == "fallback" && nUsed > 0:
			r.Probe("c04.fallback_none_tagged")
		case g.src == "fallback":
			r.Probe("c04.fallback_no_instances")
		}
		if g.n == 0 {
			r.Probe("c04.empty_list_installed")
		}
		if g.n == 1 {
			r.Probe("c04.single_server_list")
		}
		if weighted && g.n > 0 && g.total == 0 {
			if g.src == "discovery" {
				r.Probe("c04.weighted_discovery_all_zero")
			} else {
				r.Probe("c04.weighted_static_all_zero")
			}
		}
		if weighted && g.src == "discovery" && g.total > 0 {
			for _, w := range g.weight {
				if w == 0 {
					r.Probe("c04.weighted_discovery_some_zero")
					break
				}
			}
		}
	}
	if watcher {
		if c04RegistrySpec == nil {
			sp0, err := supervisor.NewDefaultMock().NewSpec("name: service-registry\nkind: ServiceRegistry\nsyncInterval: 10s\n")
			if err != nil {
				r.Violate("C04.other", "harness: cannot build the ServiceRegistry spec: %v", err)
				return
			}
			c04RegistrySpec = sp0
		}
		ent, err := supervisor.NewDefaultMock().NewObjectEntityFromSpec(c04RegistrySpec)
		if err != nil {
			r.Violate("C04.other", "harness: cannot build the ServiceRegistry entity: %v", err)
			return
		}
		sreg = ent.Instance().(*serviceregistry.ServiceRegistry)
		sreg.Init(c04RegistrySpec)
		fake = &c04Registry{notify: make(chan *serviceregistry.RegistryEvent, 64), cur: c04Usable(sc.InitInsts), service: sc.ServiceName}
		nReports := 0
		fake.onList = func(insts []c04Inst) {
			list, src := model.listFor(insts)
			g := model.newGen(src, list, stamp())
			if booting && nReports == 0 {
				// the synchronous first listing of watchServers: in force when NewServerPool returns
				g.start, g.installed = 0, true
			} else {
				g.fifo = nReports - 1
			}
			nReports++
			note("report%d:gen%d(%s,n=%d)@%d", g.fifo, g.id, src, g.n, g.start)
			r.Eventf("report %d gen%d %s n=%d total=%d", g.fifo, g.id, src, g.n, g.total)
			reportProbes(g, len(insts))
		}
		if err := sreg.RegisterRegistry(fake); err != nil {
			r.Violate("C04.other", "harness: RegisterRegistry: %v", err)
			return
		}
		var sys sync.Map
		sys.Store(serviceregistry.Kind, ent)
		px.super = supervisor.NewMock(nil, nil, sync.Map{}, sys, nil, nil, false, nil, nil)
		spec.ServiceRegistry = "c04reg"
		sent = 1
	}
	sp := NewServerPool(px, spec, "c04pool")
	booting = false
	if len(policies) > 0 {
		sp.InjectResiliencePolicy(policies)
	}
	cleaned := false
	// cleanup stops the pool's watcher goroutine and the registry's dispatcher.
	// Notifications not yet taken are withdrawn first: DeregisterRegistry clears
	// bucket.registry, which a dispatcher that still finds an event would
	// dereference (outside this property).
	cleanup := func(wait bool) {
		if cleaned || !watcher {
			return
		}
		cleaned = true
		func() {
			defer func() { recover() }()
			for len(fake.notify) > 0 {
				<-fake.notify
			}
			if wait {
				sp.close()
			} else {
				close(sp.done)
			}
			sreg.DeregisterRegistry("c04reg")
		}()
	}
	defer cleanup(false)
	if !watcher {
		g0 := model.newGen("static", model.static, 0)
		g0.installed = true
		if weighted && g0.n > 0 && g0.total == 0 {
			r.Probe("c04.weighted_static_all_zero")
		}
		if g0.n == 1 {
			r.Probe("c04.single_server_list")
		}
	} else if len(model.gens) == 0 {
		r.Violate("C04.other", "watchServers did not list the service instances when the pool was created")
		return
	}

	// settle lets d of virtual time pass. If the scheduler took no stall decision
	// meanwhile, the clock can only have advanced while every goroutine (the
	// registry's dispatcher and the pool's watcher included) was blocked with
	// nothing left to do, so every report belonging to a notification sent before
	// the call is in force when it returns.
	settle := func(d time.Duration) bool {
		sentBefore := sent
		s0 := r.StalledFor()
		r.Sleep(d)
		if d <= 0 || r.StalledFor() != s0 || r.Aborted() {
			return false
		}
		e, now := stamp(), r.Now()
		for _, g := range model.gens {
			if g.fifo >= 0 && g.fifo < sentBefore && !g.installed {
				g.installed, g.end, g.endT = true, e, now
				note("settled:gen%d@%d", g.id, e)
			}
		}
		return true
	}

	// forwarded is evaluated inside the transport stub: the selection of this
	// attempt is complete there (ChooseServer returned), so the attempt's
	// interval is [start of the attempt, now] and the choice is counted before
	// any later selection can be observed. The first attempt starts with the
	// request; a retry attempt starts after the previous transport call returned
	// and (documented: waitDuration between attempts) not before half of the
	// configured wait has passed since.
	forwarded = func(st *c04Sel, url string, attempt int) {
		e := stamp()
		s, sT := st.s, st.sT
		if attempt > 0 {
			s, sT = st.prevEnd, st.prevEndT+wait/2
		}
		cands := model.candidates(s, sT, e)
		if len(cands) > 1 {
			overlapSeen = true
		}
		if attempt > 0 {
			r.Probe("c04.retry_attempt_forwarded")
			for _, g := range model.candidates(st.s, st.sT, st.s+1) {
				gone := true
				for _, c := range cands {
					if c == g {
						gone = false
					}
				}
				if gone {
					retryAfterReplacement = true
				}
			}
		}
		note("%s.a%d=fwd@%d", st.name, attempt, e)
		r.Eventf("%s attempt %d forwarded", st.name, attempt)
		var expl []*c04Generation
		inList := false
		for _, g := range cands {
			w, ok := g.weight[url]
			if !ok {
				continue
			}
			inList = true
			if weighted && w == 0 && g.total > 0 {
				continue
			}
			expl = append(expl, g)
		}
		if len(expl) == 0 {
			if !inList {
				r.Violate("C04.foreign-server", "request %s attempt %d [%d,%d] was sent to %s, which is in no list that was current during the attempt; candidates:%s\nall generations:%s\nhistory: %s",
					st.name, attempt, s, e, url, c04Desc(cands), c04Desc(model.gens), history())
			} else {
				r.Violate("C04.zero-weight-picked", "weightedRandom sent request %s attempt %d [%d,%d] to %s, which has weight 0 in every current list containing it although that list has positive weights; candidates:%s\nhistory: %s",
					st.name, attempt, s, e, url, c04Desc(cands), history())
			}
			return
		}
		if len(expl) > 1 {
			r.Probe("c04.ambiguous_attribution")
			for _, g := range expl {
				g.maybe[url]++
			}
			return
		}
		g := expl[0]
		g.sure[url]++
		g.k++
		if weighted && g.total > 0 {
			for _, w := range g.weight {
				if w == 0 {
					zeroWeightMember = true
					break
				}
			}
		}
		if st.key != "" {
			if prev, ok := g.sticky[st.key]; ok {
				if prev != url {
					r.Violate("C04.hash-not-sticky", "%s: key %q went to %s and later (request %s) to %s within generation %d whose list did not change\n%s\nhistory: %s",
						policy, st.key, prev, st.name, url, g.id, g.describe(), history())
					return
				}
				if g.n >= 2 {
					stickyRepeated = true
				}
			} else {
				g.sticky[st.key] = url
			}
		}
	}

	// returned is evaluated when sp.handle has returned (or panicked).
	returned := func(st *c04Sel, op c04Op, result string, status int, pnc interface{}, stack string) {
		nT := len(st.fwd)
		success := result == "" && status == http.StatusOK
		switch {
		case pnc != nil:
			e := stamp()
			cands := model.candidates(st.s, st.sT, e)
			note("%s=panic@%d", st.name, e)
			r.Eventf("%s panic", st.name)
			for _, g := range cands {
				if weighted && g.n > 0 && g.total == 0 && nT == 0 {
					origin := "static"
					if g.src == "discovery" {
						origin = "discovery"
					}
					r.Violate("C04.panic-zero-total-weight-"+origin, "weightedRandom selection %s panicked (%v) while a current list (%s) has %d server(s), all with weight 0; candidates:%s\n%s\nhistory: %s",
						st.name, pnc, g.src, g.n, c04Desc(cands), stack, history())
					return
				}
			}
			r.Violate("C04.panic", "request %s panicked: %v; candidate lists:%s\n%s\nhistory: %s", st.name, pnc, c04Desc(cands), stack, history())
		case nT > maxAttempts || (op.Mirror && nT > 1):
			r.Violate("C04.other", "request %s was sent %d times: %v (max attempts %d, mirror=%v)", st.name, nT, st.fwd, maxAttempts, op.Mirror)
		case nT >= 1 && op.Mirror:
		case nT >= 1:
			if st.lastOK != success {
				r.Violate("C04.other", "request %s: the last of %d transport calls %v, but the pool reports result %q status %d", st.name, nT,
					map[bool]string{true: "answered 200", false: "failed"}[st.lastOK], result, status)
			}
			if !success {
				note("%s=failed@%d", st.name, stamp())
				r.Eventf("%s failed after %d transport calls", st.name, nT)
			}
		default:
			// never forwarded: every attempt found no server. With a retry policy
			// the failure reported is the last attempt's, which began not before
			// (maxAttempts-1) waits (at least half the configured one each) after
			// the request.
			e := stamp()
			sT := st.sT + time.Duration(maxAttempts-1)*wait/2
			if op.Mirror {
				sT = st.sT
			}
			cands := model.candidates(st.s, sT, e)
			if len(cands) > 1 {
				overlapSeen = true
			}
			note("%s=nosrv@%d", st.name, e)
			r.Eventf("%s not forwarded (result %q status %d)", st.name, result, status)
			ok := false
			for _, g := range cands {
				if g.n == 0 {
					ok = true
				}
			}
			if !ok {
				r.Violate("C04.no-server-but-list-nonempty", "request %s [%d,%d] was not forwarded (result %q, status %d, mirror=%v, max attempts %d) although no list current during its last attempt was empty; candidates:%s\nhistory: %s",
					st.name, st.s, e, result, status, op.Mirror, maxAttempts, c04Desc(cands), history())
				return
			}
			noServer = true
			if !op.Mirror && (status != http.StatusServiceUnavailable || result == "") {
				r.Violate("C04.other", "request %s found no server but the outcome is result %q status %d (expected a failure result with 503)", st.name, result, status)
			}
		}
	}

	doOp := func(name, path string, op c04Op) {
		stdr, err := http.NewRequest(http.MethodGet, "http://gateway.example.com"+path, nil)
		if err != nil {
			return
		}
		ip := op.IP
		if ip == "" {
			ip = "203.0.113.250"
		}
		remote, xreal, xff := ip, "", ""
		switch op.Mode {
		case "xreal":
			remote, xreal = "10.9.9.9", ip
		case "xff":
			remote, xff = "10.9.9.9", ip
		}
		stdr.RemoteAddr = fmt.Sprintf("%s:%d", remote, op.Port)
		if xreal != "" {
			stdr.Header.Set("X-Real-Ip", xreal)
		}
		if xff != "" {
			stdr.Header.Set("X-Forwarded-For", xff)
		}
		if op.HasHdr {
			stdr.Header.Set(sc.HashKey, op.Hdr)
		}
		req, err := httpprot.NewRequest(stdr)
		if err != nil {
			return
		}
		ctx := egctx.New(tracing.NoopSpan)
		ctx.SetRequest(egctx.DefaultNamespace, req)

		st := &c04Sel{name: name, hold: op.HoldUs, selecting: true, fails: op.Fails, mirror: op.Mirror}
		if st.fails < 0 {
			st.fails = 0
		}
		switch policy {
		case LoadBalancePolicyIPHash:
			st.key = "ip:" + remote + "|" + xreal + "|" + xff
		case LoadBalancePolicyHeaderHash:
			if op.HasHdr {
				st.key = "hdr:" + op.Hdr
			} else {
				st.key = "hdr-absent"
			}
		}
		inflight[path] = st
		selecting++
		open++
		if selecting > maxSelecting {
			maxSelecting = selecting
		}
		if open > maxOpen {
			maxOpen = open
		}
		st.s, st.sT = stamp(), r.Now()
		note("%s+@%d", name, st.s)
		r.Eventf("%s start mirror=%v fails=%d", name, op.Mirror, st.fails)
		if op.Mirror {
			r.Probe("c04.mirror_selection")
		}
		var result string
		var pnc interface{}
		var stack string
		func() {
			defer func() {
				if p := recover(); p != nil {
					pnc = p
					stack = c04Stack()
				}
			}()
			result = sp.handle(ctx, op.Mirror)
		}()
		status := 0
		if pnc == nil && !op.Mirror {
			if resp, ok := ctx.GetOutputResponse().(*httpprot.Response); ok && resp != nil {
				status = resp.StatusCode()
			}
		}
		open--
		delete(inflight, path)
		if r.Violated() {
			return
		}
		returned(st, op, result, status, pnc, stack)
		selectionMade(st)
	}

	if watcher {
		// let the watcher's initial event (same list as the synchronous listing) take effect
		if settle(time.Millisecond) {
			r.Probe("c04.watcher_initial_event_settled")
		}
	}

	// --- tasks
	for si := range sc.Selectors {
		si := si
		ops := sc.Selectors[si].Ops
		r.Go(fmt.Sprintf("sel%d", si), func() {
			for oi, op := range ops {
				if r.Violated() || r.Aborted() {
					return
				}
				r.Sleep(time.Duration(op.GapUs) * time.Microsecond)
				if r.Violated() || r.Aborted() {
					return
				}
				doOp(fmt.Sprintf("s%d.%d", si, oi), fmt.Sprintf("/s%d/%d", si, oi), op)
			}
		})
	}
	updOpen := 0
	for ui := range updaters {
		ui := ui
		ups := updaters[ui].Updates
		r.Go(fmt.Sprintf("upd%d", ui), func() {
			for k, u := range ups {
				if r.Violated() || r.Aborted() {
					return
				}
				if watcher {
					if !u.Burst || k == 0 {
						if settle(time.Duration(u.GapUs) * time.Microsecond) {
							r.Probe("c04.watcher_settled_mid_run")
						}
					} else {
						r.Probe("c04.watcher_burst_event")
					}
					if r.Violated() || r.Aborted() {
						return
					}
					used := c04Usable(u.Insts)
					fake.pending = append(fake.pending, used)
					sent++
					note("u%d.%d:notify#%d@%d", ui, k, sent-1, stamp())
					r.Eventf("u%d.%d notify #%d burst=%v", ui, k, sent-1, u.Burst)
					if open > 0 {
						r.Probe("c04.update_while_request_in_flight")
					}
					select {
					case fake.notify <- &serviceregistry.RegistryEvent{SourceRegistryName: "c04reg", UseReplace: true, Replace: c04InstMap(used, sc.ServiceName)}:
					default:
						r.Violate("C04.other", "harness: notification channel full")
					}
					continue
				}
				r.Sleep(time.Duration(u.GapUs) * time.Microsecond)
				if r.Violated() || r.Aborted() {
					return
				}
				used := c04Usable(u.Insts)
				insts := c04InstMap(used, sc.ServiceName)
				list, src := model.listFor(used)
				g := model.newGen(src, list, stamp())
				note("u%d.%d+gen%d(%s,n=%d)@%d", ui, k, g.id, src, g.n, g.start)
				r.Eventf("u%d.%d start gen%d %s n=%d total=%d", ui, k, g.id, src, g.n, g.total)
				if updOpen > 0 {
					r.Probe("c04.concurrent_updates")
				}
				if open > 0 {
					r.Probe("c04.update_while_request_in_flight")
				}
				reportProbes(g, len(used))
				updOpen++
				var pnc interface{}
				func() {
					defer func() {
						if p := recover(); p != nil {
							pnc = p
						}
					}()
					sp.useService(insts)
				}()
				updOpen--
				g.installed, g.end, g.endT = true, stamp(), r.Now()
				note("u%d.%d-@%d", ui, k, g.end)
				r.Eventf("u%d.%d end", ui, k)
				if pnc != nil {
					r.Violate("C04.panic", "useService panicked: %v\nhistory: %s", pnc, history())
					return
				}
			}
		})
	}
	r.WaitTasks()
	if r.Violated() || r.Aborted() {
		return
	}
	if selecting != 0 {
		r.Violate("C04.other", "harness accounting: %d selections still marked in flight at the end", selecting)
		return
	}
	fairCheck("end of run")

	// --- quiescence: the list in force is the one last reported
	settled := true
	if watcher {
		settled = false
		for i := 0; i < 30 && !settled && !r.Aborted(); i++ {
			settled = settle(10 * time.Millisecond)
		}
		if settled && (len(fake.pending) != 0 || len(fake.notify) != 0) {
			r.Probe("c04.watcher_notifications_left_unhandled")
			settled = false
		}
	}
	if settled && !r.Aborted() && !r.Violated() {
		r.Probe("c04.final_requests_after_quiescence")
		r.Go("final", func() {
			for i := 0; i < 2; i++ {
				if r.Violated() || r.Aborted() {
					return
				}
				op := c04Op{IP: "203.0.113.77", Port: 4000 + i, Mode: "remote", HoldUs: -1}
				doOp(fmt.Sprintf("f.%d", i), fmt.Sprintf("/final/%d", i), op)
			}
		})
		r.WaitTasks()
		if r.Violated() || r.Aborted() {
			return
		}
		fairCheck("after the final requests")
	}
	if watcher {
		cleanup(true)
		r.Probe("c04.watcher_mode")
	}

	if sc.Retry != nil {
		r.Probe("c04.retry_policy")
	}
	if retryAfterReplacement {
		r.Probe("c04.retry_attempt_after_list_replacement")
	}
	if maxOpen >= 2 {
		r.Probe("c04.concurrent_requests")
	}
	if maxSelecting >= 2 {
		r.Probe("c04.concurrent_selections")
	}
	if overlapSeen {
		r.Probe("c04.request_overlaps_replacement")
	}
	if fairChecked {
		r.Probe("c04.rr_fairness_checked_n>=2_k>=n")
	}
	if stickyRepeated {
		r.Probe("c04.hash_key_repeated_n>=2")
	}
	if zeroWeightMember {
		r.Probe("c04.weighted_selection_with_zero_weight_member")
	}
	if noServer {
		r.Probe("c04.no_server_failure_on_empty_list")
	}
	served := 0
	for _, g := range model.gens {
		if g.k > 0 {
			served++
		}
	}
	if served >= 2 {
		r.Probe("c04.two_generations_served")
	}
	if fairChecked || stickyRepeated || zeroWeightMember || noServer || served >= 2 || retryAfterReplacement {
		r.Nontrivial()
	}
	var sig strings.Builder
	fmt.Fprintf(&sig, "%s|w=%v|r=%d|", policy, watcher, maxAttempts)
	for _, g := range model.gens {
		fmt.Fprintf(&sig, "%s:%d:%d,", g.src, g.n, g.total)
	}
	for _, h := range hist {
		if i := strings.IndexByte(h, '@'); i > 0 {
			sig.WriteString(h[:i])
			sig.WriteByte(' ')
		}
	}
	r.SetSig(sig.String())
}

func c04Stack() string {
	buf := make([]byte, 8<<10)
	n := runtime.Stack(buf, false)
	lines := strings.Split(string(buf[:n]), "\n")
	var out []string
	for _, l := range lines {
		if strings.Contains(l, "easegress/pkg/") || strings.Contains(l, "math/rand") || strings.Contains(l, "simrand") {
			out = append(out, strings.TrimSpace(l))
		}
		if len(out) >= 14 {
			break
		}
	}
	return "stack: " + strings.Join(out, " | ")
}

func TestVerifC04(t *testing.T) {
	logger.InitNop()
	hdrv.Main(t, &hdrv.Harness{
		ID:       "C04",
		Gen:      c04Gen,
		New:      func() interface{} { return &c04Scenario{} },
		Exec:     c04Exec,
		MaxSteps: 30000,
		Rule: "scenario = drawn policy (5 policies + omitted), static list of 0-8 servers (weights all zero / equal / distinct), 0-4 discovery updates (0-8 instances, tagged or not, weights incl. zero, addresses fresh or shared between versions) issued by 1-2 updater tasks, " +
			"and 1-6 selector tasks issuing 4-200 requests (client IP by RemoteAddr/X-Real-Ip/X-Forwarded-For, hash header, mirror flag, hold inside the transport); " +
			"25% of the scenarios put a Retry policy (2-4 attempts, 1-20 ms wait) on the pool and script 1..max failing transport calls per request with list replacements landing between attempts; 35% of the discovery scenarios feed the instance maps through the real ServiceRegistry and the pool's own watchServers goroutine in bursts of back-to-back notifications; two requests are issued after quiescence; " +
			"non-trivial = a policy rule was really exercised (a retry attempt forwarded after a list replacement, roundRobin fairness on a list of >=2 servers with k>=n, a repeated hash key on >=2 servers, a weighted choice with a zero-weight member, a no-server failure on an empty list, or two generations that both served requests); " +
			"distinct = distinct (policy, generation shapes, start/end/outcome event order) signatures",
		Real: []string{"pkg/filters/proxy ServerPool (NewServerPool, createLoadBalancer, useService, handle, doHandle, handleMirror, buildResponse)", "pkg/filters/proxy five LoadBalancer implementations + NewLoadBalancer", "ServerPoolSpec.Validate", "ServerPool.watchServers + its goroutine, InjectResiliencePolicy", "pkg/resilience RetryPolicy (NewPolicy, Wrap)", "pkg/object/serviceregistry ServiceRegistry (RegisterRegistry, watchRegistry, NewServiceWatcher, event dispatch)", "pkg/context, pkg/protocols/httpprot request/response objects"},
		Stub: []string{"transport: fnSendRequest replaced by a recorder that answers 200 with an empty body", "direct mode: updater tasks call sp.useService themselves; watcher mode: a fake registry driver (c04Registry) behind the real ServiceRegistry, supervisor mock holding it", "retry.go time.After -> simtime (timeshim)", "sync/atomic -> simatomic, math/rand -> simrand (same semantics + gates / taped draws)"},
		Assumptions: []string{
			"a request overlapping a list replacement may be served from the old or the new list; overlapping useService calls may take effect in either order",
			"fairness is evaluated per balancer generation at instants with no selection between handle() entry and the transport call, requests that may belong to two generations count as optional for both",
			"equal ipHash key = equal (remote IP, X-Real-Ip, X-Forwarded-For) triple; equal headerHash key = equal value of the configured header; no spread/distribution requirement is asserted",
			"static servers carry a tag matching serverTags; serverTags non-empty whenever discovery is used; URLs unique within a list; weights >= 0; specs rejected by Validate are not run",
			"a retry attempt begins after the previous transport call returned and not before half the configured waitDuration later; on persistent failure the reported failure is the last of maxAttempts attempts",
			"watcher mode: reports take effect in report order; a report is known to be in force only after virtual time passed without scheduler stalls (all goroutines idle); a fake registry shows its k-th state to the k-th listing made for a notification",
			"the order of a discovered list depends on Go map iteration in useService; no event or rule depends on it",
		},
	})
}
