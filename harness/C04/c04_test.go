//go:debug asynctimerchan=0
//go:build go1.21

package proxy

// C04 — load balancers pick only live pool members, fairly or stickily, never
// failing.
//
// The real ServerPool (NewServerPool, createLoadBalancer, useService, handle,
// doHandle, handleMirror) and the five real balancers run under 1-6 simulated
// selector tasks and 0-2 updater tasks (which call sp.useService with drawn
// instance maps, as the registry watcher goroutine would). The only stub is the
// transport (package variable fnSendRequest): it records which server URL each
// request was sent to and answers 200. sync/atomic and math/rand of the
// package are the gated/taped simkit versions, so the scheduler interleaves
// tasks at the atomic.Value load/store of the balancer and at the round-robin
// counter increment.
//
// Reference model (written from the property statement and
// doc/reference/filters.md, not from the code): the harness versions the
// pool's list. Generation 0 is the static list; every useService call creates
// a generation whose list is "the instances that carry at least one of the
// pool's serverTags, or the static list if there is none". A generation is a
// candidate for a request if it may have been the current one at some instant
// between the request's start and end (call intervals are stamped by the
// harness; overlapping calls are resolved conservatively). Rules:
//
//   C04.foreign-server               forwarded to a URL that is in no candidate list
//   C04.zero-weight-picked           weightedRandom chose a weight-0 member of every
//                                    candidate list that contains it although that list
//                                    has a positive weight
//   C04.no-server-but-list-nonempty  request failed (no transport call / non-200 /
//                                    non-empty result) although no candidate list is empty
//                                    (the stub transport never fails)
//   C04.rr-unfair                    roundRobin: at an instant with no selection in flight
//                                    some generation's per-server counts cannot be within
//                                    one of each other
//   C04.hash-not-sticky              ipHash/headerHash: two requests with equal key,
//                                    both attributable to the same generation only, went
//                                    to different servers
//   C04.panic-zero-total-weight-static / -discovery
//                                    a selection panicked while a candidate list under
//                                    weightedRandom was non-empty with all weights zero
//                                    (accepted by Validate / reported by discovery)
//   C04.panic                        any other panic escaping sp.handle, NewServerPool or close
//   C04.panic-concurrent-rand        two selections were inside the same private *rand.Rand
//                                    (math/rand.New) at once: simkit/simrand wraps the source of
//                                    such generators with a busy flag and a gate inside every draw
//   C04.discovery-report-lost        watcher mode: a registry notification was never turned
//                                    into a report although a pool was watching and every
//                                    goroutine has been idle since (see third round below)
//   C04.other                        transport called more than once, unknown request...
//
// Leniency decisions (statement silent or two readings):
//   * a request overlapping a list replacement may be served from either list;
//     such a request is counted towards the fairness of a generation only as
//     "may belong to it", and is not used for stickiness;
//   * the same URL may appear in several generations with different weights:
//     a choice is accepted if at least one candidate generation explains it;
//   * "equal key" for ipHash = equal (remote IP, X-Real-Ip, X-Forwarded-For)
//     triple, ports differ freely; for headerHash = equal value of the
//     configured header (absent and empty are different keys: no claim);
//   * no spread requirement for hash policies or random, no distribution check
//     for weightedRandom (only "never weight 0 when some weight > 0");
//   * policy "" (loadBalance omitted) gets the generic rules only;
//   * static servers always carry a matching tag (doc says serverTags select
//     servers, the statement says "the static list"); serverTags is never
//     empty when discovery is used; URLs are unique within one list; negative
//     weights are not generated;
//   * a spec rejected by ServerPoolSpec.Validate is not run (the property is
//     about accepted pools); Validate's own verdict is not judged.
//
// Extensions (second round):
//   * optional Retry policy on the pool (resilience.NewPolicy +
//     InjectResiliencePolicy); the transport stub fails the first op.Fails calls
//     of a request. Every transport call is one selection and is judged against
//     the generations current during THAT attempt: the first attempt begins with
//     the request, a retry attempt begins after the previous transport call
//     returned and not before half the configured waitDuration has passed since
//     (doc: waitDuration is the wait between attempts). A request that was never
//     forwarded under a retry policy is judged against the lists current during
//     its last attempt (not before (maxAttempts-1) half-waits after its start).
//     Final outcomes after a scripted transport failure are C10's business and
//     only checked for consistency (last transport call ok <=> success).
//   * watcher mode: the pool is created with serviceRegistry set, so the real
//     watchServers start-up and goroutine run against the real
//     serviceregistry.ServiceRegistry with a fake registry driver (c04Registry).
//     Updater tasks send notifications, singly or in back-to-back bursts; each
//     ListServiceInstances call made for a notification is one discovery report
//     (= one generation, applied in report order by the pool's goroutine). When
//     a report took effect is only known at harness-proven quiescence (virtual
//     time passed without any scheduler stall => every goroutine was blocked
//     with empty queues): until then all reports of a burst stay candidates.
//   * after the tasks, at quiescence, two more requests are issued: only the
//     generation LAST reported/installed is a candidate for them.
//
// Extensions (third round, service-discovery flows):
//   * "morph" report sequences: a report keeps the instances (ids, URLs) of the
//     previous one and changes only weights (to 0, from 0, other value) and tags
//     (instances losing / gaining a serverTag of the pool); identical reports too.
//     No new rule is needed: once a report is in force every selection is judged
//     against the list and the weights THAT report defines.
//   * watcher mode has pool objects instead of one pool: 1-2 slots (main pool and
//     a second pool - candidate / other proxy - with the same or other serverTags)
//     watch the same service of the same real ServiceRegistry, and a "life" task
//     hot-reloads slots: it creates the next generation of the slot's pool
//     (NewServerPool -> watchServers: synchronous listing, new service watcher
//     with its initial event), publishes it, then closes the old generation (the
//     order Pipeline.Inherit uses). A request is served by the generation that
//     is published when it starts and is judged against THAT pool object's model
//     (so requests may outlive their generation). Every pool object has its own
//     reference model; a report (one listing made by the registry for one
//     notification) creates a generation in the model of every pool that is
//     watching: from the moment its own watcher was created (at the latest when
//     NewServerPool returned) until close() is called. Reports made while close()
//     runs are optional for that pool (may or may not be applied).
//   * the other lifecycle order (fourth round): a reload with "gap" closes the
//     slot's pool FIRST (pipeline deleted / pool removed from the proxy), leaves
//     the slot without a pool for a while (requests for it are not issued; with
//     one slot the registered registry has no watcher at all), then creates the
//     next generation. The harness first lets the registry catch up with the
//     notifications already sent (otherwise it falls back to create-then-close);
//     while nobody watches, the fake registry's state changes silently (no
//     notification: whether it would become a report is open). The new pool is
//     judged as any other: its first listing is its list, later reports must
//     reach it. A pool that never asks the registered driver at all is expected
//     to serve what the registry holds at that moment (probe
//     c04.pool_created_without_listing, never reached on the unchanged tree).
//   * fifth round, ordinary but unexplored configurations:
//     - pools WITHOUT serverTags on a discovered service (NoTags, 5%). Two
//       readings ("none qualifies" = static list / "no selector" = every
//       instance): the generation's list is the union, fairness / zero-weight
//       rules are not applied to it, a no-server failure is accepted iff the
//       static list is empty. What easegress does is recorded by the probes
//       c04.no_server_tags.* (observation: it never uses a discovered instance).
//     - static server URL shapes: host:port, IPv6 literal with / without port,
//       IPv4 without port, https; discovered instances with IPv6 addresses
//       (URLs are compared modulo brackets, c04Norm) and weights above 100.
//     - client key shapes: IPv6 clients, X-Forwarded-For chains (client, proxies),
//       X-Real-Ip together with X-Forwarded-For; "equal key" stays the equal
//       (remote IP, X-Real-Ip, X-Forwarded-For) triple.
//     - the registry DRIVER's life cycle: registered only after the pools exist
//       (start-up order: a pool created meanwhile is on its static list, nothing
//       has been reported), and deregistered + registered again mid-run (a
//       driver reload; the controller's farewell listing is a report like any
//       other). While no driver is registered the registry changes silently.
//   * who asks the fake driver for a listing is read from the call stack
//     (watchServers = synchronous first listing, NewServiceWatcher = initial
//     event, _handleRegistryEvent = report for a notification); only the last
//     kind advances the fake registry's state.
//   * C04.discovery-report-lost: a notification handed to the registry at an
//     earlier virtual instant has still not been turned into a report although
//     virtual time passed without a scheduler stall (every goroutine idle) and a
//     pool was watching all the time. (The reports are what the statement's
//     "last reported by service discovery" refers to; a registry that stops
//     reporting to a live pool makes the pool serve a stale list for ever.)
//   * notifications are full Replace events or incremental Apply/Delete events
//     (the changed / removed instances relative to the state notified before).
//   * fault registry_list_error.{sync,initial,dispatch}: scripted listings of the
//     driver fail. Reference: a failed synchronous listing is "no report yet" =
//     the static list; a failed initial listing is no event; a failed listing for
//     a notification is no report to anybody (the pools keep the last reported
//     list).
//   * observation only (probe c04.hash_key_moved_after_identical_report): a
//     report that repeats the previous list rebuilds the balancer; the order of a
//     discovered list is the iteration order of the registry's instance map, so
//     ipHash/headerHash may move a key although the list (as a set) did not
//     change. The statement's "while the list is unchanged" can be read per
//     report or per content; both outcomes are accepted.
//
// Determinism notes: useService ranges over the instances map and the registry
// over its watcher map (keyed by random UUIDs); both files are under
// map_ranges, and the harness gives google/uuid a reproducible source
// (uuid.SetRand) for the duration of a run, so that watcher ids - and with them
// the order in which the watchers of a service are served - replay. The pool
// goroutine's two-case select is determinised (check.json selects): with
// reloads done and an event can be ready together.

import (
	"fmt"
	"net"
	"net/http"
	"runtime"
	"sort"
	"strings"
	"sync"
	"testing"
	"time"

	"github.com/google/uuid"
	egctx "github.com/megaease/easegress/pkg/context"
	"github.com/megaease/easegress/pkg/logger"
	"github.com/megaease/easegress/pkg/object/serviceregistry"
	"github.com/megaease/easegress/pkg/protocols/httpprot"
	"github.com/megaease/easegress/pkg/resilience"
	"github.com/megaease/easegress/pkg/supervisor"
	"github.com/megaease/easegress/pkg/tracing"
	"verif/simkit/hdrv"
	"verif/simkit/sim"
)

// Generator switches (all ON: nothing of this round fires on the unchanged tree).
const (
	// discovery instances with IPv6 addresses. ServiceInstanceSpec.URL() does not
	// bracket the address ("http://fd00::5:9000"); Go's client still reaches the
	// instance (Hostname()/Port() split at the last colon), so server identity is
	// compared modulo brackets (c04Norm) and the malformed authority is only a
	// probe (c04.ipv6_instance_url_without_brackets).
	c04GenIPv6Instances = true
)

// c04Norm makes server URLs comparable whether or not an IPv6 address is bracketed.
func c04Norm(u string) string {
	if strings.IndexByte(u, '[') < 0 {
		return u
	}
	return strings.NewReplacer("[", "", "]", "").Replace(u)
}

// ---- scenario ---------------------------------------------------------------

type c04Srv struct {
	Host   string `json:"host"`             // URL = scheme + "://" + Host
	Scheme string `json:"scheme,omitempty"` // "" = http
	Weight int    `json:"weight"`
}

func c04SrvURL(sv c04Srv) string {
	if sv.Scheme == "https" {
		return "https://" + sv.Host
	}
	return "http://" + sv.Host
}

type c04Inst struct {
	ID     string   `json:"id"`
	Addr   string   `json:"addr"`
	Port   int      `json:"port"`
	Scheme string   `json:"scheme"`
	Weight int      `json:"weight"`
	Tags   []string `json:"tags"`
}

type c04Update struct {
	GapUs int64     `json:"gap_us"`
	Burst bool      `json:"burst"` // watcher mode: sent right behind the previous event of this task (no gate, no gap)
	Incr  bool      `json:"incr"`  // watcher mode: notified as an incremental event (Apply / Delete of the changed instances) instead of a full Replace
	Insts []c04Inst `json:"insts"`
}

type c04Retry struct {
	MaxAttempts int  `json:"max_attempts"`
	WaitMs      int  `json:"wait_ms"`
	Exponential bool `json:"exponential"`
}

type c04Updater struct {
	Updates []c04Update `json:"updates"`
}

// c04Reload is one hot reload of a discovery-backed pool (watcher mode): a new
// generation of the slot's pool is created and published, then the old one is
// closed (the order Pipeline.Inherit uses).
type c04Reload struct {
	GapUs  int64 `json:"gap_us"`
	Slot   int   `json:"slot"`
	HoldUs int64 `json:"hold_us"` // between publishing the new generation and closing the old one: -1 nothing, 0 gate, >0 sleep
	Rereg  bool  `json:"rereg"`   // not a pool reload but a reload of the registry DRIVER object: it is deregistered from the ServiceRegistry controller, hold_us later registered again
	Gap    bool  `json:"gap"`     // the other order (pipeline deleted and created again later / pool removed and re-added): the old generation is closed FIRST, the slot has no pool for hold_us, then the next generation is created
}

type c04Op struct {
	GapUs  int64  `json:"gap_us"`
	IP     string `json:"ip"`
	Port   int    `json:"port"`
	Mode   string `json:"mode"` // remote | xreal | xff
	HasHdr bool   `json:"has_hdr"`
	Hdr    string `json:"hdr"`
	Mirror bool   `json:"mirror"`
	HoldUs int64  `json:"hold_us"` // inside the transport stub: -1 no gate, 0 gate, >0 sleep
	Fails  int    `json:"fails"`   // the first Fails transport calls of this request answer with an error
	Slot   int    `json:"slot"`    // which pool of the scenario serves the request (0 main, 1 second pool if there is one)
}

type c04Selector struct {
	Ops []c04Op `json:"ops"`
}

type c04Scenario struct {
	Policy      string        `json:"policy"`
	HashKey     string        `json:"hash_key"`
	ServerTags  []string      `json:"server_tags"`
	Static      []c04Srv      `json:"static"`
	ServiceName string        `json:"service_name"`
	Selectors   []c04Selector `json:"selectors"`
	Updaters    []c04Updater  `json:"updaters"`
	Retry       *c04Retry     `json:"retry,omitempty"`
	Watcher     bool          `json:"watcher"`     // discovery through the real ServiceRegistry + the pool's own watchServers goroutine
	InitInsts   []c04Inst     `json:"init_insts"`  // watcher mode: what the registry holds when the pool is created
	SecondPool  bool          `json:"second_pool"` // watcher mode: a second pool (candidate / other proxy) watches the same service
	Pool2Tags   []string      `json:"pool2_tags"`  // its serverTags (empty: same as the main pool's)
	Reloads     []c04Reload   `json:"reloads"`     // watcher mode: hot reloads (new pool generation created, then the old one closed)
	ListFail    []int         `json:"list_fail"`   // watcher mode, fault: ordinals of the registry driver's listings that answer with an error
	NoTags      bool          `json:"no_tags"`     // the pools have no serverTags at all (and the static servers no tags)
	LateReg     bool          `json:"late_reg"`    // watcher mode, start-up order: the pools are created before the registry driver is registered with the controller; it registers late_us after the start
	LateUs      int64         `json:"late_us"`
}

func c04Gen(rng *sim.Rand, tier string) interface{} {
	sc := &c04Scenario{}
	switch x := rng.Intn(100); {
	case x < 32:
		sc.Policy = LoadBalancePolicyRoundRobin
	case x < 42:
		sc.Policy = LoadBalancePolicyRandom
	case x < 64:
		sc.Policy = LoadBalancePolicyWeightedRandom
	case x < 80:
		sc.Policy = LoadBalancePolicyIPHash
	case x < 95:
		sc.Policy = LoadBalancePolicyHeaderHash
	default:
		sc.Policy = ""
	}
	weighted := sc.Policy == LoadBalancePolicyWeightedRandom
	sc.HashKey = rng.PickStr("X-User", "x-session", "Cookie-Id")
	allTags := []string{"blue", "green", "v2", "canary"}
	tp := rng.Perm(len(allTags))
	nt := rng.Range(1, 2)
	var otherTags []string
	for i, p := range tp {
		if i < nt {
			sc.ServerTags = append(sc.ServerTags, allTags[p])
		} else {
			otherTags = append(otherTags, allTags[p])
		}
	}

	// static list
	nStatic := rng.Pick(0, 1, 1, 2, 2, 3, 3, 4, 5, 8)
	zeroAll := rng.Bool(0.5)
	if weighted {
		zeroAll = rng.Bool(0.06)
	}
	equalW := rng.Pick(0, 0, 1, 10, 100)
	hostNames := rng.Bool(0.3)
	shapes := rng.Pick(0, 0, 0, 1, 2, 3, 4, 5, 5)
	for i := 0; i < nStatic; i++ {
		s := c04Srv{Host: fmt.Sprintf("10.1.0.%d:8080", i+1)}
		if hostNames {
			s.Host = fmt.Sprintf("backend-%d.example.com", i+1)
			// other ordinary URL shapes: host name with a port, IPv6 literal with and
			// without a port, IPv4 without a port, https
			switch shapes {
			case 1:
				s.Host = fmt.Sprintf("backend-%d.example.com:8443", i+1)
				s.Scheme = "https"
			case 2:
				s.Host = fmt.Sprintf("[fd00:1::%x]:8080", i+1)
			case 3:
				s.Host = fmt.Sprintf("[fd00:1::%x]", i+1)
			case 4:
				s.Host = fmt.Sprintf("10.1.1.%d", i+1)
			case 5:
				s.Host = rng.PickStr(fmt.Sprintf("backend-%d.example.com:8080", i+1), fmt.Sprintf("[fd00:1::%x]:8080", i+1), fmt.Sprintf("10.1.1.%d", i+1), fmt.Sprintf("backend-%d.example.com", i+1))
				s.Scheme = rng.PickStr("", "", "https")
			}
		}
		switch {
		case zeroAll:
			s.Weight = 0
		case equalW > 0:
			s.Weight = equalW
		default:
			s.Weight = rng.Range(1, 100)
		}
		sc.Static = append(sc.Static, s)
	}
	if nStatic >= 2 && rng.Bool(0.02) {
		// not all servers have a weight: Validate is expected to reject
		sc.Static[0].Weight = 0
		sc.Static[1].Weight = 7
	}

	// optional retry policy
	retry := rng.Bool(0.25)
	if retry {
		sc.Retry = &c04Retry{MaxAttempts: rng.Pick(2, 2, 3, 4), WaitMs: rng.Pick(1, 1, 5, 20), Exponential: rng.Bool(0.3)}
	}

	// discovery
	discovery := nStatic == 0 || rng.Bool(0.65) || (retry && rng.Bool(0.6))
	if discovery {
		sc.ServiceName = "svc"
		overlap := rng.Bool(0.35)
		nUpd := rng.Range(1, 4)
		nTasks := 1
		if rng.Bool(0.15) {
			nTasks = 2
		}
		sc.Watcher = rng.Bool(0.42)
		if sc.Watcher {
			nUpd = rng.Range(1, 6)
		}
		// morph: the reports keep the instance URLs of the previous one and change
		// only weights (to and from 0) and tags (instances losing / gaining the
		// pool's serverTags)
		morph := rng.Bool(0.45)
		if morph && nUpd < 2 {
			nUpd = rng.Range(2, 4)
		}
		var prev []c04Inst
		fresh := 0
		sc.Updaters = make([]c04Updater, nTasks)
		type addr struct {
			a string
			p int
		}
		var universe []addr
		v6 := c04GenIPv6Instances && rng.Bool(0.08)
		for i := 1; i <= 6; i++ {
			if v6 && i%2 == 1 {
				universe = append(universe, addr{fmt.Sprintf("fd00:3::%x", i), 9000})
				continue
			}
			universe = append(universe, addr{fmt.Sprintf("10.3.0.%d", i), 9000})
		}
		bigW := rng.Bool(0.1) // registries are not bound to the 0..100 range of the static spec
		if !hostNames {
			for i := 0; i < nStatic && i < 3; i++ {
				universe = append(universe, addr{fmt.Sprintf("10.1.0.%d", i+1), 8080})
			}
		}
		nInit := 0
		if sc.Watcher && rng.Bool(0.5) {
			nInit = 1
		}
		for uid := -nInit; uid < nUpd; uid++ {
			u := c04Update{GapUs: int64(rng.Pick(0, 0, 1, 10, 100, 1000, 5000))}
			if retry {
				u.GapUs = int64(rng.Pick(0, 50, 200, 600, 1500, 4000, 12000))
			}
			if morph && len(prev) > 0 {
				u.Insts = c04Morph(rng, prev, sc.ServerTags, weighted, &fresh)
				prev = u.Insts
				if uid < 0 {
					sc.InitInsts = u.Insts
					continue
				}
				t := rng.Intn(nTasks)
				if sc.Watcher && len(sc.Updaters[t].Updates) > 0 && rng.Bool(0.4) {
					u.Burst, u.GapUs = true, 0
				}
				sc.Updaters[t].Updates = append(sc.Updaters[t].Updates, u)
				continue
			}
			ni := rng.Pick(0, 1, 1, 2, 3, 3, 5, 8)
			pMatch := rng.Pick(0, 50, 80, 100, 100)
			if morph {
				ni = rng.Pick(2, 2, 3, 4, 5)
				pMatch = rng.Pick(80, 100, 100)
			}
			wmode := "any"
			if weighted {
				switch x := rng.Intn(100); {
				case x < 5:
					wmode = "zero"
				case x < 50:
					wmode = "mixed"
				default:
					wmode = "positive"
				}
			}
			up := rng.Perm(len(universe))
			firstMatch := -1
			anyPositive := false
			for j := 0; j < ni; j++ {
				in := c04Inst{ID: fmt.Sprintf("i%d", j), Scheme: rng.PickStr("", "", "http", "https")}
				if overlap && j < len(universe) {
					in.Addr, in.Port = universe[up[j]].a, universe[up[j]].p
					if in.Port == 8080 {
						in.Scheme = rng.PickStr("", "http") // may coincide with a static server's URL
					}
				} else {
					in.Addr, in.Port = fmt.Sprintf("10.2.%d.%d", uid+2, j+1), 9000+j
					if v6 && j%2 == 1 {
						in.Addr = fmt.Sprintf("fd00:2:%x::%x", uid+2, j+1)
					}
				}
				match := rng.Intn(100) < pMatch
				if match {
					in.Tags = []string{sc.ServerTags[rng.Intn(len(sc.ServerTags))]}
					if rng.Bool(0.3) {
						in.Tags = append([]string{otherTags[rng.Intn(len(otherTags))]}, in.Tags...)
					}
					if rng.Bool(0.2) {
						in.Tags = append(in.Tags, "extra")
					}
				} else if rng.Bool(0.6) {
					in.Tags = []string{otherTags[rng.Intn(len(otherTags))]}
				}
				switch wmode {
				case "zero":
					in.Weight = 0
				case "positive":
					in.Weight = rng.Range(1, 100)
				case "mixed":
					if !rng.Bool(0.45) {
						in.Weight = rng.Pick(1, 1, 5, 50, 100)
					}
				default:
					in.Weight = rng.Pick(0, 0, 1, 10, rng.Range(0, 100))
				}
				if bigW && in.Weight > 0 && rng.Bool(0.5) {
					in.Weight = rng.Pick(101, 1000, 65535, 1000000)
				}
				if match {
					if firstMatch < 0 {
						firstMatch = j
					}
					if in.Weight > 0 {
						anyPositive = true
					}
				}
				u.Insts = append(u.Insts, in)
			}
			if wmode == "mixed" && firstMatch >= 0 && !anyPositive {
				// keep the all-zero discovery case to wmode "zero"; put the positive
				// weight on the last tagged instance so that zero-weight ones precede it
				for j := len(u.Insts) - 1; j >= 0; j-- {
					if c04Tagged(sc.ServerTags, u.Insts[j].Tags) {
						u.Insts[j].Weight = rng.Pick(1, 3, 100)
						break
					}
				}
			}
			prev = u.Insts
			if uid < 0 {
				sc.InitInsts = u.Insts
				continue
			}
			t := rng.Intn(nTasks)
			if sc.Watcher && len(sc.Updaters[t].Updates) > 0 && rng.Bool(0.55) {
				u.Burst, u.GapUs = true, 0
			}
			sc.Updaters[t].Updates = append(sc.Updaters[t].Updates, u)
		}
		sc.NoTags = rng.Bool(0.05)
		if sc.Watcher {
			if rng.Bool(0.3) {
				for t := range sc.Updaters {
					for k := range sc.Updaters[t].Updates {
						sc.Updaters[t].Updates[k].Incr = rng.Bool(0.6)
					}
				}
			}
			if rng.Bool(0.12) {
				for i, n := 0, rng.Range(1, 2); i < n; i++ {
					sc.ListFail = append(sc.ListFail, rng.Intn(9))
				}
			}
			// a second pool on the same service, hot reloads of either pool
			if rng.Bool(0.35) {
				sc.SecondPool = true
				if rng.Bool(0.5) {
					sc.Pool2Tags = []string{otherTags[0]}
					if rng.Bool(0.3) {
						sc.Pool2Tags = append(sc.Pool2Tags, sc.ServerTags[0])
					}
				}
			}
			if rng.Bool(0.08) {
				sc.LateReg, sc.LateUs = true, int64(rng.Pick(0, 10, 300, 2000))
			}
			if rng.Bool(0.55) {
				nRel := rng.Pick(1, 2, 2, 3, 3, 4)
				for i := 0; i < nRel; i++ {
					rl := c04Reload{GapUs: int64(rng.Pick(0, 1, 10, 100, 300, 1000, 3000)), HoldUs: int64(rng.Pick(-1, -1, 0, 10, 200))}
					if retry {
						rl.GapUs = int64(rng.Pick(0, 100, 600, 2000, 6000))
					}
					if sc.SecondPool && rng.Bool(0.4) {
						rl.Slot = 1
					}
					if rng.Bool(0.35) {
						rl.Gap, rl.HoldUs = true, int64(rng.Pick(0, 0, 10, 200, 1000, 3000))
					} else if rng.Bool(0.2) {
						rl.Rereg, rl.HoldUs = true, int64(rng.Pick(-1, 0, 10, 200, 1000))
					}
					sc.Reloads = append(sc.Reloads, rl)
				}
			}
		}
	}

	// selectors
	ns := rng.Range(1, 6)
	total := rng.Pick(4, 10, 20, 40, 60, 100, 160, 200)
	if retry {
		total = rng.Pick(4, 10, 20, 40)
	}
	per := total / ns
	if per < 1 {
		per = 1
	}
	nIP := rng.Range(2, 6)
	nHdr := rng.Range(2, 5)
	mode := rng.PickStr("remote", "remote", "xreal", "xff", "xffchain", "both")
	v6Clients := rng.Bool(0.15)
	dense := rng.Bool(0.4)
	mirrorPct := rng.Pick(0, 0, 0, 10, 30)
	holdy := rng.Bool(0.5)
	for s := 0; s < ns; s++ {
		var sel c04Selector
		for i := 0; i < per; i++ {
			op := c04Op{Mode: mode, Port: rng.Range(1024, 65000), HoldUs: -1}
			if rng.Bool(0.1) {
				op.Mode = rng.PickStr("remote", "xreal", "xff", "xffchain", "both")
			}
			op.IP = fmt.Sprintf("203.0.113.%d", 1+rng.Intn(nIP))
			if v6Clients && rng.Bool(0.7) {
				op.IP = fmt.Sprintf("2001:db8::%x", 1+rng.Intn(nIP))
			}
			if !dense {
				op.GapUs = int64(rng.Pick(0, 0, 0, 1, 10, 100, 1000))
			}
			if rng.Intn(10) < 8 {
				op.HasHdr = true
				op.Hdr = fmt.Sprintf("user-%d", rng.Intn(nHdr))
				if rng.Bool(0.05) {
					op.Hdr = ""
				}
			}
			op.Mirror = rng.Intn(100) < mirrorPct
			if sc.SecondPool && rng.Bool(0.4) {
				op.Slot = 1
			}
			if holdy {
				op.HoldUs = int64(rng.Pick(-1, 0, 0, 1, 100))
			}
			if !op.Mirror {
				if retry && rng.Bool(0.5) {
					op.Fails = rng.Pick(1, 1, 1, 2, sc.Retry.MaxAttempts)
					op.HoldUs = int64(rng.Pick(0, 100, 500, 2000))
					if op.GapUs == 0 {
						op.GapUs = int64(rng.Pick(0, 100, 1000, 3000))
					}
				} else if !retry && rng.Bool(0.03) {
					op.Fails = 1
				}
			}
			sel.Ops = append(sel.Ops, op)
		}
		sc.Selectors = append(sc.Selectors, sel)
	}
	return sc
}

// c04Morph derives the next discovery report from the previous one: the same
// instances (ids, addresses), of which some change their weight (to 0, from 0,
// to another positive value) or lose / gain a serverTag of the pool; rarely an
// instance leaves or a new one joins.
func c04Morph(rng *sim.Rand, prev []c04Inst, serverTags []string, weighted bool, fresh *int) []c04Inst {
	out := make([]c04Inst, 0, len(prev)+1)
	pW, pT := 30, 22
	if weighted {
		pW, pT = 45, 12
	}
	for _, in := range prev {
		in.Tags = append([]string(nil), in.Tags...)
		switch x := rng.Intn(100); {
		case x < pW:
			switch {
			case in.Weight == 0:
				in.Weight = rng.Pick(1, 5, 50, 100)
			case rng.Bool(0.6):
				in.Weight = 0
			default:
				in.Weight = rng.Range(1, 100)
			}
		case x < pW+pT:
			if c04Tagged(serverTags, in.Tags) {
				var kept []string
				for _, t := range in.Tags {
					if !c04Tagged(serverTags, []string{t}) {
						kept = append(kept, t)
					}
				}
				in.Tags = kept
			} else {
				in.Tags = append(in.Tags, serverTags[rng.Intn(len(serverTags))])
			}
		case x < pW+pT+4:
			continue
		}
		out = append(out, in)
	}
	if rng.Bool(0.06) {
		*fresh++
		out = append(out, c04Inst{ID: fmt.Sprintf("n%d", *fresh), Addr: fmt.Sprintf("10.4.0.%d", *fresh), Port: 9100,
			Weight: rng.Pick(0, 1, 10), Tags: []string{serverTags[0]}})
	}
	return out
}

// ---- reference model ----------------------------------------------------------

// c04Tagged: an instance belongs to the pool if it carries at least one of the
// pool's serverTags (doc: "only servers have tags in this array are included").
func c04Tagged(poolTags, instTags []string) bool {
	for _, p := range poolTags {
		for _, t := range instTags {
			if p == t {
				return true
			}
		}
	}
	return false
}

func c04InstURL(in c04Inst) string {
	scheme := in.Scheme
	if scheme == "" {
		scheme = "http"
	}
	return c04Norm(fmt.Sprintf("%s://%s", scheme, net.JoinHostPort(in.Addr, fmt.Sprint(in.Port))))
}

type c04Generation struct {
	id         int
	start, end int           // harness stamps: reported / known to be in force (installed)
	endT       time.Duration // virtual time of end
	installed  bool
	fifo       int           // watcher mode: position of the report in the pool's event queue (applied in this order by one goroutine); -1 otherwise
	bornT      time.Duration // watcher mode: virtual time at which the report was made
	optional   bool          // reported while the pool was being closed: may or may not have been applied
	loose      bool          // pool without serverTags: the list is the union of both readings
	// probes only: relation to the report before it / to the pool's history
	weightOnly, tagOnly, afterReload bool
	sameAs                           *c04Generation // the report before it defined the identical list (same URLs, same weights)
	src                              string
	weight                           map[string]int // url -> weight
	n, total                         int
	sure                             map[string]int // selections that can only belong to this generation
	maybe                            map[string]int // selections that may belong to it
	sticky                           map[string]string
	k                                int
}

func (g *c04Generation) describe() string {
	urls := make([]string, 0, len(g.weight))
	for u := range g.weight {
		urls = append(urls, u)
	}
	sort.Strings(urls)
	var b strings.Builder
	end := fmt.Sprint(g.end)
	if !g.installed {
		end = "?"
	}
	fmt.Fprintf(&b, "gen%d(%s,[%d..%s]){", g.id, g.src, g.start, end)
	for _, u := range urls {
		fmt.Fprintf(&b, " %s w=%d sure=%d maybe=%d;", u, g.weight[u], g.sure[u], g.maybe[u])
	}
	b.WriteString(" }")
	return b.String()
}

// c04Model is the reference for ONE pool object (one generation of one slot).
type c04Model struct {
	tags   []string
	static map[string]int
	gens   []*c04Generation
	// loose: the pool has no serverTags. "The tagged instances" then reads either
	// as "none qualifies" (static list) or as "no selector = every instance";
	// both are accepted: a generation's list is the union, and only the rules
	// that hold under both readings are applied to it.
	loose bool
}

const (
	c04Creating = iota // NewServerPool running, watcher not registered yet
	c04Live            // watching (registered with the registry) / usable
	c04Closing         // close() running
	c04Closed
)

// c04Pool is one ServerPool object of the run with its reference model.
type c04Pool struct {
	name      string
	slot      int
	gen       int // 0 = the pool created at start, k = created by the k-th reload of the slot
	sp        *ServerPool
	model     *c04Model
	state     int
	afterGap  bool // created after its predecessor had been closed (probes only)
	queued    int  // events handed to this pool's watcher so far
	selecting int  // selections in flight on this pool
}

func (m *c04Model) newGen(src string, list map[string]int, start int) *c04Generation {
	g := &c04Generation{id: len(m.gens), start: start, src: src, weight: list, n: len(list), fifo: -1, loose: m.loose && src != "static",
		sure: map[string]int{}, maybe: map[string]int{}, sticky: map[string]string{}}
	for _, w := range list {
		g.total += w
	}
	m.gens = append(m.gens, g)
	return g
}

// listFor is the reference for useService: tagged instances, else static list.
func (m *c04Model) listFor(insts []c04Inst) (map[string]int, string) {
	list := map[string]int{}
	if m.loose {
		for u, w := range m.static {
			list[u] = w
		}
		for _, in := range insts {
			list[c04InstURL(in)] = in.Weight
		}
		if len(insts) == 0 {
			return list, "either-static"
		}
		return list, "either"
	}
	for _, in := range insts {
		if c04Tagged(m.tags, in.Tags) {
			list[c04InstURL(in)] = in.Weight
		}
	}
	if len(list) == 0 {
		return m.static, "fallback"
	}
	return list, "discovery"
}

// later tells whether generation j certainly took effect after generation i.
func c04Later(j, i *c04Generation) bool {
	if j.id == i.id {
		return false
	}
	if i.fifo >= 0 && j.fifo >= 0 {
		return j.fifo > i.fifo
	}
	if !i.installed {
		return false
	}
	return j.start > i.end
}

// candidates returns the generations that may have been current at some
// instant of an attempt that began not before stamp s / virtual time sT and was
// over at stamp e.
func (m *c04Model) candidates(s int, sT time.Duration, e int) []*c04Generation {
	var out []*c04Generation
	for _, g := range m.gens {
		if g.start >= e {
			continue
		}
		superseded := false
		for _, j := range m.gens {
			if j.installed && c04Later(j, g) && (j.end < s || j.endT < sT) {
				superseded = true
				break
			}
		}
		if !superseded {
			out = append(out, g)
		}
	}
	return out
}

func c04Desc(gs []*c04Generation) string {
	var b strings.Builder
	for _, g := range gs {
		b.WriteString("\n  " + g.describe())
	}
	return b.String()
}

// ---- executor -------------------------------------------------------------------

type c04Sel struct {
	name      string
	pool      *c04Pool
	s         int
	sT        time.Duration
	prevEnd   int           // stamp at which the previous transport call of this request returned
	prevEndT  time.Duration // its virtual time
	fwd       []string
	lastOK    bool
	selecting bool
	key       string
	hold      int64
	fails     int
	mirror    bool
}

func c04ValidPolicy(p string) bool {
	switch p {
	case "", LoadBalancePolicyRoundRobin, LoadBalancePolicyRandom, LoadBalancePolicyWeightedRandom, LoadBalancePolicyIPHash, LoadBalancePolicyHeaderHash:
		return true
	}
	return false
}

// c04Registry is the harness's fake external registry driver behind the real
// serviceregistry.ServiceRegistry. Every notification the harness sends stands
// for one state of the registry; the state becomes visible to the k-th
// ListServiceInstances call made on behalf of a notification (that call IS the
// discovery report the property speaks of).
type c04Registry struct {
	notify  chan *serviceregistry.RegistryEvent
	cur     []c04Inst
	pending [][]c04Inst
	service string
	onList  func(kind string, insts []c04Inst)
	nList   int
	fail    map[int]bool
	onFail  func(kind string)
}

// c04ListKind tells on whose behalf the registry driver is asked for the
// instances of the service: "dispatch" = the ServiceRegistry handles a
// notification (the listing is the discovery report sent to every watcher of
// the service), "initial" = NewServiceWatcher builds the first event of a new
// watcher, "sync" = the synchronous first listing of ServerPool.watchServers.
func c04ListKind() string {
	var pcs [24]uintptr
	n := runtime.Callers(2, pcs[:])
	frames := runtime.CallersFrames(pcs[:n])
	for {
		f, more := frames.Next()
		switch {
		case strings.HasSuffix(f.Function, ").NewServiceWatcher"):
			return "initial"
		case strings.HasSuffix(f.Function, ")._handleRegistryEvent"):
			for more {
				f, more = frames.Next()
				if strings.HasSuffix(f.Function, ").DeregisterRegistry") {
					return "clean" // the report the controller makes when the driver is deregistered
				}
			}
			return "dispatch"
		case strings.HasSuffix(f.Function, ").watchServers"):
			return "sync"
		}
		if !more {
			return ""
		}
	}
}

func (f *c04Registry) Name() string                                  { return "c04reg" }
func (f *c04Registry) Notify() <-chan *serviceregistry.RegistryEvent { return f.notify }
func (f *c04Registry) ApplyServiceInstances(map[string]*serviceregistry.ServiceInstanceSpec) error {
	return nil
}
func (f *c04Registry) DeleteServiceInstances(map[string]*serviceregistry.ServiceInstanceSpec) error {
	return nil
}
func (f *c04Registry) GetServiceInstance(serviceName, instanceID string) (*serviceregistry.ServiceInstanceSpec, error) {
	return nil, fmt.Errorf("not found")
}
func (f *c04Registry) ListServiceInstances(serviceName string) (map[string]*serviceregistry.ServiceInstanceSpec, error) {
	kind := c04ListKind()
	if kind == "dispatch" && len(f.pending) > 0 {
		f.cur = f.pending[0]
		f.pending = f.pending[1:]
	}
	n := f.nList
	f.nList++
	if kind != "" && f.fail[n] && f.onFail != nil {
		f.onFail(kind)
		return nil, fmt.Errorf("c04: scripted registry failure")
	}
	if f.onList != nil {
		f.onList(kind, f.cur)
	}
	return c04InstMap(f.cur, f.service), nil
}
func (f *c04Registry) ListAllServiceInstances() (map[string]*serviceregistry.ServiceInstanceSpec, error) {
	return c04InstMap(f.cur, f.service), nil
}

// c04Usable drops instances a shrunk scenario may have made meaningless.
func c04Usable(in []c04Inst) []c04Inst {
	var used []c04Inst
	seenURL, seenID := map[string]bool{}, map[string]bool{}
	for _, x := range in {
		url := c04InstURL(x)
		if x.ID == "" || x.Addr == "" || x.Weight < 0 || x.Port <= 0 || x.Port > 65535 || seenURL[url] || seenID[x.ID] {
			continue
		}
		switch x.Scheme {
		case "", "http", "https":
		default:
			continue
		}
		seenURL[url], seenID[x.ID] = true, true
		used = append(used, x)
	}
	return used
}

func c04InstMap(used []c04Inst, service string) map[string]*serviceregistry.ServiceInstanceSpec {
	m := map[string]*serviceregistry.ServiceInstanceSpec{}
	for _, in := range used {
		m[in.ID] = &serviceregistry.ServiceInstanceSpec{RegistryName: "c04reg", ServiceName: service, InstanceID: in.ID,
			Address: in.Addr, Port: uint16(in.Port), Scheme: in.Scheme, Weight: in.Weight, Tags: append([]string(nil), in.Tags...)}
	}
	return m
}

// c04UUIDSrc is a reproducible randomness source for google/uuid: the n-th
// UUID of a run carries n in its first four bytes.
type c04UUIDSrc struct{ n uint32 }

func (u *c04UUIDSrc) Read(p []byte) (int, error) {
	for i := range p {
		p[i] = 0
	}
	u.n++
	if len(p) >= 4 {
		p[0], p[1], p[2], p[3] = byte(u.n>>24), byte(u.n>>16), byte(u.n>>8), byte(u.n)
	}
	return len(p), nil
}

var (
	c04RegistrySpec *supervisor.Spec
	c04RetryCache   = map[string]resilience.Policy{}
)

func c04RetryPolicy(rt *c04Retry) (resilience.Policy, error) {
	key := fmt.Sprintf("%d/%d/%v", rt.MaxAttempts, rt.WaitMs, rt.Exponential)
	if p, ok := c04RetryCache[key]; ok {
		return p, nil
	}
	raw := map[string]interface{}{"kind": "Retry", "name": "c04retry", "maxAttempts": rt.MaxAttempts, "waitDuration": fmt.Sprintf("%dms", rt.WaitMs)}
	if rt.Exponential {
		raw["backOffPolicy"] = "exponential"
	}
	p, err := resilience.NewPolicy(raw)
	if err == nil {
		c04RetryCache[key] = p
	}
	return p, err
}

func c04Exec(r *sim.Run, sci interface{}) {
	sc := sci.(*c04Scenario)
	if !c04ValidPolicy(sc.Policy) || len(sc.Selectors) == 0 {
		return
	}
	if sc.Policy == LoadBalancePolicyHeaderHash && sc.HashKey == "" {
		return
	}
	updaters := sc.Updaters
	watcher := sc.Watcher
	noTags := sc.NoTags
	if len(sc.ServerTags) == 0 && !noTags {
		updaters = nil // a shrunk scenario: instances were generated for tags that are gone
		watcher = false
	}
	if watcher && sc.ServiceName == "" {
		return
	}
	policy := sc.Policy
	weighted := policy == LoadBalancePolicyWeightedRandom
	maxAttempts, wait := 1, time.Duration(0)
	if rt := sc.Retry; rt != nil {
		if rt.MaxAttempts < 1 || rt.MaxAttempts > 6 || rt.WaitMs < 1 || rt.WaitMs > 1000 {
			return
		}
		maxAttempts, wait = rt.MaxAttempts, time.Duration(rt.WaitMs)*time.Millisecond
	}
	nSlots := 1
	slotTags := [][]string{sc.ServerTags, sc.ServerTags}
	if noTags {
		slotTags = [][]string{nil, nil}
	}
	reloads := sc.Reloads
	if watcher && sc.SecondPool {
		nSlots = 2
		if len(sc.Pool2Tags) > 0 && !noTags {
			slotTags[1] = sc.Pool2Tags
		}
	}
	if !watcher {
		reloads = nil
	}
	nNotif := 0
	for _, u := range updaters {
		nNotif += len(u.Updates)
	}
	if watcher && nNotif > 8 {
		return // a watcher's event queue holds 10 events; a full queue blocks the registry (outside this property)
	}

	// --- system under test
	static := map[string]int{}
	for _, s := range sc.Static {
		url := c04Norm(c04SrvURL(s))
		if _, dup := static[url]; dup || s.Host == "" || s.Weight < 0 {
			return
		}
		static[url] = s.Weight
	}
	buildSpec := func(slot int) *ServerPoolSpec {
		spec := &ServerPoolSpec{ServiceName: sc.ServiceName, ServerTags: append([]string(nil), slotTags[slot]...)}
		if policy != "" {
			spec.LoadBalance = &LoadBalanceSpec{Policy: policy, HeaderHashKey: sc.HashKey}
		}
		for _, s := range sc.Static {
			spec.Servers = append(spec.Servers, &Server{URL: c04SrvURL(s), Weight: s.Weight, Tags: append([]string(nil), slotTags[slot]...)})
		}
		if sc.Retry != nil {
			spec.RetryPolicy = "c04retry"
		}
		if watcher {
			spec.ServiceRegistry = "c04reg"
		}
		return spec
	}
	if err := buildSpec(0).Validate(); err != nil {
		r.Probe("c04.validate_rejected")
		return
	}
	policies := map[string]resilience.Policy{}
	if sc.Retry != nil {
		p, err := c04RetryPolicy(sc.Retry)
		if err != nil {
			r.Violate("C04.other", "retry policy %+v rejected: %v", *sc.Retry, err)
			return
		}
		policies["c04retry"] = p
	}
	saved := fnSendRequest
	defer func() { fnSendRequest = saved }()

	clk := 0
	stamp := func() int { clk++; return clk }
	var hist []string
	note := func(format string, a ...interface{}) {
		if len(hist) < 600 {
			hist = append(hist, fmt.Sprintf(format, a...))
		}
	}
	history := func() string {
		h := hist
		if len(h) > 80 {
			h = h[len(h)-80:]
		}
		return strings.Join(h, " ")
	}
	inflight := map[string]*c04Sel{}
	var pools []*c04Pool // every pool object of the run, in creation order
	slots := make([]*c04Pool, nSlots)
	maxSelecting, maxOpen, open := 0, 0, 0
	var fairChecked, stickyRepeated, zeroWeightMember, noServer, overlapSeen, retryAfterReplacement bool
	var weightOnlyServed, tagOnlyServed, servedAfterReload, reportAfterReloadServed, servedAfterGap, reportAfterGapServed bool

	fairCheck := func(p *c04Pool, when string) {
		if policy != LoadBalancePolicyRoundRobin || r.Violated() {
			return
		}
		for _, g := range p.model.gens {
			if g.n == 0 || g.loose {
				continue
			}
			maxSure, minAll := 0, int(^uint(0)>>1)
			for u := range g.weight {
				if g.sure[u] > maxSure {
					maxSure = g.sure[u]
				}
				if v := g.sure[u] + g.maybe[u]; v < minAll {
					minAll = v
				}
			}
			if maxSure-1 > minAll {
				r.Violate("C04.rr-unfair", "roundRobin, %s, no selection in flight on pool %s: some server of generation %d was chosen %d times while another at most %d times\n%s\nhistory: %s",
					when, p.name, g.id, maxSure, minAll, g.describe(), history())
				return
			}
			if g.n >= 2 && g.k >= g.n {
				fairChecked = true
			}
		}
	}

	selectionMade := func(st *c04Sel) {
		if st.selecting {
			st.selecting = false
			st.pool.selecting--
			if st.pool.selecting == 0 {
				fairCheck(st.pool, "mid-run")
			}
		}
	}

	var forwarded func(st *c04Sel, url string, attempt int)
	fnSendRequest = func(hr *http.Request, _ *http.Client) (*http.Response, error) {
		st := inflight[hr.URL.Path]
		hold := int64(-1)
		fail := false
		if st == nil {
			r.Violate("C04.other", "transport called for unknown request %s", hr.URL.String())
		} else {
			url := c04Norm(hr.URL.Scheme + "://" + hr.URL.Host)
			if strings.Count(hr.URL.Host, ":") > 1 && !strings.Contains(hr.URL.Host, "[") {
				r.Probe("c04.ipv6_instance_url_without_brackets")
			}
			attempt := len(st.fwd)
			st.fwd = append(st.fwd, url)
			hold = st.hold
			fail = attempt < st.fails
			st.lastOK = !fail
			if !r.Violated() {
				forwarded(st, url, attempt)
			}
			selectionMade(st)
		}
		if hold >= 0 && !r.Violated() && !r.Aborted() {
			r.Sleep(time.Duration(hold) * time.Microsecond)
		}
		if st != nil {
			st.prevEnd, st.prevEndT = stamp(), r.Now()
			if fail && !st.mirror && maxAttempts > 1 && !st.selecting {
				// the retry wrapper will select again: from here to the next
				// transport call (or the return) a selection may be in flight
				st.selecting = true
				st.pool.selecting++
			}
		}
		if fail {
			return nil, fmt.Errorf("c04: scripted transport failure")
		}
		return &http.Response{StatusCode: http.StatusOK, Header: http.Header{}, Body: http.NoBody}, nil
	}

	// --- discovery plumbing (watcher mode): real ServiceRegistry, fake driver
	var sentT []time.Duration // virtual send time of every notification handed to the registry
	dispatched := 0           // notifications the registry has turned into a report (one listing per notification)
	var fake *c04Registry
	var sreg *serviceregistry.ServiceRegistry
	var creating *c04Pool // the pool whose NewServerPool is running (creations never overlap)
	registered := false   // the registry driver is registered with the ServiceRegistry controller
	px := &Proxy{spec: &Spec{}}
	reportProbes := func(g *c04Generation, nUsed int) {
		switch {
		case g.src == "fallback" && nUsed > 0:
			r.Probe("c04.fallback_none_tagged")
		case g.src == "fallback":
			r.Probe("c04.fallback_no_instances")
		}
		if g.n == 0 {
			r.Probe("c04.empty_list_installed")
		}
		if g.n == 1 {
			r.Probe("c04.single_server_list")
		}
		if weighted && g.n > 0 && g.total == 0 {
			if g.src == "discovery" {
				r.Probe("c04.weighted_discovery_all_zero")
			} else {
				r.Probe("c04.weighted_static_all_zero")
			}
		}
		if weighted && g.src == "discovery" && g.total > 0 {
			for _, w := range g.weight {
				if w == 0 {
					r.Probe("c04.weighted_discovery_some_zero")
					break
				}
			}
		}
	}
	// relation of a new report to the one before it in the same pool's queue
	// (probes only): same URLs with other weights, same instances with other tags
	var prevInsts []c04Inst
	relProbes := func(p *c04Pool, g *c04Generation, insts []c04Inst) {
		var last *c04Generation
		for i := len(p.model.gens) - 2; i >= 0; i-- {
			if !p.model.gens[i].optional {
				last = p.model.gens[i]
				break
			}
		}
		if last == nil || last.src != "discovery" || g.src != "discovery" {
			return
		}
		same := len(last.weight) == len(g.weight)
		wdiff, toZero, fromZero := false, false, false
		for u, w := range g.weight {
			lw, ok := last.weight[u]
			if !ok {
				same = false
				break
			}
			if lw != w {
				wdiff = true
				if w == 0 {
					toZero = true
				}
				if lw == 0 {
					fromZero = true
				}
			}
		}
		if same && wdiff {
			g.weightOnly = true
			r.Probe("c04.report_same_urls_other_weights")
			if toZero && g.total > 0 {
				r.Probe("c04.report_same_urls_weight_to_zero")
			}
			if fromZero {
				r.Probe("c04.report_same_urls_weight_from_zero")
			}
		}
		if same && !wdiff {
			g.sameAs = last
			r.Probe("c04.report_identical_list")
		}
	}
	tagProbes := func(p *c04Pool, g *c04Generation, insts []c04Inst) {
		// same instance addresses as the previous report, but the set tagged for this pool differs
		if prevInsts == nil || len(prevInsts) != len(insts) {
			return
		}
		was := map[string]bool{}
		for _, in := range prevInsts {
			was[c04InstURL(in)] = c04Tagged(p.model.tags, in.Tags)
		}
		lost, gained := false, false
		for _, in := range insts {
			w, ok := was[c04InstURL(in)]
			if !ok {
				return
			}
			now := c04Tagged(p.model.tags, in.Tags)
			if w && !now {
				lost = true
			}
			if !w && now {
				gained = true
			}
		}
		if lost || gained {
			g.tagOnly = true
		}
		if lost {
			r.Probe("c04.report_same_instances_tag_lost")
		}
		if gained {
			r.Probe("c04.report_same_instances_tag_gained")
		}
	}
	cleaned := false
	if watcher {
		if c04RegistrySpec == nil {
			sp0, err := supervisor.NewDefaultMock().NewSpec("name: service-registry\nkind: ServiceRegistry\nsyncInterval: 10s\n")
			if err != nil {
				r.Violate("C04.other", "harness: cannot build the ServiceRegistry spec: %v", err)
				return
			}
			c04RegistrySpec = sp0
		}
		ent, err := supervisor.NewDefaultMock().NewObjectEntityFromSpec(c04RegistrySpec)
		if err != nil {
			r.Violate("C04.other", "harness: cannot build the ServiceRegistry entity: %v", err)
			return
		}
		sreg = ent.Instance().(*serviceregistry.ServiceRegistry)
		sreg.Init(c04RegistrySpec)
		// watcher ids are random UUIDs and the registry sends a report to its
		// watchers in map order: give the ids a reproducible source (unique per
		// run, creation-ordered), the map range itself is determinised by
		// check.json map_ranges
		uuid.SetRand(&c04UUIDSrc{})
		defer uuid.SetRand(nil)
		fake = &c04Registry{notify: make(chan *serviceregistry.RegistryEvent, 64), cur: c04Usable(sc.InitInsts), service: sc.ServiceName}
		fake.onList = func(kind string, insts []c04Inst) {
			if cleaned {
				return
			}
			switch kind {
			case "sync":
				// the synchronous first listing of watchServers: in force when NewServerPool returns
				p := creating
				if p == nil {
					return
				}
				list, src := p.model.listFor(insts)
				g := p.model.newGen(src, list, 0)
				g.installed, g.bornT = true, r.Now()
				note("%s:sync:gen%d(%s,n=%d)", p.name, g.id, src, g.n)
				r.Eventf("%s sync listing gen%d %s n=%d total=%d", p.name, g.id, src, g.n, g.total)
				reportProbes(g, len(insts))
			case "initial":
				// first event of the new watcher; from here on the pool is registered
				p := creating
				if p == nil {
					return
				}
				list, src := p.model.listFor(insts)
				g := p.model.newGen(src, list, stamp())
				g.fifo, g.bornT = p.queued, r.Now()
				p.queued++
				p.state = c04Live
				note("%s:report%d:gen%d(%s,n=%d)@%d", p.name, g.fifo, g.id, src, g.n, g.start)
				r.Eventf("%s initial event gen%d %s n=%d total=%d", p.name, g.id, src, g.n, g.total)
				reportProbes(g, len(insts))
			case "dispatch", "clean":
				if kind == "dispatch" {
					dispatched++
				} else {
					r.Probe("c04.report_on_driver_deregistration")
				}
				e := stamp()
				nTo := 0
				for _, p := range pools {
					if p.state != c04Live && p.state != c04Closing {
						continue
					}
					nTo++
					list, src := p.model.listFor(insts)
					g := p.model.newGen(src, list, e)
					g.fifo, g.bornT = p.queued, r.Now()
					p.queued++
					if p.state == c04Closing {
						g.optional = true
						r.Probe("c04.report_while_pool_closing")
					}
					note("%s:report%d:gen%d(%s,n=%d)@%d", p.name, g.fifo, g.id, src, g.n, g.start)
					r.Eventf("%s report %d gen%d %s n=%d total=%d", p.name, g.fifo, g.id, src, g.n, g.total)
					reportProbes(g, len(insts))
					relProbes(p, g, insts)
					tagProbes(p, g, insts)
					if len(pools) > nSlots && p == slots[p.slot] {
						g.afterReload = true
						r.Probe("c04.report_to_reloaded_pool")
					}
				}
				prevInsts = insts
				if nTo >= 2 {
					r.Probe("c04.report_to_two_pools")
				}
			}
		}
		fake.fail = map[int]bool{}
		for _, n := range sc.ListFail {
			fake.fail[n] = true
		}
		fake.onFail = func(kind string) {
			if cleaned {
				return
			}
			r.Fault("registry_list_error." + kind)
			switch kind {
			case "sync":
				// no report: the pool starts on its static list
				if p := creating; p != nil {
					g := p.model.newGen("fallback", static, 0)
					g.installed, g.bornT = true, r.Now()
					note("%s:sync-failed:gen%d(static,n=%d)", p.name, g.id, g.n)
					r.Eventf("%s sync listing failed", p.name)
				}
			case "initial":
				// the watcher is registered but gets no first event
				if p := creating; p != nil {
					p.state = c04Live
					note("%s:initial-failed", p.name)
					r.Eventf("%s initial event listing failed", p.name)
				}
			case "dispatch":
				// the notification is consumed without a report to anybody
				dispatched++
				note("dispatch%d-failed@%d", dispatched, stamp())
				r.Eventf("dispatch %d failed", dispatched)
			}
		}
		if !sc.LateReg {
			if err := sreg.RegisterRegistry(fake); err != nil {
				r.Violate("C04.other", "harness: RegisterRegistry: %v", err)
				return
			}
			registered = true
		}
		var sys sync.Map
		sys.Store(serviceregistry.Kind, ent)
		px.super = supervisor.NewMock(nil, nil, sync.Map{}, sys, nil, nil, false, nil, nil)
	}

	// cleanup stops the pools' watcher goroutines and the registry's dispatcher.
	// Notifications not yet taken are withdrawn first: DeregisterRegistry clears
	// bucket.registry, which a dispatcher that still finds an event would
	// dereference (outside this property).
	cleanup := func(wait bool) {
		if cleaned || !watcher {
			return
		}
		cleaned = true
		func() {
			defer func() { recover() }()
			for len(fake.notify) > 0 {
				<-fake.notify
			}
			for _, p := range pools {
				if p.sp == nil || p.state == c04Closing || p.state == c04Closed {
					continue
				}
				p.state = c04Closed
				if wait {
					p.sp.close()
				} else {
					close(p.sp.done)
				}
			}
			if registered {
				sreg.DeregisterRegistry("c04reg")
			}
		}()
	}
	defer cleanup(false)

	nGen := make([]int, nSlots)
	// newPool creates the next generation of a slot's pool (not published yet).
	newPool := func(slot int) *c04Pool {
		p := &c04Pool{name: fmt.Sprintf("p%d.%d", slot, nGen[slot]), slot: slot, gen: nGen[slot], model: &c04Model{tags: slotTags[slot], static: static, loose: noTags}}
		nGen[slot]++
		pools = append(pools, p)
		spec := buildSpec(slot)
		if watcher {
			creating = p
		}
		var pnc interface{}
		var stack string
		func() {
			defer func() {
				if x := recover(); x != nil {
					pnc, stack = x, c04Stack()
				}
			}()
			p.sp = NewServerPool(px, spec, "c04pool-"+p.name)
			if len(policies) > 0 {
				p.sp.InjectResiliencePolicy(policies)
			}
		}()
		creating = nil
		if pnc != nil {
			r.Violate("C04.panic", "creating pool %s panicked: %v\n%s\nhistory: %s", p.name, pnc, stack, history())
			return nil
		}
		if !watcher {
			g0 := p.model.newGen("static", static, 0)
			g0.installed = true
			if weighted && g0.n > 0 && g0.total == 0 {
				r.Probe("c04.weighted_static_all_zero")
			}
			if g0.n == 1 {
				r.Probe("c04.single_server_list")
			}
			p.state = c04Live
		} else if len(p.model.gens) == 0 {
			// the pool never asked the registered registry driver for the instances:
			// by the statement (and doc: serviceRegistry + serviceName name where the
			// servers come from) its list still has to be what the registry holds now
			if !registered {
				// no registry driver is registered: nothing has been reported, the
				// pool is on its static list until the first report reaches it
				g := p.model.newGen("fallback", static, 0)
				g.installed, g.bornT = true, r.Now()
				note("%s:no-driver:gen%d(static,n=%d)", p.name, g.id, g.n)
				r.Eventf("%s created while no registry driver is registered", p.name)
				r.Probe("c04.pool_created_while_driver_unregistered")
			} else {
				list, src := p.model.listFor(fake.cur)
				g := p.model.newGen(src, list, 0)
				g.installed, g.bornT = true, r.Now()
				note("%s:no-listing:gen%d(%s,n=%d)=registry-state", p.name, g.id, src, g.n)
				r.Eventf("%s created without any listing", p.name)
				r.Probe("c04.pool_created_without_listing")
			}
		}
		// from here on the pool has to follow every report for its service,
		// whether or not the harness saw it register a watcher
		p.state = c04Live
		return p
	}
	for s := 0; s < nSlots; s++ {
		if slots[s] = newPool(s); slots[s] == nil {
			return
		}
	}
	if nSlots == 2 {
		r.Probe("c04.two_pools_one_service")
	}

	// settle lets d of virtual time pass. If the scheduler took no stall decision
	// meanwhile, the clock can only have advanced while every goroutine (the
	// registry's dispatcher and the pools' watchers included) was blocked with
	// nothing left to do. So every notification sent at an earlier virtual instant
	// than the one at which the call returns has been turned into a report, and
	// every report made at an earlier instant is in force in every pool that is
	// still watching.
	settle := func(d time.Duration) bool {
		s0 := r.StalledFor()
		r.Sleep(d)
		if d <= 0 || r.StalledFor() != s0 || r.Aborted() || r.Violated() || cleaned {
			return false
		}
		e, now := stamp(), r.Now()
		for i, t := range sentT {
			if t < now && i >= dispatched {
				r.Violate("C04.discovery-report-lost", "notification #%d of the registry (sent at %v) was never turned into a report for the service although %d pool(s) watch it and every goroutine has been idle since (now %v); %d of %d notifications were reported\nhistory: %s",
					i+1, t, c04Watching(pools), now, dispatched, len(sentT), history())
				return false
			}
		}
		for _, p := range pools {
			if p.state != c04Live {
				continue
			}
			for _, g := range p.model.gens {
				if g.fifo >= 0 && !g.installed && !g.optional && g.bornT < now {
					g.installed, g.end, g.endT = true, e, now
					note("settled:%s.gen%d@%d", p.name, g.id, e)
				}
			}
		}
		return true
	}

	// forwarded is evaluated inside the transport stub: the selection of this
	// attempt is complete there (ChooseServer returned), so the attempt's
	// interval is [start of the attempt, now] and the choice is counted before
	// any later selection can be observed. The first attempt starts with the
	// request; a retry attempt starts after the previous transport call returned
	// and (documented: waitDuration between attempts) not before half of the
	// configured wait has passed since.
	forwarded = func(st *c04Sel, url string, attempt int) {
		model := st.pool.model
		e := stamp()
		s, sT := st.s, st.sT
		if attempt > 0 {
			s, sT = st.prevEnd, st.prevEndT+wait/2
		}
		cands := model.candidates(s, sT, e)
		if len(cands) > 1 {
			overlapSeen = true
		}
		if attempt > 0 {
			r.Probe("c04.retry_attempt_forwarded")
			for _, g := range model.candidates(st.s, st.sT, st.s+1) {
				gone := true
				for _, c := range cands {
					if c == g {
						gone = false
					}
				}
				if gone {
					retryAfterReplacement = true
				}
			}
		}
		note("%s.a%d=fwd@%d", st.name, attempt, e)
		r.Eventf("%s attempt %d forwarded", st.name, attempt)
		var expl []*c04Generation
		inList := false
		for _, g := range cands {
			w, ok := g.weight[url]
			if !ok {
				continue
			}
			inList = true
			if weighted && w == 0 && g.total > 0 && !g.loose {
				continue
			}
			expl = append(expl, g)
		}
		if len(expl) == 0 {
			if !inList {
				r.Violate("C04.foreign-server", "request %s (pool %s) attempt %d [%d,%d] was sent to %s, which is in no list that was current during the attempt; candidates:%s\nall generations of the pool:%s\nhistory: %s",
					st.name, st.pool.name, attempt, s, e, url, c04Desc(cands), c04Desc(model.gens), history())
			} else {
				r.Violate("C04.zero-weight-picked", "weightedRandom sent request %s (pool %s) attempt %d [%d,%d] to %s, which has weight 0 in every current list containing it although that list has positive weights; candidates:%s\nhistory: %s",
					st.name, st.pool.name, attempt, s, e, url, c04Desc(cands), history())
			}
			return
		}
		if len(expl) > 1 {
			r.Probe("c04.ambiguous_attribution")
			for _, g := range expl {
				g.maybe[url]++
			}
			return
		}
		g := expl[0]
		g.sure[url]++
		g.k++
		if g.loose && g.src == "either" {
			if _, isStatic := st.pool.model.static[url]; isStatic {
				r.Probe("c04.no_server_tags.static_server_chosen_although_instances_reported")
			} else {
				r.Probe("c04.no_server_tags.discovered_instance_chosen")
			}
		}
		if len(cands) == 1 {
			if g.weightOnly {
				weightOnlyServed = true
			}
			if g.tagOnly {
				tagOnlyServed = true
			}
			if g.afterReload {
				reportAfterReloadServed = true
			}
			if st.pool.gen > 0 {
				servedAfterReload = true
			}
			if st.pool.afterGap {
				servedAfterGap = true
				if g.fifo > 0 {
					reportAfterGapServed = true
				}
			}
		}
		if weighted && g.total > 0 && !g.loose {
			for _, w := range g.weight {
				if w == 0 {
					zeroWeightMember = true
					break
				}
			}
		}
		if st.key != "" {
			if prev, ok := g.sticky[st.key]; ok {
				if prev != url {
					r.Violate("C04.hash-not-sticky", "%s: key %q went to %s and later (request %s) to %s within generation %d of pool %s whose list did not change\n%s\nhistory: %s",
						policy, st.key, prev, st.name, url, g.id, st.pool.name, g.describe(), history())
					return
				}
				if g.n >= 2 {
					stickyRepeated = true
				}
			} else {
				g.sticky[st.key] = url
				// observation only (two readings of "while the list is unchanged"): a
				// report that repeats the previous list rebuilds the balancer, and the
				// order of a discovered list is the registry map's iteration order
				if g.sameAs != nil && g.n >= 2 {
					if prev, ok := g.sameAs.sticky[st.key]; ok {
						if prev != url {
							r.Probe("c04.hash_key_moved_after_identical_report")
						} else {
							r.Probe("c04.hash_key_kept_after_identical_report")
						}
					}
				}
			}
		}
	}

	// returned is evaluated when sp.handle has returned (or panicked).
	returned := func(st *c04Sel, op c04Op, result string, status int, pnc interface{}, stack string) {
		model := st.pool.model
		nT := len(st.fwd)
		success := result == "" && status == http.StatusOK
		switch {
		case pnc != nil:
			e := stamp()
			cands := model.candidates(st.s, st.sT, e)
			note("%s=panic@%d", st.name, e)
			r.Eventf("%s panic", st.name)
			if strings.Contains(stack, "simrand.(*guardedSource).enter") {
				// simkit's sentinel for private generators (simrand.New): a second
				// goroutine entered a *rand.Rand while another one was inside it. (The
				// value recovered may be a later panic of a deferred call run while
				// unwinding from the sentinel's panic.)
				r.Violate("C04.panic-concurrent-rand", "selection %s (policy %s) entered a *rand.Rand of the balancer while another selection was inside it: a *rand.Rand is not safe for concurrent use, concurrent draws corrupt the generator's state and ChooseServer panics (index out of range in math/rand); recovered value: %v\n%s\nhistory: %s",
					st.name, policy, pnc, stack, history())
				return
			}
			for _, g := range cands {
				if weighted && g.n > 0 && g.total == 0 && nT == 0 && !g.loose {
					origin := "static"
					if g.src == "discovery" {
						origin = "discovery"
					}
					r.Violate("C04.panic-zero-total-weight-"+origin, "weightedRandom selection %s panicked (%v) while a current list (%s) has %d server(s), all with weight 0; candidates:%s\n%s\nhistory: %s",
						st.name, pnc, g.src, g.n, c04Desc(cands), stack, history())
					return
				}
			}
			r.Violate("C04.panic", "request %s panicked: %v; candidate lists:%s\n%s\nhistory: %s", st.name, pnc, c04Desc(cands), stack, history())
		case nT > maxAttempts || (op.Mirror && nT > 1):
			r.Violate("C04.other", "request %s was sent %d times: %v (max attempts %d, mirror=%v)", st.name, nT, st.fwd, maxAttempts, op.Mirror)
		case nT >= 1 && op.Mirror:
		case nT >= 1:
			if st.lastOK != success {
				r.Violate("C04.other", "request %s: the last of %d transport calls %v, but the pool reports result %q status %d", st.name, nT,
					map[bool]string{true: "answered 200", false: "failed"}[st.lastOK], result, status)
			}
			if !success {
				note("%s=failed@%d", st.name, stamp())
				r.Eventf("%s failed after %d transport calls", st.name, nT)
			}
		default:
			// never forwarded: every attempt found no server. With a retry policy
			// the failure reported is the last attempt's, which began not before
			// (maxAttempts-1) waits (at least half the configured one each) after
			// the request.
			e := stamp()
			sT := st.sT + time.Duration(maxAttempts-1)*wait/2
			if op.Mirror {
				sT = st.sT
			}
			cands := model.candidates(st.s, sT, e)
			if len(cands) > 1 {
				overlapSeen = true
			}
			note("%s=nosrv@%d", st.name, e)
			r.Eventf("%s not forwarded (result %q status %d)", st.name, result, status)
			ok := false
			for _, g := range cands {
				if g.n == 0 {
					ok = true
				}
				if g.loose && len(static) == 0 {
					// reading "none qualifies": the (empty) static list is the current one
					ok = true
					if g.src == "either" {
						r.Probe("c04.no_server_tags.request_failed_although_instances_reported")
					}
				}
			}
			if !ok {
				r.Violate("C04.no-server-but-list-nonempty", "request %s (pool %s) [%d,%d] was not forwarded (result %q, status %d, mirror=%v, max attempts %d) although no list current during its last attempt was empty; candidates:%s\nhistory: %s",
					st.name, st.pool.name, st.s, e, result, status, op.Mirror, maxAttempts, c04Desc(cands), history())
				return
			}
			noServer = true
			// the statement says "failed", it names no status: any error status with a
			// failure result qualifies (503 today; a change to 502 was a false alarm of the
			// earlier exact comparison, DESIGN §16)
			if !op.Mirror && (status < 400 || result == "") {
				r.Violate("C04.no-server-not-failed", "request %s found no server but the outcome is result %q status %d (expected a failure result with an error status)", st.name, result, status)
			} else if !op.Mirror && status != http.StatusServiceUnavailable {
				r.Probe("c04.no_server.failed_with_other_status")
			}
		}
	}

	doOp := func(name, path string, op c04Op) {
		stdr, err := http.NewRequest(http.MethodGet, "http://gateway.example.com"+path, nil)
		if err != nil {
			return
		}
		ip := op.IP
		if ip == "" {
			ip = "203.0.113.250"
		}
		remote, xreal, xff := ip, "", ""
		switch op.Mode {
		case "xreal":
			remote, xreal = "10.9.9.9", ip
		case "xff":
			remote, xff = "10.9.9.9", ip
		case "xffchain": // the client, then the proxies the request came through
			remote, xff = "10.9.9.9", ip+", 198.51.100.7, 10.0.0.3"
		case "both":
			remote, xreal, xff = "10.9.9.9", ip, ip+", 10.0.0.3"
		}
		stdr.RemoteAddr = net.JoinHostPort(remote, fmt.Sprint(op.Port))
		if xreal != "" {
			stdr.Header.Set("X-Real-Ip", xreal)
		}
		if xff != "" {
			stdr.Header.Set("X-Forwarded-For", xff)
		}
		if op.HasHdr {
			stdr.Header.Set(sc.HashKey, op.Hdr)
		}
		req, err := httpprot.NewRequest(stdr)
		if err != nil {
			return
		}
		ctx := egctx.New(tracing.NoopSpan)
		ctx.SetRequest(egctx.DefaultNamespace, req)

		// the request is served by the generation of the slot's pool that is
		// published now
		slot := op.Slot
		if slot < 0 || slot >= nSlots {
			slot = 0
		}
		pool := slots[slot]
		if pool == nil {
			// the slot's pipeline is deleted at the moment: nobody routes requests to it
			r.Probe("c04.request_skipped_slot_has_no_pool")
			return
		}
		st := &c04Sel{name: name, pool: pool, hold: op.HoldUs, selecting: true, fails: op.Fails, mirror: op.Mirror}
		if st.fails < 0 {
			st.fails = 0
		}
		switch policy {
		case LoadBalancePolicyIPHash:
			st.key = "ip:" + remote + "|" + xreal + "|" + xff
		case LoadBalancePolicyHeaderHash:
			if op.HasHdr {
				st.key = "hdr:" + op.Hdr
			} else {
				st.key = "hdr-absent"
			}
		}
		inflight[path] = st
		pool.selecting++
		open++
		if pool.selecting > maxSelecting {
			maxSelecting = pool.selecting
		}
		if open > maxOpen {
			maxOpen = open
		}
		st.s, st.sT = stamp(), r.Now()
		note("%s:%s+@%d", pool.name, name, st.s)
		r.Eventf("%s start pool=%s mirror=%v fails=%d", name, pool.name, op.Mirror, st.fails)
		if op.Mirror {
			r.Probe("c04.mirror_selection")
		}
		var result string
		var pnc interface{}
		var stack string
		func() {
			defer func() {
				if p := recover(); p != nil {
					pnc = p
					stack = c04Stack()
				}
			}()
			result = pool.sp.handle(ctx, op.Mirror)
		}()
		status := 0
		if pnc == nil && !op.Mirror {
			if resp, ok := ctx.GetOutputResponse().(*httpprot.Response); ok && resp != nil {
				status = resp.StatusCode()
			}
		}
		open--
		delete(inflight, path)
		if r.Violated() {
			return
		}
		if pool.state == c04Closing || pool.state == c04Closed {
			r.Probe("c04.request_outlives_its_pool_generation")
		}
		returned(st, op, result, status, pnc, stack)
		selectionMade(st)
	}

	if watcher {
		// let the watchers' initial events (same list as the synchronous listing) take effect
		if settle(time.Millisecond) {
			r.Probe("c04.watcher_initial_event_settled")
		}
	}

	// --- tasks
	for si := range sc.Selectors {
		si := si
		ops := sc.Selectors[si].Ops
		r.Go(fmt.Sprintf("sel%d", si), func() {
			for oi, op := range ops {
				if r.Violated() || r.Aborted() {
					return
				}
				r.Sleep(time.Duration(op.GapUs) * time.Microsecond)
				if r.Violated() || r.Aborted() {
					return
				}
				doOp(fmt.Sprintf("s%d.%d", si, oi), fmt.Sprintf("/s%d/%d", si, oi), op)
			}
		})
	}
	updOpen := 0
	lastNotified := c04Usable(sc.InitInsts)
	for ui := range updaters {
		ui := ui
		ups := updaters[ui].Updates
		r.Go(fmt.Sprintf("upd%d", ui), func() {
			for k, u := range ups {
				if r.Violated() || r.Aborted() {
					return
				}
				if watcher {
					if !u.Burst || k == 0 {
						if settle(time.Duration(u.GapUs) * time.Microsecond) {
							r.Probe("c04.watcher_settled_mid_run")
						}
					} else {
						r.Probe("c04.watcher_burst_event")
					}
					if r.Violated() || r.Aborted() {
						return
					}
					used := c04Usable(u.Insts)
					if c04Watching(pools) == 0 || !registered {
						if !registered {
							r.Probe("c04.registry_changed_while_driver_unregistered")
						}
						// no driver is registered (it cannot notify anybody), or
						// nobody watches the service at the moment (its only pool was closed and
						// is not re-created yet): the registry's state changes, and whether the
						// controller would still turn a notification into a report is open, so
						// none is sent; the next pool finds the state with its first listing
						if len(fake.pending) == 0 {
							fake.cur, lastNotified = used, used
							note("u%d.%d:unwatched-change@%d", ui, k, stamp())
							r.Eventf("u%d.%d registry changes while nobody watches", ui, k)
							r.Probe("c04.registry_changed_while_unwatched")
						}
						continue
					}
					fake.pending = append(fake.pending, used)
					sentT = append(sentT, r.Now())
					note("u%d.%d:notify#%d@%d", ui, k, len(sentT), stamp())
					r.Eventf("u%d.%d notify #%d burst=%v", ui, k, len(sentT), u.Burst)
					if open > 0 {
						r.Probe("c04.update_while_request_in_flight")
					}
					if creating != nil {
						r.Probe("c04.notify_while_pool_being_created")
					}
					ev := &serviceregistry.RegistryEvent{SourceRegistryName: "c04reg", UseReplace: true, Replace: c04InstMap(used, sc.ServiceName)}
					if u.Incr {
						// the instances that are new or changed / that are gone, relative to the state notified last
						apply, del := c04Diff(lastNotified, used)
						if len(apply)+len(del) > 0 {
							ev = &serviceregistry.RegistryEvent{SourceRegistryName: "c04reg", Apply: c04InstMap(apply, sc.ServiceName), Delete: c04InstMap(del, sc.ServiceName)}
							if len(apply) == 0 {
								ev.Apply = nil
								r.Probe("c04.incremental_event_delete_only")
							}
							if len(del) == 0 {
								ev.Delete = nil
							}
							r.Probe("c04.incremental_event")
						}
					}
					lastNotified = used
					select {
					case fake.notify <- ev:
					default:
						r.Violate("C04.other", "harness: notification channel full")
					}
					continue
				}
				r.Sleep(time.Duration(u.GapUs) * time.Microsecond)
				if r.Violated() || r.Aborted() {
					return
				}
				p := slots[0]
				used := c04Usable(u.Insts)
				insts := c04InstMap(used, sc.ServiceName)
				list, src := p.model.listFor(used)
				g := p.model.newGen(src, list, stamp())
				note("u%d.%d+gen%d(%s,n=%d)@%d", ui, k, g.id, src, g.n, g.start)
				r.Eventf("u%d.%d start gen%d %s n=%d total=%d", ui, k, g.id, src, g.n, g.total)
				if updOpen > 0 {
					r.Probe("c04.concurrent_updates")
				}
				if open > 0 {
					r.Probe("c04.update_while_request_in_flight")
				}
				reportProbes(g, len(used))
				if updOpen == 0 {
					relProbes(p, g, used)
					tagProbes(p, g, used)
					prevInsts = used
				} else {
					prevInsts = nil
				}
				updOpen++
				var pnc interface{}
				func() {
					defer func() {
						if p := recover(); p != nil {
							pnc = p
						}
					}()
					p.sp.useService(insts)
				}()
				updOpen--
				g.installed, g.end, g.endT = true, stamp(), r.Now()
				note("u%d.%d-@%d", ui, k, g.end)
				r.Eventf("u%d.%d end", ui, k)
				if pnc != nil {
					r.Violate("C04.panic", "useService panicked: %v\nhistory: %s", pnc, history())
					return
				}
			}
		})
	}
	if len(reloads) > 0 || (watcher && sc.LateReg) {
		r.Go("life", func() {
			if !registered {
				// start-up order: the driver registers after the pools were created
				r.Sleep(time.Duration(sc.LateUs) * time.Microsecond)
				if r.Violated() || r.Aborted() || cleaned {
					return
				}
				if err := sreg.RegisterRegistry(fake); err != nil {
					r.Violate("C04.other", "harness: late RegisterRegistry: %v", err)
					return
				}
				registered = true
				note("driver-registered@%d", stamp())
				r.Eventf("registry driver registered late")
				r.Probe("c04.driver_registered_after_pools")
			}
			for k, rl := range reloads {
				if r.Violated() || r.Aborted() {
					return
				}
				r.Sleep(time.Duration(rl.GapUs) * time.Microsecond)
				if r.Violated() || r.Aborted() || cleaned {
					return
				}
				slot := rl.Slot
				if slot < 0 || slot >= nSlots {
					slot = 0
				}
				if rl.Rereg {
					// the driver object is reloaded; like the close-first reload only once
					// the registry has caught up with the notifications already sent
					for i := 0; i < 50 && len(sentT) > dispatched && !r.Violated() && !r.Aborted(); i++ {
						r.Sleep(20 * time.Microsecond)
					}
					if len(sentT) > dispatched || r.Violated() || r.Aborted() || cleaned || !registered {
						continue
					}
					registered = false
					note("rereg%d:deregister@%d", k, stamp())
					r.Eventf("reload %d: registry driver deregistered", k)
					var pnc interface{}
					var derr, rerr error
					func() {
						defer func() {
							if x := recover(); x != nil {
								pnc = x
							}
						}()
						derr = sreg.DeregisterRegistry("c04reg")
						if rl.HoldUs >= 0 {
							r.Sleep(time.Duration(rl.HoldUs) * time.Microsecond)
						}
						if !cleaned {
							rerr = sreg.RegisterRegistry(fake)
						}
					}()
					if pnc != nil || derr != nil || rerr != nil {
						r.Violate("C04.other", "reloading the registry driver: panic %v, deregister error %v, register error %v\nhistory: %s", pnc, derr, rerr, history())
						return
					}
					if cleaned {
						return
					}
					registered = true
					note("rereg%d:registered@%d", k, stamp())
					r.Eventf("reload %d: registry driver registered again", k)
					r.Probe("c04.driver_reregistered")
					continue
				}
				old := slots[slot]
				if old == nil {
					continue
				}
				closeOld := func() bool {
					old.state = c04Closing
					var pnc interface{}
					func() {
						defer func() {
							if x := recover(); x != nil {
								pnc = x
							}
						}()
						old.sp.close()
					}()
					old.state = c04Closed
					note("reload%d:%s closed@%d", k, old.name, stamp())
					r.Eventf("reload %d: %s closed", k, old.name)
					if pnc != nil {
						r.Violate("C04.panic", "closing pool %s panicked: %v\nhistory: %s", old.name, pnc, history())
						return false
					}
					return true
				}
				gap := rl.Gap
				if gap {
					// the harness can only tell whether a notification is owed a report
					// if it was sent while a pool was watching and is reported before
					// the last watcher leaves: let the registry catch up first (if it
					// does not, fall back to the create-then-close order)
					for i := 0; i < 50 && len(sentT) > dispatched && !r.Violated() && !r.Aborted(); i++ {
						r.Sleep(20 * time.Microsecond)
					}
					if len(sentT) > dispatched || r.Violated() || r.Aborted() || cleaned || slots[slot] != old {
						gap = false
					}
				}
				if gap {
					note("reload%d:slot%d:close-first@%d", k, slot, stamp())
					r.Eventf("reload %d slot %d: close first", k, slot)
					if old.selecting > 0 {
						r.Probe("c04.reload_while_selection_in_flight")
					}
					slots[slot] = nil
					if !closeOld() {
						return
					}
					r.Probe("c04.pool_closed_before_recreation")
					if c04Watching(pools) == 0 {
						r.Probe("c04.registry_without_any_watcher")
					}
					if rl.HoldUs >= 0 {
						r.Sleep(time.Duration(rl.HoldUs) * time.Microsecond)
					}
					if r.Violated() || r.Aborted() || cleaned {
						return
					}
					np := newPool(slot)
					if np == nil {
						return
					}
					np.afterGap = true
					slots[slot] = np
					note("reload%d:%s recreated@%d", k, np.name, stamp())
					r.Eventf("reload %d: %s published after a gap", k, np.name)
					continue
				}
				note("reload%d:slot%d@%d", k, slot, stamp())
				r.Eventf("reload %d slot %d: create", k, slot)
				np := newPool(slot)
				if np == nil {
					return
				}
				slots[slot] = np
				note("reload%d:%s->%s@%d", k, old.name, np.name, stamp())
				r.Eventf("reload %d: %s published", k, np.name)
				r.Probe("c04.pool_reloaded")
				if nGen[slot] >= 3 {
					r.Probe("c04.pool_reloaded_twice")
				}
				if old.selecting > 0 {
					r.Probe("c04.reload_while_selection_in_flight")
				}
				if len(sentT) > dispatched {
					r.Probe("c04.reload_while_notification_pending")
				}
				if rl.HoldUs >= 0 {
					r.Sleep(time.Duration(rl.HoldUs) * time.Microsecond)
				}
				if cleaned {
					return
				}
				if !closeOld() {
					return
				}
			}
		})
	}
	r.WaitTasks()
	if r.Violated() || r.Aborted() {
		return
	}
	for _, p := range pools {
		if p.selecting != 0 {
			r.Violate("C04.other", "harness accounting: %d selections still marked in flight on pool %s at the end", p.selecting, p.name)
			return
		}
		fairCheck(p, "end of run")
	}

	// --- quiescence: the list in force is the one last reported
	settled := true
	if watcher {
		settled = false
		for i := 0; i < 30 && !settled && !r.Aborted() && !r.Violated(); i++ {
			settled = settle(10 * time.Millisecond)
		}
		if r.Violated() {
			return
		}
		if settled && (len(fake.pending) != 0 || len(fake.notify) != 0) {
			r.Violate("C04.discovery-report-lost", "%d of %d registry notifications were never turned into a report although %d pool(s) watch the service and every goroutine is idle\nhistory: %s",
				len(sentT)-dispatched, len(sentT), c04Watching(pools), history())
			return
		}
	}
	if settled && !r.Aborted() && !r.Violated() {
		r.Probe("c04.final_requests_after_quiescence")
		r.Go("final", func() {
			for s := 0; s < nSlots; s++ {
				for i := 0; i < 2; i++ {
					if r.Violated() || r.Aborted() {
						return
					}
					op := c04Op{IP: "203.0.113.77", Port: 4000 + i, Mode: "remote", HoldUs: -1, Slot: s}
					doOp(fmt.Sprintf("f%d.%d", s, i), fmt.Sprintf("/final/%d/%d", s, i), op)
				}
			}
		})
		r.WaitTasks()
		if r.Violated() || r.Aborted() {
			return
		}
		for _, p := range pools {
			fairCheck(p, "after the final requests")
		}
	}
	if watcher {
		cleanup(true)
		r.Probe("c04.watcher_mode")
	}

	if sc.Retry != nil {
		r.Probe("c04.retry_policy")
	}
	if retryAfterReplacement {
		r.Probe("c04.retry_attempt_after_list_replacement")
	}
	if maxOpen >= 2 {
		r.Probe("c04.concurrent_requests")
	}
	if maxSelecting >= 2 {
		r.Probe("c04.concurrent_selections")
	}
	if overlapSeen {
		r.Probe("c04.request_overlaps_replacement")
	}
	if fairChecked {
		r.Probe("c04.rr_fairness_checked_n>=2_k>=n")
	}
	if stickyRepeated {
		r.Probe("c04.hash_key_repeated_n>=2")
	}
	if zeroWeightMember {
		r.Probe("c04.weighted_selection_with_zero_weight_member")
	}
	if noServer {
		r.Probe("c04.no_server_failure_on_empty_list")
	}
	if weightOnlyServed {
		r.Probe("c04.selection_after_weight_only_report")
	}
	if tagOnlyServed {
		r.Probe("c04.selection_after_tag_only_report")
	}
	if servedAfterReload {
		r.Probe("c04.selection_on_reloaded_pool")
	}
	if servedAfterGap {
		r.Probe("c04.selection_on_pool_recreated_after_gap")
	}
	if reportAfterGapServed {
		r.Probe("c04.selection_after_report_to_pool_recreated_after_gap")
	}
	if reportAfterReloadServed {
		r.Probe("c04.selection_after_report_to_reloaded_pool")
	}
	served := 0
	for _, p := range pools {
		for _, g := range p.model.gens {
			if g.k > 0 {
				served++
			}
		}
	}
	if served >= 2 {
		r.Probe("c04.two_generations_served")
	}
	if fairChecked || stickyRepeated || zeroWeightMember || noServer || served >= 2 || retryAfterReplacement {
		r.Nontrivial()
	}
	var sig strings.Builder
	fmt.Fprintf(&sig, "%s|w=%v|r=%d|", policy, watcher, maxAttempts)
	for _, p := range pools {
		sig.WriteString(p.name + "[")
		for _, g := range p.model.gens {
			fmt.Fprintf(&sig, "%s:%d:%d,", g.src, g.n, g.total)
		}
		sig.WriteString("]")
	}
	for _, h := range hist {
		if i := strings.IndexByte(h, '@'); i > 0 {
			sig.WriteString(h[:i])
			sig.WriteByte(' ')
		}
	}
	r.SetSig(sig.String())
}

// c04Diff splits a registry change into the instances to apply (new or
// changed) and the instances to delete.
func c04Diff(prev, next []c04Inst) (apply, del []c04Inst) {
	was := map[string]c04Inst{}
	for _, in := range prev {
		was[in.ID] = in
	}
	is := map[string]bool{}
	for _, in := range next {
		is[in.ID] = true
		if w, ok := was[in.ID]; !ok || fmt.Sprint(w) != fmt.Sprint(in) {
			apply = append(apply, in)
		}
	}
	for _, in := range prev {
		if !is[in.ID] {
			del = append(del, in)
		}
	}
	return apply, del
}

// c04Watching counts the pools that are registered watchers of the service.
func c04Watching(pools []*c04Pool) int {
	n := 0
	for _, p := range pools {
		if p.state == c04Live {
			n++
		}
	}
	return n
}

func c04Stack() string {
	buf := make([]byte, 16<<10)
	n := runtime.Stack(buf, false)
	lines := strings.Split(string(buf[:n]), "\n")
	var out []string
	for _, l := range lines {
		if strings.Contains(l, "easegress/pkg/") || strings.Contains(l, "math/rand") || strings.Contains(l, "simrand") {
			out = append(out, strings.TrimSpace(l))
		}
		if len(out) >= 24 {
			break
		}
	}
	return "stack: " + strings.Join(out, " | ")
}

func TestVerifC04(t *testing.T) {
	logger.InitNop()
	hdrv.Main(t, &hdrv.Harness{
		ID:       "C04",
		Gen:      c04Gen,
		New:      func() interface{} { return &c04Scenario{} },
		Exec:     c04Exec,
		MaxSteps: 30000,
		Rule: "scenario = drawn policy (5 policies + omitted), static list of 0-8 servers (weights all zero / equal / distinct), 0-4 discovery updates (0-8 instances, tagged or not, weights incl. zero, addresses fresh or shared between versions) issued by 1-2 updater tasks, " +
			"and 1-6 selector tasks issuing 4-200 requests (client IP by RemoteAddr/X-Real-Ip/X-Forwarded-For, hash header, mirror flag, hold inside the transport); " +
			"25% of the scenarios put a Retry policy (2-4 attempts, 1-20 ms wait) on the pool and script 1..max failing transport calls per request with list replacements landing between attempts; 45% of the discovery scenarios are report sequences that keep the instance URLs and change only weights (to/from 0) and tags (instances losing/gaining a serverTag); 42% of the discovery scenarios feed the instance maps through the real ServiceRegistry (Replace or incremental Apply/Delete notifications, bursts of back-to-back notifications, scripted listing errors) and the pools' own watchServers goroutines, of these 35% with a second pool watching the same service and 55% with 1-4 hot reloads (next pool generation created and published, then the old one closed; 35% of them in the other order: old one closed, gap with no pool, next one created) interleaved with the reports, 8% with the registry driver registered only after the pools exist and 11% of the lifecycle steps a deregister/re-register of the driver; 5% of the discovery scenarios have pools without serverTags; static URLs are IPv4:port, host names with/without port, IPv6 literals, https; instances may have IPv6 addresses and weights up to 10^6; clients are IPv4/IPv6 behind RemoteAddr, X-Real-Ip, X-Forwarded-For (also chains, also both headers); two requests per slot are issued after quiescence; " +
			"non-trivial = a policy rule was really exercised (a retry attempt forwarded after a list replacement, roundRobin fairness on a list of >=2 servers with k>=n, a repeated hash key on >=2 servers, a weighted choice with a zero-weight member, a no-server failure on an empty list, or two generations that both served requests); " +
			"distinct = distinct (policy, generation shapes, start/end/outcome event order) signatures",
		Real: []string{"pkg/filters/proxy ServerPool (NewServerPool, createLoadBalancer, useService, handle, doHandle, handleMirror, buildResponse)", "pkg/filters/proxy five LoadBalancer implementations + NewLoadBalancer", "ServerPoolSpec.Validate", "ServerPool.watchServers + its goroutine, ServerPool.close, InjectResiliencePolicy (several pool objects per run: two slots, successive generations)", "pkg/resilience RetryPolicy (NewPolicy, Wrap)", "pkg/object/serviceregistry ServiceRegistry (RegisterRegistry, watchRegistry, NewServiceWatcher, serviceWatcher.Stop, dispatch of Replace/Apply/Delete events to all watchers of the service, ListServiceInstances)", "pkg/context, pkg/protocols/httpprot request/response objects"},
		Stub: []string{"transport: fnSendRequest replaced by a recorder that answers 200 with an empty body", "direct mode: updater tasks call sp.useService themselves; watcher mode: a fake registry driver (c04Registry) behind the real ServiceRegistry, supervisor mock holding it", "retry.go time.After -> simtime (timeshim)", "google/uuid randomness -> per-run counter (uuid.SetRand) so that watcher ids replay", "hot reload = NewServerPool + publish + old.close() done by the harness (no Pipeline / Proxy object)", "sync/atomic -> simatomic, math/rand -> simrand (same semantics + gates / taped draws)"},
		Assumptions: []string{
			"a request overlapping a list replacement may be served from the old or the new list; overlapping useService calls may take effect in either order",
			"fairness is evaluated per balancer generation at instants with no selection between handle() entry and the transport call, requests that may belong to two generations count as optional for both",
			"equal ipHash key = equal (remote IP, X-Real-Ip, X-Forwarded-For) triple; equal headerHash key = equal value of the configured header; no spread/distribution requirement is asserted",
			"static servers carry a tag matching serverTags; serverTags non-empty whenever discovery is used; URLs unique within a list; weights >= 0; specs rejected by Validate are not run",
			"a retry attempt begins after the previous transport call returned and not before half the configured waitDuration later; on persistent failure the reported failure is the last of maxAttempts attempts",
			"watcher mode: reports take effect in report order; a report is known to be in force only after virtual time passed without scheduler stalls (all goroutines idle); a fake registry shows its k-th state to the k-th listing made for a notification",
			"the order of a discovered list depends on Go map iteration in useService; no event or rule depends on it",
			"a pool object has to follow every report made from the moment its own watcher exists (at the latest from the return of NewServerPool) until close() is called; reports made while close() runs may or may not be applied; a request is judged against the pool generation that was published when it started",
			"a report is in force in every watching pool once virtual time has passed after it without a scheduler stall; a notification sent at an earlier virtual instant must have become a report by then (C04.discovery-report-lost otherwise); at most 8 notifications per run (a watcher queue holds 10 events)",
			"close-then-create reloads start only after every notification already sent has been reported; while no pool watches the service the registry state changes without notification; a pool that did not ask the registered driver at creation is expected to serve the registry's current instances",
			"pools without serverTags: both readings (static list only / every reported instance) are accepted, the list is their union, fairness and zero-weight rules are not applied, a no-server failure is accepted iff the static list is empty",
			"server identity is scheme://host:port compared modulo the brackets of an IPv6 literal (ServiceInstanceSpec.URL() does not bracket; Go's client still reaches the instance)",
			"while no registry driver is registered nothing can be reported: a pool created then is on its static list; deregistering the driver starts only after all notifications sent so far were reported; the controller's listing at deregistration is a report",
			"a failed listing is no report: synchronous first listing failed = static list, listing for a notification failed = every pool keeps the list reported last",
			"ipHash/headerHash stickiness is asserted within one report's balancer generation only; a key that moves after a report repeating the identical list is recorded as a probe, not a violation",
		},
	})
}
