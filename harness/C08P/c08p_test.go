//go:debug asynctimerchan=0
//go:build go1.21

package proxy

// C08P — last sentence of property C08, seen from the Proxy: "the Proxy reports
// a short-circuited call as 503 with result shortCircuited without contacting
// any server" (sub-harness of C08; violation classes C08.proxy-*).
//
// System under test: the real ServerPool (NewServerPool, InjectResiliencePolicy,
// handle, doHandle, buildFailureResponse) with a real CircuitBreakerPolicy built
// by resilience.NewPolicy (small COUNT_BASED window so that it opens quickly) and
// the real libcb.CircuitBreaker, driven by 1-4 concurrent caller tasks on the
// virtual clock with BUFFERED and STREAM requests (payload fetched with a negative
// max size: req.IsStream() is true). No retry policy, no pool timeout. The only
// stub is the transport (fnSendRequest): it counts calls per request, holds the
// request for a scripted time and answers 200, a failure code or a network error.
//
// A scenario has one pool, or two pools (main + candidate pool of one Proxy, or
// the main pools of two Proxy filters) that reference the same
// circuitBreakerPolicy and are injected from the SAME policies map (one
// resilience.Policy object per name, as Pipeline.reload does); every call names
// its pool, outcomes are scripted per call, all bookkeeping below is per pool.
//
// Oracle. The harness reads the real breaker's State() (atomic between scheduler
// gates) before every call, at every transport entry/exit and after every return,
// and remembers `lastNonOpen`, the latest instant at which it saw a state other
// than OPEN. Whenever it sees OPEN, the current OPEN episode began after
// lastNonOpen, so the breaker stays OPEN at least until lastNonOpen +
// waitDurationInOpenState ("certainly open").
//
//   C08.proxy-open-reaches-backend       a call that was started while the breaker was seen OPEN reached
//                                        the transport before lastNonOpen + waitDurationInOpenState
//   C08.proxy-shortcircuit-not-503       result shortCircuited without a 503 response
//   C08.proxy-shortcircuit-contacts-server  result shortCircuited although the transport was called
//   C08.proxy-not-forwarded-wrong-result a call that never reached the transport (the only possible
//                                        reason here is the breaker) is not reported as shortCircuited/503
//   C08.proxy-shortcircuit-while-closed  a call was short-circuited although the breaker was seen CLOSED
//                                        before and after it and no other call left the transport in
//                                        between (no result can have been recorded)
//   C08.proxy-breaker-shared-across-pools  (scenarios with two pools) a pool answered shortCircuited although
//                                        fewer than minimumNumberOfCalls of ITS OWN calls have left the transport,
//                                        or none of them failed: its breaker cannot have opened from its own
//                                        history, while the OTHER pool's history could have opened one (otherwise,
//                                        and with one pool, the same situation is ...-shortcircuit-while-closed)
//   C08.proxy-admitted-not-once          an admitted call reached the transport more than once (there is
//                                        no retry policy) or its outcome is not the transport's
//   C08.proxy-panic                      a panic escaped ServerPool.handle
//
// x-C08 widening: the pool's failureCodes list is drawn ([503], [500 503 504],
// [500], [] ...) and the backend answers any of 200/404/500/502/503/504: a status
// that is NOT listed is a success for the breaker (docs: "failed means that backend
// filter returns non-empty results") and is relayed with result ""; the pool may
// have 1-3 static servers ("without contacting ANY server") and a pool `timeout`
// (a backend that hangs or answers too late makes the call fail with a non-empty
// result other than shortCircuited — C10 owns the exact 408/timeout mapping — and
// counts as a failed call of the pool).
//
// Leniency: nothing is asserted about *which* calls are admitted in HALF_OPEN or
// when the breaker trips (that is C08 proper); a call overlapping the end of the
// open wait may go either way; at exactly lastNonOpen + wait both answers are
// accepted.

import (
	stdcontext "context"
	"errors"
	"fmt"
	"io"
	"net/http"
	"runtime"
	"strings"
	"testing"
	"time"

	egctx "github.com/megaease/easegress/pkg/context"
	"github.com/megaease/easegress/pkg/logger"
	"github.com/megaease/easegress/pkg/protocols/httpprot"
	"github.com/megaease/easegress/pkg/resilience"
	"github.com/megaease/easegress/pkg/tracing"
	libcb "github.com/megaease/easegress/pkg/util/circuitbreaker"
	"verif/simkit/hdrv"
	"verif/simkit/sim"
)

type c08pOp struct {
	GapUs   int64  `json:"gap_us"`
	Stream  bool   `json:"stream"`
	BodyLen int    `json:"body_len"`
	Outcome string `json:"outcome"` // ok | failcode (503) | neterr | code (answers status Code) | hang (never answers; needs a pool timeout)
	Code    int    `json:"code,omitempty"`
	Pool    int    `json:"pool"`    // 0 | 1 (only meaningful with two pools)
	DurUs   int64  `json:"dur_us"`
}

type c08pCaller struct {
	Ops []c08pOp `json:"ops"`
}

type c08pScenario struct {
	FailPct   int          `json:"fail_pct"`
	Window    int          `json:"window"`
	MinCalls  int          `json:"min_calls"`
	Permitted int          `json:"permitted"`
	WaitMs    int64        `json:"wait_ms"`
	Pools     int          `json:"pools"`       // 1, or 2 pools injected from the SAME policies map
	TwoProxy  bool         `json:"two_proxies"` // two pools: main pools of two Proxy filters (else main + candidate pool of one Proxy)
	// FailCodes: the pools' failureCodes; CodesSet false = the historical [503]
	FailCodes []int `json:"fail_codes,omitempty"`
	CodesSet  bool  `json:"codes_set,omitempty"`
	Servers   int   `json:"servers,omitempty"`    // static servers per pool (0 = 1)
	TimeoutMs int64 `json:"timeout_ms,omitempty"` // pool timeout (0 = none)
	Callers   []c08pCaller `json:"callers"`
}

func c08pGen(rng *sim.Rand, tier string) interface{} {
	sc := &c08pScenario{}
	sc.FailPct = rng.Pick(1, 34, 50, 67, 100)
	sc.Window = rng.Range(1, 6)
	sc.MinCalls = rng.Range(1, sc.Window)
	sc.Permitted = rng.Range(1, 3)
	sc.WaitMs = int64(rng.Pick(50, 1000, 1000, 10000, 86400000, 86400000))
	nc := rng.Range(1, 4)
	total := rng.Range(4, 30)
	failBias := rng.Pick(30, 60, 90, 100)
	sc.Pools = rng.Pick(1, 2, 2)
	sc.TwoProxy = rng.Bool(0.5)
	// with two pools the second one is often perfectly healthy
	failBias1 := rng.Pick(0, 0, 0, 10, failBias)
	share1 := rng.Pick(20, 50, 50, 80)
	streamPct := rng.Pick(0, 20, 50, 50, 100)
	codePct := 0
	if rng.Bool(0.5) {
		sc.CodesSet = true
		switch rng.Intn(5) {
		case 0:
			sc.FailCodes = []int{503}
		case 1:
			sc.FailCodes = []int{500, 503, 504}
		case 2:
			sc.FailCodes = []int{500}
		case 3:
			sc.FailCodes = []int{502, 504, 404}
		default:
			sc.FailCodes = nil // no failure codes at all: only network errors fail
		}
		codePct = rng.Pick(30, 60, 100)
	}
	sc.Servers = rng.Pick(1, 1, 2, 3)
	hangPct := 0
	if rng.Bool(0.3) {
		sc.TimeoutMs = int64(rng.Pick(1, 50, 1000, 5000))
		hangPct = rng.Pick(0, 20, 50)
	}
	sc.Callers = make([]c08pCaller, nc)
	gaps := []int64{0, 0, 0, 1, 1000, 100000, sc.WaitMs * 1000 / 2, sc.WaitMs*1000 - 1, sc.WaitMs * 1000, sc.WaitMs*1000 + 1}
	if sc.WaitMs > 100000 {
		gaps = []int64{0, 0, 0, 1, 1000, 100000, 1000000, 60000000}
	}
	for k := 0; k < total; k++ {
		op := c08pOp{GapUs: gaps[rng.Intn(len(gaps))], BodyLen: rng.Pick(0, 3, 3, 64)}
		if rng.Intn(100) < streamPct {
			op.Stream = true
			if op.BodyLen == 0 {
				op.BodyLen = 9
			}
		}
		fb := failBias
		if sc.Pools == 2 && rng.Intn(100) < share1 {
			op.Pool = 1
			fb = failBias1
		}
		switch x := rng.Intn(100); {
		case x >= fb:
			op.Outcome = "ok"
		case rng.Bool(0.5):
			op.Outcome = "failcode"
		default:
			op.Outcome = "neterr"
		}
		if codePct > 0 && rng.Intn(100) < codePct {
			// any status, listed as a failure code or not
			op.Outcome, op.Code = "code", rng.Pick(200, 404, 500, 502, 503, 504)
			if x := rng.Intn(100); x < fb && len(sc.FailCodes) > 0 {
				op.Code = sc.FailCodes[rng.Intn(len(sc.FailCodes))]
			}
		}
		op.DurUs = int64(rng.Pick(0, 0, 1, 100, 10000, 1000000))
		if sc.TimeoutMs > 0 {
			op.DurUs = int64(rng.Pick(0, 0, 1, 100, int(sc.TimeoutMs*500), int(sc.TimeoutMs*1000-1), int(sc.TimeoutMs*1000+1), int(sc.TimeoutMs*3000)))
			if rng.Intn(100) < hangPct {
				op.Outcome = "hang"
			}
		}
		c := rng.Intn(nc)
		sc.Callers[c].Ops = append(sc.Callers[c].Ops, op)
	}
	return sc
}

type c08pCall struct {
	name       string
	stream     bool
	startAt    time.Duration
	seenOpen   bool          // breaker seen OPEN just before the call
	openUntil  time.Duration // ... and certainly OPEN before this instant
	seenClosed bool          // breaker seen CLOSED just before the call
	exitsAt    int           // transport exits (by any call) counted at the start
	pool       int
	quietStart bool // no other call was between transport exit and return at the start
	op         c08pOp
	sends      int
	outcome    string // what the transport did: ok | code | neterr | timeout | cancelled
	code       int
	failed     bool // ... and whether that is a failed call by the pool's failureCodes
}

var c08pErrNet = errors.New("c08p transport: connection refused")

func c08pExec(r *sim.Run, sci interface{}) {
	sc := sci.(*c08pScenario)
	n := 0
	for _, c := range sc.Callers {
		n += len(c.Ops)
	}
	if n == 0 || sc.Window < 1 || sc.MinCalls < 1 || sc.MinCalls > sc.Window || sc.FailPct < 1 || sc.FailPct > 100 || sc.Permitted < 1 || sc.WaitMs < 1 {
		return
	}
	wait := time.Duration(sc.WaitMs) * time.Millisecond
	pol, err := resilience.NewPolicy(map[string]interface{}{"kind": "CircuitBreaker", "name": "c08pcb", "slidingWindowType": "COUNT_BASED",
		"failureRateThreshold": sc.FailPct, "slowCallRateThreshold": 100, "slidingWindowSize": sc.Window,
		"minimumNumberOfCalls": sc.MinCalls, "permittedNumberOfCallsInHalfOpenState": sc.Permitted,
		"slowCallDurationThreshold": "24h", "waitDurationInOpenState": fmt.Sprintf("%dms", sc.WaitMs)})
	if err != nil {
		r.Violate("C08.proxy-other", "circuit breaker policy rejected: %v", err)
		return
	}
	failCodes := []int{503}
	if sc.CodesSet {
		failCodes = nil
		for _, c := range sc.FailCodes {
			if c >= 100 && c <= 599 {
				failCodes = append(failCodes, c)
			}
		}
	}
	isFailCode := func(code int) bool {
		for _, c := range failCodes {
			if c == code {
				return true
			}
		}
		return false
	}
	nServers := sc.Servers
	if nServers < 1 || nServers > 8 {
		nServers = 1
	}
	mkSpec := func(net int) *ServerPoolSpec {
		sp := &ServerPoolSpec{FailureCodes: append([]int(nil), failCodes...), CircuitBreakerPolicy: "c08pcb"}
		for i := 0; i < nServers; i++ {
			sp.Servers = append(sp.Servers, &Server{URL: fmt.Sprintf("http://10.1.%d.%d:8080", net, i+1)})
		}
		if sc.TimeoutMs > 0 {
			sp.Timeout = fmt.Sprintf("%dms", sc.TimeoutMs)
		}
		return sp
	}
	spec := mkSpec(0)
	if spec.Validate() != nil {
		return
	}
	saved := fnSendRequest
	defer func() { fnSendRequest = saved }()

	// one Policy object per name, handed to every filter / pool, as Pipeline.reload does
	policies := map[string]resilience.Policy{"c08pcb": pol}
	nPools := 1
	if sc.Pools == 2 {
		nPools = 2
	}
	var pools []*ServerPool
	px := &Proxy{spec: &Spec{}}
	px.mainPool = NewServerPool(px, spec, "c08ppool0")
	pools = append(pools, px.mainPool)
	if nPools == 2 {
		spec1 := mkSpec(1)
		if sc.TwoProxy {
			px1 := &Proxy{spec: &Spec{}}
			px1.mainPool = NewServerPool(px1, spec1, "c08ppool1")
			pools = append(pools, px1.mainPool)
			px.InjectResiliencePolicy(policies)
			px1.InjectResiliencePolicy(policies)
		} else {
			px.candidatePools = []*ServerPool{NewServerPool(px, spec1, "c08ppool1")}
			pools = append(pools, px.candidatePools[0])
			px.InjectResiliencePolicy(policies)
		}
	} else {
		px.InjectResiliencePolicy(policies)
	}
	var brk []interface{ State() libcb.State }
	for _, sp := range pools {
		b, ok := sp.circuitBreakerWrapper.(interface{ State() libcb.State })
		if !ok {
			r.Violate("C08.proxy-other", "harness: the pool's circuit breaker wrapper (%T) does not expose State()", sp.circuitBreakerWrapper)
			return
		}
		brk = append(brk, b)
	}

	var hist []string
	note := func(format string, a ...interface{}) {
		s := fmt.Sprintf(format, a...)
		r.Eventf("%s", s)
		if len(hist) < 500 {
			hist = append(hist, fmt.Sprintf("%s@%v", s, r.Now()))
		}
	}
	history := func() string {
		h := hist
		if len(h) > 70 {
			h = h[len(h)-70:]
		}
		return strings.Join(h, " | ")
	}
	describe := func() string {
		return fmt.Sprintf("servers/pool=%d failureCodes=%v poolTimeout=%dms pools=%d (two proxies: %v, one policy object injected into all) breaker: COUNT_BASED window=%d minCalls=%d failureRate=%d%% permittedInHalfOpen=%d waitDurationInOpenState=%v", nServers, failCodes, sc.TimeoutMs, nPools, sc.TwoProxy && nPools == 2, sc.Window, sc.MinCalls, sc.FailPct, sc.Permitted, wait)
	}

	// all breaker bookkeeping is per pool (each pool must have its own breaker)
	lastNonOpen := make([]time.Duration, nPools) // created CLOSED at simulated time 0
	observe := func(p int) libcb.State {
		s := brk[p].State()
		if s != libcb.StateOpen {
			lastNonOpen[p] = r.Now()
		}
		return s
	}
	// postExit: calls that left the transport and have not yet returned from handle() (their
	// result may still be waiting to be recorded)
	transportExits, postExit := make([]int, nPools), make([]int, nPools)
	failedExits := make([]int, nPools) // own calls that left the transport with a failing outcome
	totalSends := 0
	var sawCleanPoolServed bool
	inflight := map[string]*c08pCall{}
	var sawShort, sawShortStream, sawHalfOpen, sawReopen bool
	var sawUnlisted, sawOtherFailCode, sawTimeout, sawShortAfterTimeout bool
	timeouts := 0
	serversHit := map[string]bool{}
	opened := 0

	fnSendRequest = func(hr *http.Request, _ *http.Client) (*http.Response, error) {
		st := inflight[hr.URL.Path]
		if st == nil {
			r.Violate("C08.proxy-other", "transport called for unknown request %s", hr.URL.String())
			return nil, c08pErrNet
		}
		st.sends++
		totalSends++
		if hr.Body != nil {
			io.Copy(io.Discard, hr.Body)
		}
		state := observe(st.pool)
		note("%s send#%d [%v]", st.name, st.sends, state)
		if !r.Violated() {
			switch {
			case st.seenOpen && r.Now() < st.openUntil:
				r.Violate("C08.proxy-open-reaches-backend", "call %s (stream=%v) was started at %v while the breaker was OPEN (no other state seen since %v, so OPEN at least until %v), yet it reached the transport at %v; transport calls so far %d\n%s\nhistory: %s",
					st.name, st.stream, st.startAt, st.openUntil-wait, st.openUntil, r.Now(), totalSends, describe(), history())
			case st.sends > 1:
				r.Violate("C08.proxy-admitted-not-once", "call %s reached the transport %d times (no retry policy)\n%s\nhistory: %s", st.name, st.sends, describe(), history())
			}
		}
		serversHit[fmt.Sprintf("p%d|%s", st.pool, hr.URL.Host)] = true
		d := time.Duration(st.op.DurUs) * time.Microsecond
		st.outcome, st.code = st.op.Outcome, 200
		switch st.outcome {
		case "failcode":
			st.outcome, st.code = "code", 503
		case "code":
			st.code = st.op.Code
			if st.code < 200 || st.code > 599 {
				st.code = 200
			}
		case "ok", "neterr", "hang":
		default:
			st.outcome = "ok"
		}
		// a pool timeout: the request's context carries the deadline; a backend that hangs or
		// answers too late is cut off by it, as a real transport would be
		qctx := hr.Context()
		if dl, ok := qctx.Deadline(); ok {
			if rem := time.Until(dl); st.outcome == "hang" || d >= rem {
				if st.outcome == "hang" {
					r.Fault("c08p.backend_hangs")
				} else {
					r.Fault("c08p.backend_answers_after_pool_timeout")
				}
				d = rem + time.Microsecond
				if d < 0 {
					d = 0
				}
			}
		} else if st.outcome == "hang" {
			st.outcome = "neterr" // no timeout configured: the connection breaks instead
		}
		if !r.Violated() && !r.Aborted() {
			r.Sleep(d)
		}
		if err := qctx.Err(); err == stdcontext.Canceled {
			// no client ever goes away here: only the pool timeout may end a request's context
			st.outcome = "cancelled"
		} else if err != nil {
			st.outcome = "timeout"
			timeouts++
			sawTimeout = true
		} else if st.outcome == "hang" {
			st.outcome = "neterr"
		}
		st.failed = st.outcome == "neterr" || st.outcome == "timeout" || st.outcome == "cancelled" || (st.outcome == "code" && isFailCode(st.code))
		observe(st.pool)
		transportExits[st.pool]++
		postExit[st.pool]++
		if st.failed {
			failedExits[st.pool]++
		}
		switch st.outcome {
		case "timeout", "cancelled":
			return nil, qctx.Err()
		case "neterr":
			return nil, c08pErrNet
		}
		return &http.Response{StatusCode: st.code, Header: http.Header{}, Body: http.NoBody}, nil
	}

	for ci := range sc.Callers {
		ci := ci
		ops := sc.Callers[ci].Ops
		r.Go(fmt.Sprintf("caller%d", ci), func() {
			for oi, op := range ops {
				if r.Violated() || r.Aborted() {
					return
				}
				if op.GapUs < 0 {
					op.GapUs = 0
				}
				if op.DurUs < 0 {
					op.DurUs = 0
				}
				r.Sleep(time.Duration(op.GapUs) * time.Microsecond)
				if r.Violated() || r.Aborted() {
					return
				}
				pi := 0
				if nPools == 2 && op.Pool == 1 {
					pi = 1
				}
				sp := pools[pi]
				name := fmt.Sprintf("c%d.%d/p%d", ci, oi, pi)
				path := fmt.Sprintf("/c%d/%d", ci, oi)
				if op.BodyLen < 0 || op.BodyLen > 1<<16 {
					op.BodyLen = 0
				}
				var body io.Reader
				if op.BodyLen > 0 {
					body = strings.NewReader(strings.Repeat("s", op.BodyLen))
				}
				stdr, err := http.NewRequestWithContext(stdcontext.Background(), http.MethodPost, "http://gateway.example.com"+path, body)
				if err != nil {
					return
				}
				stdr.RemoteAddr = "203.0.113.9:40000"
				if stdr.Body == nil {
					stdr.Body = http.NoBody // as on a server-side request (a shrunk scenario may have a stream with no bytes)
				}
				req, err := httpprot.NewRequest(stdr)
				if err != nil {
					return
				}
				if op.Stream {
					err = req.FetchPayload(-1)
				} else {
					err = req.FetchPayload(0)
				}
				if err != nil || req.IsStream() != op.Stream {
					return
				}
				ctx := egctx.New(tracing.NoopSpan)
				ctx.SetRequest(egctx.DefaultNamespace, req)

				st := &c08pCall{name: name, op: op, pool: pi, stream: op.Stream, startAt: r.Now(), exitsAt: transportExits[pi], quietStart: postExit[pi] == 0}
				inflight[path] = st
				s0 := observe(pi)
				switch s0 {
				case libcb.StateOpen:
					st.seenOpen, st.openUntil = true, lastNonOpen[pi]+wait
				case libcb.StateClosed:
					st.seenClosed = true
				case libcb.StateHalfOpen:
					sawHalfOpen = true
				}
				note("%s call stream=%v [%v]", name, op.Stream, s0)
				var result string
				var pnc interface{}
				var stack string
				func() {
					defer func() {
						if p := recover(); p != nil {
							pnc = p
							stack = c08pStack()
						}
					}()
					result = sp.handle(ctx, false)
				}()
				s1 := observe(pi)
				postExit[pi] -= st.sends
				exitsByOthers := transportExits[pi] - st.exitsAt - st.sends
				delete(inflight, path)
				status, hasResp := 0, false
				if pnc == nil {
					if resp, ok := ctx.GetOutputResponse().(*httpprot.Response); ok && resp != nil {
						hasResp, status = true, resp.StatusCode()
					}
				}
				note("%s return result=%q status=%d sends=%d [%v]", name, result, status, st.sends, s1)
				if s1 == libcb.StateOpen && s0 != libcb.StateOpen {
					opened++
					if opened >= 2 {
						sawReopen = true
					}
				}
				switch {
				case r.Violated():
				case pnc != nil:
					r.Violate("C08.proxy-panic", "call %s: ServerPool.handle panicked: %v\n%s\n%s\nhistory: %s", name, pnc, stack, describe(), history())
				case result == "shortCircuited" && st.sends > 0:
					r.Violate("C08.proxy-shortcircuit-contacts-server", "call %s (stream=%v) is reported shortCircuited but the transport was called %d time(s)\n%s\nhistory: %s", name, op.Stream, st.sends, describe(), history())
				case result == "shortCircuited" && (!hasResp || status != http.StatusServiceUnavailable):
					r.Violate("C08.proxy-shortcircuit-not-503", "call %s (stream=%v) is reported shortCircuited with status %d (response present: %v), expected 503\n%s\nhistory: %s", name, op.Stream, status, hasResp, describe(), history())
				case st.sends == 0 && result != "shortCircuited":
					r.Violate("C08.proxy-not-forwarded-wrong-result", "call %s (stream=%v) never reached the transport (breaker %v before, %v after) but is reported as result %q status %d instead of shortCircuited / 503\n%s\nhistory: %s",
						name, op.Stream, s0, s1, result, status, describe(), history())
				case st.sends == 0 && (transportExits[pi] < sc.MinCalls || failedExits[pi] == 0):
					// opening needs >= minimumNumberOfCalls recorded results with at least one failure
					// (slow calls are impossible: threshold 24h); results are recorded after the transport
					cls, other := "C08.proxy-shortcircuit-while-closed", ""
					if nPools == 2 {
						o := 1 - pi
						if transportExits[o]+transportExits[pi] >= sc.MinCalls && failedExits[o] > 0 {
							// only a window that also holds the other pool's results can explain an open breaker
							cls = "C08.proxy-breaker-shared-across-pools"
						}
						other = fmt.Sprintf("; the OTHER pool p%d has %d completed transport call(s), %d failed", o, transportExits[o], failedExits[o])
					}
					r.Violate(cls, "call %s (stream=%v) on pool p%d was short-circuited although only %d call(s) of this pool have left the transport so far, %d of them failed (opening needs >= %d results with at least one failure)%s\n%s\nhistory: %s",
						name, op.Stream, pi, transportExits[pi], failedExits[pi], sc.MinCalls, other, describe(), history())
				case st.sends == 0 && st.seenClosed && s1 == libcb.StateClosed && exitsByOthers == 0 && st.quietStart:
					r.Violate("C08.proxy-shortcircuit-while-closed", "call %s (stream=%v) was short-circuited although the breaker was CLOSED before and after it and no other call left the transport in between\n%s\nhistory: %s", name, op.Stream, describe(), history())
				case st.sends == 1 && st.outcome == "cancelled":
					r.Violate("C08.proxy-admitted-not-once", "call %s was admitted but its request context was cancelled (not timed out) while the transport held it, although no client went away; result %q status %d\n%s\nhistory: %s", name, result, status, describe(), history())
				case st.sends == 1 && st.outcome == "timeout":
					// cut off by the pool timeout: a failed call (C10 owns the exact 408 / timeout mapping)
					if result == "" || result == "shortCircuited" || !hasResp || status < 400 {
						r.Violate("C08.proxy-admitted-not-once", "call %s was admitted and cut off by the pool timeout, but the pool reports result %q status %d (expected a failure result)\n%s\nhistory: %s", name, result, status, describe(), history())
					}
				case st.sends == 1:
					want, wantStatus := "", st.code
					switch {
					case st.outcome == "code" && st.failed:
						want = "failureCode"
					case st.outcome == "neterr":
						want, wantStatus = "serverError", 503
					}
					if result != want || !hasResp || status != wantStatus {
						r.Violate("C08.proxy-admitted-not-once", "call %s was admitted, the transport answered %q (status %d, failureCodes %v), but the pool reports result %q status %d (expected %q / %d)\n%s\nhistory: %s", name, st.outcome, st.code, failCodes, result, status, want, wantStatus, describe(), history())
					}
					if st.outcome == "code" && !st.failed && st.code >= 400 && !r.Violated() {
						sawUnlisted = true
					}
					if st.outcome == "code" && st.failed && st.code != 503 && !r.Violated() {
						sawOtherFailCode = true
					}
				}
				if nPools == 2 && st.sends == 1 && failedExits[pi] == 0 && failedExits[1-pi] > 0 && brk[1-pi].State() == libcb.StateOpen {
					sawCleanPoolServed = true
				}
				if st.sends == 0 && !r.Violated() {
					sawShort = true
					if op.Stream {
						sawShortStream = true
					}
					if timeouts > 0 {
						sawShortAfterTimeout = true
					}
					if st.seenOpen && r.Now() < st.openUntil {
						r.Probe("c08p.shortcircuit_while_certainly_open")
					}
				}
			}
		})
	}
	r.WaitTasks()
	if r.Violated() || r.Aborted() {
		return
	}
	probe := func(b bool, name string) {
		if b {
			r.Probe(name)
		}
	}
	probe(sawShort, "c08p.short_circuited")
	probe(sawShortStream, "c08p.short_circuited_stream_request")
	probe(sawHalfOpen, "c08p.call_started_in_half_open")
	probe(sawReopen, "c08p.opened_twice")
	probe(len(sc.Callers) >= 2, "c08p.concurrent_callers")
	probe(nPools == 2, "c08p.two_pools_one_policy_object")
	probe(sawCleanPoolServed, "c08p.clean_pool_served_while_other_pool_open")
	probe(sawUnlisted, "c08p.unlisted_error_status_relayed_as_success")
	probe(sawOtherFailCode, "c08p.failure_code_other_than_503")
	probe(sc.CodesSet && len(failCodes) == 0, "c08p.no_failure_codes_configured")
	probe(sawTimeout, "c08p.pool_timeout_cut_off_a_call")
	probe(sawShortAfterTimeout, "c08p.short_circuited_after_timeouts")
	probe(nServers >= 2 && len(serversHit) > nPools, "c08p.several_servers_of_a_pool_contacted")
	if sawShort {
		r.Nontrivial()
	}
	var sig strings.Builder
	fmt.Fprintf(&sig, "%d/%v|%d/%d/%d/%d/%d|%v/%d/%d|", nPools, sc.TwoProxy, sc.FailPct, sc.Window, sc.MinCalls, sc.Permitted, sc.WaitMs, failCodes, nServers, sc.TimeoutMs)
	for _, h := range hist {
		if i := strings.IndexByte(h, '@'); i > 0 {
			sig.WriteString(h[:i])
			sig.WriteByte(';')
		}
	}
	r.SetSig(sig.String())
}

func c08pStack() string {
	buf := make([]byte, 8<<10)
	n := runtime.Stack(buf, false)
	var out []string
	for _, l := range strings.Split(string(buf[:n]), "\n") {
		if strings.Contains(l, "easegress/pkg/") {
			out = append(out, strings.TrimSpace(l))
		}
		if len(out) >= 14 {
			break
		}
	}
	return "stack: " + strings.Join(out, " | ")
}

func TestVerifC08P(t *testing.T) {
	logger.InitNop()
	hdrv.Main(t, &hdrv.Harness{
		ID:       "C08P",
		Gen:      c08pGen,
		New:      func() interface{} { return &c08pScenario{} },
		Exec:     c08pExec,
		MaxSteps: 30000,
		Rule: "scenario = one pool, or two pools (main+candidate of one Proxy / two Proxies) injected from the same policies map, the second often perfectly healthy; drawn COUNT_BASED breaker (window 1-6, minCalls, failure rate, permitted trials 1-3, open wait 50ms-24h) injected into a real ServerPool + 1-4 caller tasks issuing 4-30 buffered or STREAM requests with scripted transport outcomes (200, any of 404/500/502/503/504 listed or not in the pool's drawn failureCodes, network error, hang / late answer under a pool timeout) and hold times, 1-3 servers per pool, gaps incl. the exact open wait; " +
			"non-trivial = at least one call was short-circuited; distinct = distinct (policy, call/send/return event order with breaker states) signatures",
		Real: []string{"pkg/filters/proxy ServerPool (NewServerPool, InjectResiliencePolicy, handle, doHandle, buildFailureResponse)", "pkg/resilience (NewPolicy, CircuitBreakerPolicy.CreateWrapper, circuitBreakerWrapper.Wrap)", "pkg/util/circuitbreaker", "pkg/protocols/httpprot Request (buffered and stream payloads)"},
		Stub: []string{"transport: fnSendRequest replaced by a counting scripted backend", "callers are harness tasks", "sync.Mutex -> simsync, sync/atomic -> simatomic (same semantics + gates)"},
		Assumptions: []string{
			"the breaker's State() read between two scheduler gates is its current state; an OPEN episode seen at t began after the last instant a non-OPEN state was seen, so it lasts at least until that instant + waitDurationInOpenState",
			"the only reason for a call not to reach the transport is the breaker (static servers, no retry, no cache; a pool timeout only cuts calls off inside the transport)",
			"a backend status that is not in the pool's failureCodes is a success for the breaker and is relayed with an empty result; a call cut off by the pool timeout is a failed call (exact result/status mapping is C10's)",
			"breakers are per pool: a pool can only be short-circuited after >= minimumNumberOfCalls of its own calls left the transport, at least one of them failing = network error, listed failure code or pool timeout (results are recorded after the transport returns; slow calls impossible with a 24h threshold)",
			"which calls are admitted in HALF_OPEN and when the breaker trips is property C08 proper and not asserted here",
		},
	})
}
