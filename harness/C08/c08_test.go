//go:debug asynctimerchan=0
//go:build go1.21

package resilience

// C08 — circuit breaker contract. The real CircuitBreakerPolicy.CreateWrapper
// / circuitBreakerWrapper.Wrap / libcb.CircuitBreaker run under N simulated
// caller tasks on the virtual clock. Every admission decision and every
// recorded result is an atomic step under the (simulated) breaker lock, so the
// order in which the harness logs them is their linearisation order; an
// independent reference automaton written from the property statement and
// doc/reference/controllers.md is stepped in lock-step and compared after
// every event (admitted?, State()).

import (
	"context"
	"errors"
	"fmt"
	"strings"
	"testing"
	"time"

	libcb "github.com/megaease/easegress/pkg/util/circuitbreaker"
	"verif/simkit/hdrv"
	"verif/simkit/sim"
)

type c08Policy struct {
	Fail      uint8  `json:"fail"`
	Slow      uint8  `json:"slow"`
	TimeBased bool   `json:"time_based"`
	Size      uint32 `json:"size"`
	Permitted uint32 `json:"permitted"`
	MinCalls  uint32 `json:"min_calls"`
	SlowMs    int64  `json:"slow_ms"`
	MaxHalfMs int64  `json:"max_half_ms"`
	WaitMs    int64  `json:"wait_ms"`
}

type c08Op struct {
	GapUs   int64  `json:"gap_us"`
	DurUs   int64  `json:"dur_us"`
	Outcome string `json:"outcome"` // ok | fail | panic
}

type c08Caller struct {
	Ops []c08Op `json:"ops"`
}

type c08Scenario struct {
	Policy   c08Policy   `json:"policy"`
	OffsetUs int64       `json:"offset_us"`
	Callers  []c08Caller `json:"callers"`
}

func c08Gen(rng *sim.Rand, tier string) interface{} {
	sc := &c08Scenario{}
	p := &sc.Policy
	thr := func() uint8 {
		switch rng.Intn(4) {
		case 0:
			return uint8(rng.Pick(1, 33, 50, 99, 100))
		case 1:
			return 100
		default:
			return uint8(rng.Range(1, 100))
		}
	}
	p.Fail, p.Slow = thr(), thr()
	p.TimeBased = rng.Bool(0.4)
	p.Size = uint32(rng.Range(1, 10))
	if p.TimeBased {
		p.Size = uint32(rng.Range(1, 5))
	}
	p.MinCalls = uint32(rng.Range(0, int(p.Size)+2))
	if rng.Bool(0.3) {
		p.MinCalls = uint32(rng.Range(0, 3))
	}
	p.Permitted = uint32(rng.Range(1, 5))
	p.SlowMs = int64(rng.Pick(10, 100, 1000))
	p.WaitMs = int64(rng.Pick(0, 1, 1000, 1000, 7000, 60000))
	p.MaxHalfMs = int64(rng.Pick(0, 0, 1, 1000, 7000))
	sc.OffsetUs = int64(rng.Pick(0, 1, 300000, 999999, rng.Intn(1000000)))
	nc := rng.Range(1, 5)
	total := rng.Range(8, 80)
	failBias := rng.Pick(10, 30, 50, 70, 90)
	slowBias := rng.Pick(0, 5, 20, 50)
	gaps := []int64{0, 0, 0, 1, 1000, 500000, 1000000, 2000000, p.WaitMs * 1000, p.WaitMs*1000 - 1, p.WaitMs*1000 + 1,
		p.MaxHalfMs * 1000, p.MaxHalfMs*1000 + 1, int64(p.Size) * 1000000, int64(p.Size)*1000000 + 1, int64(p.Size+1) * 1000000, 61000000}
	for c := 0; c < nc; c++ {
		var cl c08Caller
		n := total / nc
		if n < 1 {
			n = 1
		}
		for i := 0; i < n; i++ {
			op := c08Op{}
			g := gaps[rng.Intn(len(gaps))]
			if g < 0 {
				g = 0
			}
			op.GapUs = g
			x := rng.Intn(100)
			switch {
			case x < failBias:
				op.Outcome = "fail"
				if rng.Bool(0.1) {
					op.Outcome = "panic"
				}
				op.DurUs = int64(rng.Pick(0, 1, 100, int(p.SlowMs*1000/4)))
			case x < failBias+slowBias:
				op.Outcome = "ok"
				op.DurUs = p.SlowMs * 1000 * int64(rng.Pick(2, 3, 10))
			default:
				op.Outcome = "ok"
				op.DurUs = int64(rng.Pick(0, 1, 100, int(p.SlowMs*1000/4)))
			}
			cl.Ops = append(cl.Ops, op)
		}
		sc.Callers = append(sc.Callers, cl)
	}
	return sc
}

// ---- reference automaton --------------------------------------------------

const (
	refClosed = iota
	refOpen
	refHalfOpen
)

var refNames = []string{"CLOSED", "OPEN", "HALF_OPEN"}

type refEntry struct {
	at     time.Time
	result int // 0 success, 1 slow, 2 failure, 3 failure that may also count as slow, 4 success that may count as slow
}

type c08Ref struct {
	p          c08Policy
	state      int
	epoch      int
	since      time.Time
	window     []refEntry // CLOSED: results in arrival order
	trialsOut  uint32     // HALF_OPEN: trials admitted
	trialRes   []int      // HALF_OPEN: results of trials
	ambiguous  int
	verdictDue bool
}

func (m *c08Ref) transit(to int, now time.Time) {
	m.state = to
	m.epoch++
	m.since = now
	m.window = nil
	m.trialsOut = 0
	m.trialRes = nil
}

func rates(res []int) (fail, slowMin, slowMax, total int) {
	for _, r := range res {
		total++
		switch r {
		case 1:
			slowMin++
			slowMax++
		case 2:
			fail++
		case 3:
			fail++
			slowMax++
		case 4:
			slowMax++
		}
	}
	return
}

// tripped tells whether the results can / must open the breaker (they differ
// only when a result's slowness is a matter of reading, see result codes).
func (m *c08Ref) tripped(res []int) (can, must bool) {
	f, smin, smax, t := rates(res)
	if t == 0 {
		return false, false
	}
	must = f*100 >= int(m.p.Fail)*t || smin*100 >= int(m.p.Slow)*t
	can = f*100 >= int(m.p.Fail)*t || smax*100 >= int(m.p.Slow)*t
	return
}

// windowResults returns the results inside the sliding window at time now,
// under the bucketed reading (whole wall-clock seconds) and under the exact
// reading (age < N seconds). For a count window both are the last N results.
func (m *c08Ref) windowResults(now time.Time) (bucketed, exact []int) {
	if !m.p.TimeBased {
		w := m.window
		if len(w) > int(m.p.Size) {
			w = w[len(w)-int(m.p.Size):]
		}
		for _, e := range w {
			bucketed = append(bucketed, e.result)
		}
		return bucketed, bucketed
	}
	n := int64(m.p.Size)
	for _, e := range m.window {
		if now.Unix()-e.at.Unix() < n {
			bucketed = append(bucketed, e.result)
		}
		if now.Sub(e.at) < time.Duration(n)*time.Second {
			exact = append(exact, e.result)
		}
	}
	return
}

// acquire returns the set of acceptable (admitted, stateAfter) answers.
type c08Ans struct {
	admitted bool
	state    int
}

func (m *c08Ref) acquire(now time.Time) []c08Ans {
	switch m.state {
	case refClosed:
		return []c08Ans{{true, refClosed}}
	case refOpen:
		if now.Sub(m.since) < time.Duration(m.p.WaitMs)*time.Millisecond {
			return []c08Ans{{false, refOpen}}
		}
		m.transit(refHalfOpen, now)
		fallthrough
	default:
		elapsed := now.Sub(m.since)
		maxw := time.Duration(m.p.MaxHalfMs) * time.Millisecond
		stalled := m.p.MaxHalfMs > 0 && elapsed > maxw
		edge := m.p.MaxHalfMs > 0 && elapsed == maxw
		if m.trialsOut < m.p.Permitted {
			ans := []c08Ans{{true, refHalfOpen}}
			if stalled || edge {
				// the statement does not say whether unused permits keep a
				// timed-out half-open breaker alive: both answers accepted
				ans = append(ans, c08Ans{false, refOpen})
			}
			return ans
		}
		switch {
		case stalled:
			return []c08Ans{{false, refOpen}}
		case edge:
			return []c08Ans{{false, refOpen}, {false, refHalfOpen}}
		}
		return []c08Ans{{false, refHalfOpen}}
	}
}

func (m *c08Ref) applyAcquire(a c08Ans, now time.Time) {
	if m.state == refHalfOpen {
		if a.admitted {
			m.trialsOut++
		} else if a.state == refOpen {
			m.transit(refOpen, now)
		}
	}
}

// record returns the acceptable states after recording a result of a call
// admitted in epoch ep.
func (m *c08Ref) record(ep int, result int, now time.Time) []int {
	if ep != m.epoch {
		return []int{m.state}
	}
	switch m.state {
	case refClosed:
		m.window = append(m.window, refEntry{now, result})
		// bound memory: nothing older than Size entries / Size+1 seconds matters
		if !m.p.TimeBased && len(m.window) > int(m.p.Size) {
			m.window = m.window[len(m.window)-int(m.p.Size):]
		}
		b, e := m.windowResults(now)
		canOpen, canHold := false, false
		for _, w := range [][]int{b, e} {
			can, must := m.tripped(w)
			if len(w) < int(m.p.MinCalls) {
				can, must = false, false
			}
			if can {
				canOpen = true
			}
			if !must {
				canHold = true
			}
		}
		if canOpen && canHold {
			m.ambiguous++
			return []int{refClosed, refOpen}
		}
		if canOpen {
			return []int{refOpen}
		}
		return []int{refClosed}
	case refHalfOpen:
		m.trialRes = append(m.trialRes, result)
		k := uint32(len(m.trialRes))
		min := m.p.MinCalls
		if min > m.p.Permitted {
			min = m.p.Permitted
		}
		can, must := m.tripped(m.trialRes)
		var verdicts []int
		if can {
			verdicts = append(verdicts, refOpen)
		}
		if !must {
			verdicts = append(verdicts, refClosed)
		}
		if len(verdicts) == 2 {
			m.ambiguous++
		}
		switch {
		case k < min:
			return []int{refHalfOpen}
		case k >= m.p.Permitted:
			return verdicts
		default:
			// between min(minimumNumberOfCalls, permitted) and permitted the
			// statement does not fix after which trial the verdict falls
			return append(verdicts, refHalfOpen)
		}
	}
	return []int{m.state}
}

func (m *c08Ref) applyRecord(st int, now time.Time) {
	if st != m.state {
		m.transit(st, now)
	}
}

func implState(s libcb.State) int {
	switch s {
	case libcb.StateClosed:
		return refClosed
	case libcb.StateOpen:
		return refOpen
	case libcb.StateHalfOpen:
		return refHalfOpen
	}
	return -1
}

func ms(v int64) string { return fmt.Sprintf("%dms", v) }

func c08Exec(r *sim.Run, sci interface{}) {
	sc := sci.(*c08Scenario)
	p := sc.Policy
	if p.Permitted == 0 || p.Size == 0 || p.Fail == 0 || p.Slow == 0 || p.Fail > 100 || p.Slow > 100 || p.SlowMs <= 0 {
		return
	}
	time.Sleep(time.Duration(sc.OffsetUs) * time.Microsecond)
	pol := &CircuitBreakerPolicy{
		SlidingWindowType: "COUNT_BASED", FailureRateThreshold: p.Fail, SlowCallRateThreshold: p.Slow,
		SlidingWindowSize: p.Size, PermittedNumberOfCallsInHalfOpen: p.Permitted, MinimumNumberOfCalls: p.MinCalls,
		SlowCallDurationThreshold: ms(p.SlowMs), WaitDurationInOpen: ms(p.WaitMs),
	}
	if p.TimeBased {
		pol.SlidingWindowType = "TIME_BASED"
	}
	if p.MaxHalfMs > 0 {
		pol.MaxWaitDurationInHalfOpen = ms(p.MaxHalfMs)
	}
	w := pol.CreateWrapper().(circuitBreakerWrapper)
	ref := &c08Ref{p: p, state: refClosed, since: time.Now()}
	var hist strings.Builder
	reachedOpen, reachedHalf, inflightMax, inflight := false, false, 0, 0
	errFail := errors.New("backend failure")
	skip := false

	check := func(what string) {
		if got := implState(w.State()); got != ref.state {
			r.Violate("C08.state", "%s: breaker is %v, reference automaton is %s\nhistory: %s", what, w.State(), refNames[ref.state], hist.String())
		}
	}
	for ci := range sc.Callers {
		ci := ci
		ops := sc.Callers[ci].Ops
		r.Go(fmt.Sprintf("caller%d", ci), func() {
			for oi, op := range ops {
				if r.Violated() || r.Aborted() || skip {
					return
				}
				r.Sleep(time.Duration(op.GapUs) * time.Microsecond)
				op := op
				admitted := false
				var ep int
				var measured time.Duration
				handler := func(ctx context.Context) error {
					// no gate between AcquirePermission returning and this
					// point: the admission is logged in its effect order
					admitted = true
					now := time.Now()
					if skip {
						return nil
					}
					ans := ref.acquire(now)
					ok := false
					for _, a := range ans {
						if a.admitted && a.state == implState(w.State()) {
							ref.applyAcquire(a, now)
							ok = true
							break
						}
					}
					ep = ref.epoch
					fmt.Fprintf(&hist, "c%d.%d:admit@%v[%s] ", ci, oi, r.Now(), refNames[ref.state])
					r.Eventf("c%d.%d admit %v", ci, oi, w.State())
					if !ok {
						r.Violate("C08.admission", "call admitted in state %v at %v, reference (%s) allows %v\nhistory: %s", w.State(), r.Now(), refNames[ref.state], ans, hist.String())
					}
					if ref.state == refHalfOpen {
						reachedHalf = true
					}
					inflight++
					if inflight > inflightMax {
						inflightMax = inflight
					}
					t0 := time.Now()
					r.Sleep(time.Duration(op.DurUs) * time.Microsecond)
					measured = time.Since(t0)
					inflight--
					switch op.Outcome {
					case "fail":
						return errFail
					case "panic":
						panic("backend panic")
					}
					return nil
				}
				var err error
				func() {
					defer func() {
						if p := recover(); p != nil {
							if p != "backend panic" {
								panic(p)
							}
							err = errFail
						}
					}()
					err = w.Wrap(handler)(context.Background())
				}()
				now := time.Now()
				if skip {
					return
				}
				if !admitted {
					ans := ref.acquire(now)
					ok := false
					for _, a := range ans {
						if !a.admitted && a.state == implState(w.State()) {
							ref.applyAcquire(a, now)
							ok = true
							break
						}
					}
					fmt.Fprintf(&hist, "c%d.%d:reject@%v[%s] ", ci, oi, r.Now(), refNames[ref.state])
					r.Eventf("c%d.%d reject %v", ci, oi, w.State())
					if err != ErrShortCircuited {
						r.Violate("C08.admission", "handler not invoked but error is %v", err)
					}
					if !ok {
						r.Violate("C08.admission", "call short-circuited (breaker now %v) at %v, reference (%s) allows %v\nhistory: %s", w.State(), r.Now(), refNames[ref.state], ans, hist.String())
					}
					continue
				}
				result := 0
				slowThr := time.Duration(p.SlowMs) * time.Millisecond
				if op.Outcome != "ok" {
					result = 2
					if measured >= slowThr {
						// a failed call that was also slow: the statement does not say
						// whether it also counts towards the slow-call rate
						r.Probe("cb.failed_and_slow_result")
						result = 3
					}
				} else if measured == slowThr {
					// doc: slow when duration > threshold; code: >=
					r.Probe("cb.duration_equals_threshold")
					result = 4
				} else if measured > slowThr {
					result = 1
				}
				if skip {
					return
				}
				allowed := ref.record(ep, result, now)
				got := implState(w.State())
				ok := false
				for _, s := range allowed {
					if s == got {
						ok = true
					}
				}
				fmt.Fprintf(&hist, "c%d.%d:rec%d(ep%d/%d)@%v[%v] ", ci, oi, result, ep, ref.epoch, r.Now(), w.State())
				r.Eventf("c%d.%d record %d -> %v", ci, oi, result, w.State())
				if !ok {
					names := []string{}
					for _, s := range allowed {
						names = append(names, refNames[s])
					}
					r.Violate("C08.state", "after recording result %d (admitted in epoch %d, current %d) breaker is %v, reference allows %v\nhistory: %s", result, ep, ref.epoch, w.State(), names, hist.String())
					return
				}
				ref.applyRecord(got, now)
				if ref.state == refOpen {
					reachedOpen = true
				}
				check("after record")
			}
		})
	}
	r.WaitTasks()
	if ref.ambiguous > 0 {
		r.Probe("cb.verdict_ambiguous_by_reading")
	}
	if reachedOpen {
		r.Probe("cb.reached_open")
	}
	if reachedHalf {
		r.Probe("cb.reached_half_open")
	}
	if inflightMax >= 2 {
		r.Probe("cb.concurrent_calls_in_flight")
	}
	if reachedOpen && reachedHalf {
		r.Nontrivial()
	}
	h := hist.String()
	// signature: the history with times stripped
	var sig strings.Builder
	for _, f := range strings.Fields(h) {
		if i := strings.Index(f, "@"); i > 0 {
			j := strings.Index(f, "[")
			sig.WriteString(f[:i])
			if j > 0 {
				sig.WriteString(f[j:])
			}
		}
	}
	r.SetSig(fmt.Sprintf("%+v|%s", p, sig.String()))
}

func TestVerifC08(t *testing.T) {
	hdrv.Main(t, &hdrv.Harness{
		ID:       "C08",
		Gen:      c08Gen,
		New:      func() interface{} { return &c08Scenario{} },
		Exec:     c08Exec,
		MaxSteps: 20000,
		Rule: "scenario = drawn policy (thresholds, COUNT/TIME window, sizes, durations) + 1-5 caller tasks with gaps/durations/outcomes incl. exact boundary gaps; " +
			"non-trivial = the breaker reached OPEN and HALF_OPEN; distinct = distinct (policy, event-kind history with states) signatures",
		Real:        []string{"pkg/util/circuitbreaker (CircuitBreaker, windows)", "pkg/resilience (CircuitBreakerPolicy.CreateWrapper, circuitBreakerWrapper.Wrap)"},
		Stub:        []string{"callers and backend outcome script (harness)", "sync.Mutex -> simsync.Mutex (same semantics + gates)"},
		Assumptions: []string{"AcquirePermission/RecordResult take effect in the order their results are observed by the single-P cooperative schedule", "slow = duration >= 2x threshold, fast <= threshold/4 (the exact-threshold case is not generated: doc says '>' and code says '>=')"},
	})
}
