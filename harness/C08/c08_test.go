//go:debug asynctimerchan=0
//go:build go1.21

package resilience

// C08 — circuit breaker contract. The real CircuitBreakerPolicy.CreateWrapper
// / circuitBreakerWrapper.Wrap / libcb.CircuitBreaker run under N simulated
// caller tasks on the virtual clock. Every admission decision and every
// recorded result is an atomic step under the (simulated) breaker lock, so the
// order in which the harness logs them is their linearisation order; an
// independent reference automaton written from the property statement and
// doc/reference/controllers.md is stepped in lock-step and compared after
// every event (admitted?, State()).
//
// Configurations (x-C08 widening). The policy is built either as a struct
// literal or, as Pipeline.reload does, by resilience.NewPolicy from a raw map
// (yaml round trip over Kind.DefaultPolicy + schema validation). Spec fields
// may be LEFT OUT: the reference then uses the default documented in
// doc/reference/controllers.md (failureRateThreshold 50, slowCallRateThreshold
// 100, COUNT_BASED, slidingWindowSize 100, permittedNumberOfCallsInHalfOpenState
// 10, maxWaitDurationInHalfOpenState 0, waitDurationInOpenState 60s).
// Durations are spelled in every form time.ParseDuration documents ("1000ms",
// "1s", "1m0s", "0.001s", "60000000us" ...). "Big" scenarios use windows up to
// 100 calls / 200 seconds, up to 10 trials and up to ~260 calls so that the
// documented default policy opens, half-opens and closes. Calls go through
// circuitBreakerWrapper.Wrap or (same breaker, mixed) libcb's Execute.
//
// Decisions where the statement / the docs are silent:
//   - slowCallDurationThreshold has no documented default: when it is left out
//     a call that took any time at all MAY count as slow (result codes 3/4),
//     a call of zero duration is not slow.
//   - minimumNumberOfCalls: the reference table documents "Default is 10", the
//     implementation uses 100, the statement names no default: with the field
//     left out both are accepted (two candidate reference automata; the one
//     that cannot explain an observation is dropped; observation probe
//     cb.default_minimum_calls_differs_from_reference_table).
//   - countingNetworkError is a spec field nothing documents: it is set at
//     random and must not change anything the statement describes.
//   - a call whose context is cancelled and that returns the context's error
//     is a failed call like any other (docs: "failed means that backend filter
//     returns non-empty results").
//   - C08.passthrough: an admitted call "passes": the handler gets the caller's
//     context and the caller gets the handler's own error / result / panic.

import (
	"context"
	"errors"
	"fmt"
	"strings"
	"testing"
	"time"

	libcb "github.com/megaease/easegress/pkg/util/circuitbreaker"
	"verif/simkit/hdrv"
	"verif/simkit/sim"
)

// c08OmitMinCalls: also leave minimumNumberOfCalls out of the spec. The reference
// table documents a default of 10, the implementation uses 100 and the statement
// names no default: BOTH are accepted (two candidate reference automata), probe
// cb.default_minimum_calls_differs_from_reference_table records which one held.
const c08OmitMinCalls = true

type c08Policy struct {
	Fail      uint8  `json:"fail"`
	Slow      uint8  `json:"slow"`
	TimeBased bool   `json:"time_based"`
	Size      uint32 `json:"size"`
	Permitted uint32 `json:"permitted"`
	MinCalls  uint32 `json:"min_calls"`
	SlowMs    int64  `json:"slow_ms"`
	MaxHalfMs int64  `json:"max_half_ms"`
	WaitMs    int64  `json:"wait_ms"`
	// Via: "" = struct literal + CreateWrapper; "new" = resilience.NewPolicy(raw map)
	Via string `json:"via,omitempty"`
	// Omit: spec fields left out (fail, slow, type, size, permitted, min_calls,
	// slow_dur, max_half, wait); the fields above then hold the documented default.
	// With a struct literal only the duration strings can be left out.
	Omit []string `json:"omit,omitempty"`
	// Spell: how duration strings are written (see c08Spell)
	Spell int  `json:"spell,omitempty"`
	CNE   bool `json:"counting_network_error,omitempty"`
}

type c08Op struct {
	GapUs   int64  `json:"gap_us"`
	DurUs   int64  `json:"dur_us"`
	Outcome string `json:"outcome"`       // ok | fail | panic | cancel
	API     string `json:"api,omitempty"` // "" = circuitBreakerWrapper.Wrap, "exec" = CircuitBreaker.Execute
}

type c08Caller struct {
	Ops []c08Op `json:"ops"`
}

type c08Scenario struct {
	Policy   c08Policy   `json:"policy"`
	OffsetUs int64       `json:"offset_us"`
	Callers  []c08Caller `json:"callers"`
}

func c08Has(xs []string, x string) bool {
	for _, s := range xs {
		if s == x {
			return true
		}
	}
	return false
}

// c08Spell writes ms milliseconds as a duration string; every style denotes
// exactly the same duration.
func c08Spell(msv int64, style int) string {
	d := time.Duration(msv) * time.Millisecond
	switch style {
	case 1:
		return d.String() // "1m0s", "1.5s", "1ms", "0s"
	case 2:
		return fmt.Sprintf("%gs", float64(msv)/1000) // "0.001s", "60s"
	case 3:
		switch {
		case msv == 0:
			return "0"
		case msv%3600000 == 0:
			return fmt.Sprintf("%dh", msv/3600000)
		case msv%60000 == 0:
			return fmt.Sprintf("%dm", msv/60000)
		case msv%1000 == 0:
			return fmt.Sprintf("%ds", msv/1000)
		}
		return fmt.Sprintf("%dus", msv*1000)
	case 4:
		if msv >= 60000 {
			return fmt.Sprintf("%dm%dms", msv/60000, msv%60000)
		}
		return fmt.Sprintf("%dµs", msv*1000)
	}
	return fmt.Sprintf("%dms", msv)
}

func c08Gen(rng *sim.Rand, tier string) interface{} {
	sc := &c08Scenario{}
	p := &sc.Policy
	thr := func() uint8 {
		switch rng.Intn(4) {
		case 0:
			return uint8(rng.Pick(1, 33, 50, 99, 100))
		case 1:
			return 100
		default:
			return uint8(rng.Range(1, 100))
		}
	}
	p.Fail, p.Slow = thr(), thr()
	p.TimeBased = rng.Bool(0.4)
	big := rng.Bool(0.06)
	p.Size = uint32(rng.Range(1, 10))
	if p.TimeBased {
		p.Size = uint32(rng.Range(1, 5))
	}
	if big {
		p.Size = uint32(rng.Pick(11, 16, 50, 64, 65, 100, rng.Range(11, 100)))
		if p.TimeBased {
			p.Size = uint32(rng.Pick(6, 10, 30, 60, 61, 100, 200))
		}
	}
	p.MinCalls = uint32(rng.Range(0, int(p.Size)+2))
	if rng.Bool(0.3) {
		p.MinCalls = uint32(rng.Range(0, 3))
	}
	if big && p.TimeBased {
		p.MinCalls = uint32(rng.Pick(0, 1, 5, 10, 20, 50, 100))
	}
	p.Permitted = uint32(rng.Range(1, 5))
	if big {
		p.Permitted = uint32(rng.Pick(1, 3, 5, 8, 10, 10))
	}
	p.SlowMs = int64(rng.Pick(10, 100, 1000, 1500, 30000))
	p.WaitMs = int64(rng.Pick(0, 1, 1000, 1000, 1500, 7000, 60000, 120000))
	p.MaxHalfMs = int64(rng.Pick(0, 0, 1, 1000, 1500, 7000, 60000))
	p.Spell = rng.Pick(0, 0, 1, 2, 3, 4)
	p.CNE = rng.Bool(0.3)
	if rng.Bool(0.4) {
		p.Via = "new"
		// leave fields out: the documented defaults apply
		if rng.Bool(0.6) {
			cands := []string{"fail", "slow", "type", "permitted", "slow_dur", "max_half", "wait", "wait", "size"}
			if c08OmitMinCalls {
				cands = append(cands, "min_calls")
			}
			n := rng.Pick(1, 1, 2, 3, len(cands))
			for _, i := range rng.Perm(len(cands))[:n] {
				if !c08Has(p.Omit, cands[i]) {
					p.Omit = append(p.Omit, cands[i])
				}
			}
			if rng.Bool(0.1) { // nothing but kind and name (and minimumNumberOfCalls)
				p.Omit = append([]string(nil), "fail", "slow", "type", "size", "permitted", "slow_dur", "max_half", "wait")
				if c08OmitMinCalls {
					p.Omit = append(p.Omit, "min_calls")
				}
			}
		}
	} else if rng.Bool(0.3) {
		p.Omit = append(p.Omit, rng.PickStr("wait", "slow_dur", "max_half"))
	}
	c08Defaults(p)
	if big && p.MinCalls > p.Size+2 {
		p.MinCalls = uint32(rng.Range(0, int(p.Size)+2))
	}
	sc.OffsetUs = int64(rng.Pick(0, 1, 300000, 999999, rng.Intn(1000000)))
	nc := rng.Range(1, 5)
	total := rng.Range(8, 80)
	// enough calls to fill minimumNumberOfCalls, open, and run the trials
	if need := int(p.MinCalls) + int(p.Permitted) + 10; need > total && p.MinCalls <= p.Size && need < 250 {
		total = rng.Range(need, need+50)
		big = true
	}
	if c08Has(p.Omit, "min_calls") && p.Via == "new" && p.Size >= 100 && rng.Bool(0.6) {
		// long enough for either acceptable default of minimumNumberOfCalls (10 / 100)
		total = rng.Range(112, 170)
		big = true
	}
	failBias := rng.Pick(10, 30, 50, 70, 90)
	if big && rng.Bool(0.5) {
		failBias = rng.Pick(70, 90, 100)
	}
	slowBias := rng.Pick(0, 5, 20, 50)
	execPct := rng.Pick(0, 0, 10, 50, 100)
	cancelPct := rng.Pick(0, 0, 10, 30)
	slowUnknown := c08Has(p.Omit, "slow_dur")
	gaps := []int64{0, 0, 0, 1, 1000, 500000, 1000000, 2000000, p.WaitMs * 1000, p.WaitMs*1000 - 1, p.WaitMs*1000 + 1,
		p.MaxHalfMs * 1000, p.MaxHalfMs*1000 + 1, int64(p.Size) * 1000000, int64(p.Size)*1000000 + 1, int64(p.Size+1) * 1000000, 61000000}
	if big {
		// many calls per window: mostly back to back
		gaps = append(gaps, 0, 0, 0, 0, 0, 0, 1, 1000, 1000, 200000, 1000000, 0, 0, 0, 0)
		if p.TimeBased {
			gaps = append(gaps, 2*int64(p.Size)*1000000, 2*int64(p.Size)*1000000+500000)
		}
	}
	for c := 0; c < nc; c++ {
		var cl c08Caller
		n := total / nc
		if n < 1 {
			n = 1
		}
		for i := 0; i < n; i++ {
			op := c08Op{}
			g := gaps[rng.Intn(len(gaps))]
			if g < 0 {
				g = 0
			}
			op.GapUs = g
			if rng.Intn(100) < execPct {
				op.API = "exec"
			}
			fast := func() int64 {
				if slowUnknown && rng.Bool(0.8) {
					return 0
				}
				return int64(rng.Pick(0, 1, 100, int(p.SlowMs*1000/4)))
			}
			x := rng.Intn(100)
			switch {
			case x < failBias:
				op.Outcome = "fail"
				if rng.Bool(0.1) {
					op.Outcome = "panic"
				} else if op.API == "" && rng.Intn(100) < cancelPct {
					op.Outcome = "cancel"
				}
				op.DurUs = fast()
			case x < failBias+slowBias:
				op.Outcome = "ok"
				op.DurUs = p.SlowMs * 1000 * int64(rng.Pick(2, 3, 10))
			default:
				op.Outcome = "ok"
				op.DurUs = fast()
			}
			cl.Ops = append(cl.Ops, op)
		}
		sc.Callers = append(sc.Callers, cl)
	}
	return sc
}

// c08Defaults overwrites the fields that the spec leaves out with the defaults
// documented in doc/reference/controllers.md ("CircuitBreaker Policy" table).
// slowCallDurationThreshold has no documented default: SlowMs is then only a
// scale for the generator, the oracle treats slowness as unknown.
func c08Defaults(p *c08Policy) {
	structLit := p.Via != "new"
	for _, f := range p.Omit {
		switch f {
		case "wait":
			p.WaitMs = 60000
		case "max_half":
			p.MaxHalfMs = 0
		case "slow_dur":
			p.SlowMs = 1000
		}
		if structLit {
			continue // a zero number in a struct literal is a zero, not "left out"
		}
		switch f {
		case "fail":
			p.Fail = 50
		case "slow":
			p.Slow = 100
		case "type":
			p.TimeBased = false
		case "size":
			p.Size = 100
		case "permitted":
			p.Permitted = 10
		case "min_calls":
			p.MinCalls = 10
		}
	}
}

// ---- reference automaton --------------------------------------------------

const (
	refClosed = iota
	refOpen
	refHalfOpen
)

var refNames = []string{"CLOSED", "OPEN", "HALF_OPEN"}

type refEntry struct {
	at     time.Time
	result int // 0 success, 1 slow, 2 failure, 3 failure that may also count as slow, 4 success that may count as slow
}

type c08Ref struct {
	p          c08Policy
	state      int
	epoch      int
	since      time.Time
	window     []refEntry // CLOSED: results in arrival order
	trialsOut  uint32     // HALF_OPEN: trials admitted
	trialRes   []int      // HALF_OPEN: results of trials
	ambiguous  int
	verdictDue bool
}

func (m *c08Ref) transit(to int, now time.Time) {
	m.state = to
	m.epoch++
	m.since = now
	m.window = nil
	m.trialsOut = 0
	m.trialRes = nil
}

func rates(res []int) (fail, slowMin, slowMax, total int) {
	for _, r := range res {
		total++
		switch r {
		case 1:
			slowMin++
			slowMax++
		case 2:
			fail++
		case 3:
			fail++
			slowMax++
		case 4:
			slowMax++
		}
	}
	return
}

// tripped tells whether the results can / must open the breaker (they differ
// only when a result's slowness is a matter of reading, see result codes).
func (m *c08Ref) tripped(res []int) (can, must bool) {
	f, smin, smax, t := rates(res)
	if t == 0 {
		return false, false
	}
	must = f*100 >= int(m.p.Fail)*t || smin*100 >= int(m.p.Slow)*t
	can = f*100 >= int(m.p.Fail)*t || smax*100 >= int(m.p.Slow)*t
	return
}

// windowResults returns the results inside the sliding window at time now,
// under the bucketed reading (whole wall-clock seconds) and under the exact
// reading (age < N seconds). For a count window both are the last N results.
func (m *c08Ref) windowResults(now time.Time) (bucketed, exact []int) {
	if !m.p.TimeBased {
		w := m.window
		if len(w) > int(m.p.Size) {
			w = w[len(w)-int(m.p.Size):]
		}
		for _, e := range w {
			bucketed = append(bucketed, e.result)
		}
		return bucketed, bucketed
	}
	n := int64(m.p.Size)
	for _, e := range m.window {
		if now.Unix()-e.at.Unix() < n {
			bucketed = append(bucketed, e.result)
		}
		if now.Sub(e.at) < time.Duration(n)*time.Second {
			exact = append(exact, e.result)
		}
	}
	return
}

// acquire returns the set of acceptable (admitted, stateAfter) answers.
type c08Ans struct {
	admitted bool
	state    int
}

func (m *c08Ref) acquire(now time.Time) []c08Ans {
	switch m.state {
	case refClosed:
		return []c08Ans{{true, refClosed}}
	case refOpen:
		if now.Sub(m.since) < time.Duration(m.p.WaitMs)*time.Millisecond {
			return []c08Ans{{false, refOpen}}
		}
		m.transit(refHalfOpen, now)
		fallthrough
	default:
		elapsed := now.Sub(m.since)
		maxw := time.Duration(m.p.MaxHalfMs) * time.Millisecond
		stalled := m.p.MaxHalfMs > 0 && elapsed > maxw
		edge := m.p.MaxHalfMs > 0 && elapsed == maxw
		if m.trialsOut < m.p.Permitted {
			ans := []c08Ans{{true, refHalfOpen}}
			if stalled || edge {
				// the statement does not say whether unused permits keep a
				// timed-out half-open breaker alive: both answers accepted
				ans = append(ans, c08Ans{false, refOpen})
			}
			return ans
		}
		switch {
		case stalled:
			return []c08Ans{{false, refOpen}}
		case edge:
			return []c08Ans{{false, refOpen}, {false, refHalfOpen}}
		}
		return []c08Ans{{false, refHalfOpen}}
	}
}

func (m *c08Ref) applyAcquire(a c08Ans, now time.Time) {
	if m.state == refHalfOpen {
		if a.admitted {
			m.trialsOut++
		} else if a.state == refOpen {
			m.transit(refOpen, now)
		}
	}
}

// record returns the acceptable states after recording a result of a call
// admitted in epoch ep.
func (m *c08Ref) record(ep int, result int, now time.Time) []int {
	if ep != m.epoch {
		return []int{m.state}
	}
	switch m.state {
	case refClosed:
		m.window = append(m.window, refEntry{now, result})
		// bound memory: nothing older than Size entries / Size+1 seconds matters
		if !m.p.TimeBased && len(m.window) > int(m.p.Size) {
			m.window = m.window[len(m.window)-int(m.p.Size):]
		}
		b, e := m.windowResults(now)
		canOpen, canHold := false, false
		for _, w := range [][]int{b, e} {
			can, must := m.tripped(w)
			if len(w) < int(m.p.MinCalls) {
				can, must = false, false
			}
			if can {
				canOpen = true
			}
			if !must {
				canHold = true
			}
		}
		if canOpen && canHold {
			m.ambiguous++
			return []int{refClosed, refOpen}
		}
		if canOpen {
			return []int{refOpen}
		}
		return []int{refClosed}
	case refHalfOpen:
		m.trialRes = append(m.trialRes, result)
		k := uint32(len(m.trialRes))
		min := m.p.MinCalls
		if min > m.p.Permitted {
			min = m.p.Permitted
		}
		can, must := m.tripped(m.trialRes)
		var verdicts []int
		if can {
			verdicts = append(verdicts, refOpen)
		}
		if !must {
			verdicts = append(verdicts, refClosed)
		}
		if len(verdicts) == 2 {
			m.ambiguous++
		}
		switch {
		case k < min:
			return []int{refHalfOpen}
		case k >= m.p.Permitted:
			return verdicts
		default:
			// between min(minimumNumberOfCalls, permitted) and permitted the
			// statement does not fix after which trial the verdict falls
			return append(verdicts, refHalfOpen)
		}
	}
	return []int{m.state}
}

func (m *c08Ref) applyRecord(st int, now time.Time) {
	if st != m.state {
		m.transit(st, now)
	}
}

func implState(s libcb.State) int {
	switch s {
	case libcb.StateClosed:
		return refClosed
	case libcb.StateOpen:
		return refOpen
	case libcb.StateHalfOpen:
		return refHalfOpen
	}
	return -1
}

type c08CtxKey struct{}

// c08Build creates the breaker the way the scenario says. Everything it
// hands to easegress is a documented, valid configuration.
func c08Build(r *sim.Run, p c08Policy) (w circuitBreakerWrapper, ok bool) {
	omit := func(f string) bool { return c08Has(p.Omit, f) }
	sp := func(v int64) string {
		s := c08Spell(v, p.Spell)
		if d, err := time.ParseDuration(s); err != nil || d != time.Duration(v)*time.Millisecond {
			return fmt.Sprintf("%dms", v) // harness self-check: never hand over a spelling that means something else
		}
		return s
	}
	wt := "COUNT_BASED"
	if p.TimeBased {
		wt = "TIME_BASED"
	}
	if p.Via != "new" {
		pol := &CircuitBreakerPolicy{
			SlidingWindowType: wt, FailureRateThreshold: p.Fail, SlowCallRateThreshold: p.Slow,
			SlidingWindowSize: p.Size, PermittedNumberOfCallsInHalfOpen: p.Permitted, MinimumNumberOfCalls: p.MinCalls,
			CountingNetworkError: p.CNE,
		}
		if !omit("slow_dur") {
			pol.SlowCallDurationThreshold = sp(p.SlowMs)
		}
		if !omit("wait") {
			pol.WaitDurationInOpen = sp(p.WaitMs)
		}
		if !omit("max_half") && (p.MaxHalfMs > 0 || p.Spell != 0) {
			pol.MaxWaitDurationInHalfOpen = sp(p.MaxHalfMs) // incl. an explicit zero ("0s"): documented as "wait infinitely"
		}
		return pol.CreateWrapper().(circuitBreakerWrapper), true
	}
	raw := map[string]interface{}{"kind": "CircuitBreaker", "name": "c08cb"}
	set := func(f, key string, v interface{}) {
		if !omit(f) {
			raw[key] = v
		}
	}
	set("type", "slidingWindowType", wt)
	set("fail", "failureRateThreshold", int(p.Fail))
	set("slow", "slowCallRateThreshold", int(p.Slow))
	set("size", "slidingWindowSize", int(p.Size))
	set("permitted", "permittedNumberOfCallsInHalfOpenState", int(p.Permitted))
	set("min_calls", "minimumNumberOfCalls", int(p.MinCalls))
	set("slow_dur", "slowCallDurationThreshold", sp(p.SlowMs))
	set("wait", "waitDurationInOpenState", sp(p.WaitMs))
	if p.MaxHalfMs > 0 || p.Spell != 0 {
		set("max_half", "maxWaitDurationInHalfOpenState", sp(p.MaxHalfMs))
	}
	if p.CNE {
		raw["countingNetworkError"] = true
	}
	pol, err := NewPolicy(raw)
	if err != nil {
		r.Violate("C08.policy-rejected", "resilience.NewPolicy rejected a documented circuit breaker spec %v: %v", raw, err)
		return w, false
	}
	cbp, isCB := pol.(*CircuitBreakerPolicy)
	if !isCB {
		r.Violate("C08.policy-rejected", "resilience.NewPolicy returned %T for kind CircuitBreaker", pol)
		return w, false
	}
	w, ok = cbp.CreateWrapper().(circuitBreakerWrapper)
	return w, ok
}

func c08Exec(r *sim.Run, sci interface{}) {
	sc := sci.(*c08Scenario)
	p := sc.Policy
	c08Defaults(&p)
	if p.Permitted == 0 || p.Size == 0 || p.Fail == 0 || p.Slow == 0 || p.Fail > 100 || p.Slow > 100 || p.SlowMs <= 0 ||
		p.WaitMs < 0 || p.MaxHalfMs < 0 || p.Size > 100000 || p.Permitted > 100000 {
		return
	}
	time.Sleep(time.Duration(sc.OffsetUs) * time.Microsecond)
	w, built := c08Build(r, p)
	if !built {
		return
	}
	slowUnknown := c08Has(p.Omit, "slow_dur")
	defaultMin := p.Via == "new" && c08Has(p.Omit, "min_calls")
	// candidate reference automata: one, or - with minimumNumberOfCalls left out - one per
	// acceptable default (slot 0: the reference table's 10, slot 1: 100). A candidate that
	// cannot explain an observation is dropped; a violation needs all of them to fail.
	refs := []*c08Ref{{p: p, state: refClosed, since: time.Now()}}
	if defaultMin {
		p100 := p
		p100.MinCalls = 100
		refs = append(refs, &c08Ref{p: p100, state: refClosed, since: refs[0].since})
	}
	dead := make([]bool, len(refs))
	prim := func() int {
		for i := range refs {
			if !dead[i] {
				return i
			}
		}
		return 0
	}
	stepAcquire := func(admitted bool, got int, now time.Time) (bool, []c08Ans) {
		var first []c08Ans
		matched, any := [2]bool{}, false
		for i, m := range refs {
			if dead[i] {
				continue
			}
			ans := m.acquire(now)
			if first == nil {
				first = ans
			}
			for _, a := range ans {
				if a.admitted == admitted && a.state == got {
					m.applyAcquire(a, now)
					matched[i], any = true, true
					break
				}
			}
		}
		if any {
			for i := range refs {
				if !dead[i] && !matched[i] {
					dead[i] = true
				}
			}
		}
		return any, first
	}
	stepRecord := func(eps [2]int, result, got int, now time.Time) (bool, []int) {
		var first []int
		matched, any := [2]bool{}, false
		for i, m := range refs {
			if dead[i] {
				continue
			}
			allowed := m.record(eps[i], result, now)
			if first == nil {
				first = allowed
			}
			for _, s := range allowed {
				if s == got {
					m.applyRecord(got, now)
					matched[i], any = true, true
					break
				}
			}
		}
		if any {
			for i := range refs {
				if !dead[i] && !matched[i] {
					dead[i] = true
				}
			}
		}
		return any, first
	}
	var hist strings.Builder
	reachedOpen, reachedHalf, inflightMax, inflight := false, false, 0, 0
	var recovered, wrapped, execAdmitted, execRejected, cancelRecorded, bigVerdict bool
	closedRecords := 0 // results recorded in the current CLOSED epoch
	closedEpoch := 0
	skip := false

	check := func(what string) {
		if got, ref := implState(w.State()), refs[prim()]; got != ref.state {
			r.Violate("C08.state", "%s: breaker is %v, reference automaton is %s\nhistory: %s", what, w.State(), refNames[ref.state], hist.String())
		}
	}
	for ci := range sc.Callers {
		ci := ci
		ops := sc.Callers[ci].Ops
		r.Go(fmt.Sprintf("caller%d", ci), func() {
			for oi, op := range ops {
				if r.Violated() || r.Aborted() || skip {
					return
				}
				r.Sleep(time.Duration(op.GapUs) * time.Microsecond)
				op := op
				if op.DurUs < 0 {
					op.DurUs = 0
				}
				name := fmt.Sprintf("c%d.%d", ci, oi)
				useExec := op.API == "exec"
				if useExec && op.Outcome == "cancel" {
					op.Outcome = "fail" // Execute takes no context
				}
				admitted := false
				var eps [2]int
				var measured time.Duration
				myErr := errors.New("backend failure " + name)
				myRes := &name
				callerCtx, cancel := context.WithCancel(context.WithValue(context.Background(), c08CtxKey{}, myRes))
				handler := func(ctx context.Context) error {
					// no gate between AcquirePermission returning and this
					// point: the admission is logged in its effect order
					admitted = true
					now := time.Now()
					if skip {
						return nil
					}
					ok, ans := stepAcquire(true, implState(w.State()), now)
					for i, m := range refs {
						eps[i] = m.epoch
					}
					ref := refs[prim()]
					fmt.Fprintf(&hist, "%s:admit@%v[%s] ", name, r.Now(), refNames[ref.state])
					r.Eventf("%s admit %v", name, w.State())
					if !ok {
						r.Violate("C08.admission", "call admitted in state %v at %v, reference (%s) allows %v\nhistory: %s", w.State(), r.Now(), refNames[ref.state], ans, hist.String())
					}
					if !useExec && (ctx == nil || ctx.Value(c08CtxKey{}) != interface{}(myRes)) {
						r.Violate("C08.passthrough", "call %s: the wrapped handler did not receive the caller's context\nhistory: %s", name, hist.String())
					}
					if ref.state == refHalfOpen {
						reachedHalf = true
					}
					inflight++
					if inflight > inflightMax {
						inflightMax = inflight
					}
					t0 := time.Now()
					r.Sleep(time.Duration(op.DurUs) * time.Microsecond)
					measured = time.Since(t0)
					inflight--
					switch op.Outcome {
					case "fail":
						return myErr
					case "panic":
						panic("backend panic")
					case "cancel":
						// the client goes away while the call is in flight; the call ends with the context's error
						cancel()
						return context.Canceled
					}
					return nil
				}
				var err error
				var res interface{}
				panicked := false
				func() {
					defer func() {
						if p := recover(); p != nil {
							if p != "backend panic" {
								panic(p)
							}
							panicked = true
						}
					}()
					if useExec {
						res, err = w.Execute(func() (interface{}, error) { return myRes, handler(nil) })
					} else {
						err = w.Wrap(handler)(callerCtx)
					}
				}()
				cancel()
				now := time.Now()
				if skip {
					return
				}
				if !admitted {
					ok, ans := stepAcquire(false, implState(w.State()), now)
					ref := refs[prim()]
					fmt.Fprintf(&hist, "%s:reject@%v[%s] ", name, r.Now(), refNames[ref.state])
					r.Eventf("%s reject %v", name, w.State())
					if useExec {
						execRejected = true
						if err == nil || panicked {
							r.Violate("C08.admission", "Execute did not run the function but returned error %v (panicked: %v)", err, panicked)
						}
					} else if err != ErrShortCircuited {
						r.Violate("C08.admission", "handler not invoked but error is %v", err)
					}
					if !ok {
						r.Violate("C08.admission", "call short-circuited (breaker now %v) at %v, reference (%s) allows %v\nhistory: %s", w.State(), r.Now(), refNames[ref.state], ans, hist.String())
					}
					continue
				}
				// an admitted call passes: its own outcome comes back to the caller
				switch {
				case r.Violated():
				case op.Outcome == "panic" && !panicked:
					r.Violate("C08.passthrough", "call %s (%s): the handler panicked but the caller saw a normal return (err %v)\nhistory: %s", name, op.API, err, hist.String())
				case op.Outcome != "panic" && panicked:
					r.Violate("C08.passthrough", "call %s (%s): the caller saw a panic the handler did not raise\nhistory: %s", name, op.API, hist.String())
				case op.Outcome == "fail" && err != myErr, op.Outcome == "ok" && err != nil, op.Outcome == "cancel" && err != context.Canceled:
					r.Violate("C08.passthrough", "call %s (%s) ended with outcome %q but the caller got error %v\nhistory: %s", name, op.API, op.Outcome, err, hist.String())
				case useExec && op.Outcome == "ok" && res != interface{}(myRes):
					r.Violate("C08.passthrough", "call %s: Execute did not return the function's result\nhistory: %s", name, hist.String())
				}
				if useExec {
					execAdmitted = true
				}
				result := 0
				slowThr := time.Duration(p.SlowMs) * time.Millisecond
				switch {
				case slowUnknown:
					// no documented default for slowCallDurationThreshold: a call that
					// took any time at all may count as slow
					if op.Outcome != "ok" {
						result = 2
						if measured > 0 {
							result = 3
						}
					} else if measured > 0 {
						result = 4
					}
				case op.Outcome != "ok":
					result = 2
					if measured >= slowThr {
						// a failed call that was also slow: the statement does not say
						// whether it also counts towards the slow-call rate
						r.Probe("cb.failed_and_slow_result")
						result = 3
					}
				case measured == slowThr:
					// doc: slow when duration > threshold; code: >=
					r.Probe("cb.duration_equals_threshold")
					result = 4
				case measured > slowThr:
					result = 1
				}
				if skip {
					return
				}
				ref, ep := refs[prim()], eps[prim()]
				if ep == ref.epoch && ref.state == refClosed {
					if closedEpoch != ref.epoch {
						closedEpoch, closedRecords = ref.epoch, 0
					}
					closedRecords++
					if !p.TimeBased && closedRecords > int(p.Size) {
						wrapped = true
					}
				}
				wasHalf := ep == ref.epoch && ref.state == refHalfOpen
				if op.Outcome == "cancel" && ep == ref.epoch {
					cancelRecorded = true
				}
				got := implState(w.State())
				ok, allowed := stepRecord(eps, result, got, now)
				ref, ep = refs[prim()], eps[prim()]
				fmt.Fprintf(&hist, "%s:rec%d(ep%d/%d)@%v[%v] ", name, result, ep, ref.epoch, r.Now(), w.State())
				r.Eventf("%s record %d -> %v", name, result, w.State())
				if !ok {
					names := []string{}
					for _, s := range allowed {
						names = append(names, refNames[s])
					}
					r.Violate("C08.state", "after recording result %d (admitted in epoch %d, current %d) breaker is %v, reference allows %v\npolicy %+v\nhistory: %s", result, ep, ref.epoch, w.State(), names, p, hist.String())
					return
				}
				if ref.state == refOpen {
					reachedOpen = true
				}
				if wasHalf && ref.state != refHalfOpen {
					if ref.state == refClosed {
						recovered = true
					}
					if p.Permitted > 5 {
						bigVerdict = true
					}
				}
				check("after record")
			}
		})
	}
	r.WaitTasks()
	probe := func(b bool, name string) {
		if b {
			r.Probe(name)
		}
	}
	probe(refs[prim()].ambiguous > 0, "cb.verdict_ambiguous_by_reading")
	if defaultMin {
		// observation, not a violation: the statement names no default (framework owner's decision)
		probe(dead[0], "cb.default_minimum_calls_differs_from_reference_table")
		probe(dead[1], "cb.default_minimum_calls_as_in_reference_table")
		probe(!dead[0] && !dead[1], "cb.default_minimum_calls_undecided")
	}
	probe(reachedOpen, "cb.reached_open")
	probe(reachedHalf, "cb.reached_half_open")
	probe(inflightMax >= 2, "cb.concurrent_calls_in_flight")
	probe(recovered, "cb.half_open_recovered_to_closed")
	probe(p.Via == "new", "cb.policy_via_newpolicy")
	for _, f := range p.Omit {
		if p.Via == "new" || f == "wait" || f == "slow_dur" || f == "max_half" {
			probe(true, "cb.omitted."+f)
		}
	}
	probe(p.Via == "new" && len(p.Omit) >= 8 && reachedOpen && reachedHalf, "cb.documented_default_policy_opened_and_half_opened")
	probe(c08Has(p.Omit, "wait") && reachedHalf, "cb.default_open_wait_elapsed")
	probe(slowUnknown, "cb.slow_threshold_left_out")
	probe(p.Spell != 0, fmt.Sprintf("cb.duration_spelling_%d", p.Spell))
	probe(p.MaxHalfMs == 0 && p.Spell != 0 && !c08Has(p.Omit, "max_half"), "cb.explicit_zero_max_wait_in_half_open")
	probe(p.CNE, "cb.counting_network_error_set")
	probe(p.Size > 10 && reachedOpen, "cb.big_window_opened")
	probe(p.Size > 10 && p.TimeBased && reachedOpen, "cb.big_time_window_opened")
	probe(wrapped, "cb.count_window_wrapped_around")
	probe(bigVerdict, "cb.half_open_verdict_with_more_than_5_trials")
	probe(execAdmitted, "cb.execute_api_admitted")
	probe(execRejected, "cb.execute_api_rejected")
	probe(cancelRecorded, "cb.cancelled_call_recorded")
	if reachedOpen && reachedHalf {
		r.Nontrivial()
	}
	h := hist.String()
	// signature: the history with times stripped
	var sig strings.Builder
	for _, f := range strings.Fields(h) {
		if i := strings.Index(f, "@"); i > 0 {
			j := strings.Index(f, "[")
			sig.WriteString(f[:i])
			if j > 0 {
				sig.WriteString(f[j:])
			}
		}
	}
	r.SetSig(fmt.Sprintf("%+v|%s", p, sig.String()))
}

func TestVerifC08(t *testing.T) {
	hdrv.Main(t, &hdrv.Harness{
		ID:       "C08",
		Gen:      c08Gen,
		New:      func() interface{} { return &c08Scenario{} },
		Exec:     c08Exec,
		MaxSteps: 20000,
		Rule: "scenario = drawn policy (thresholds, COUNT/TIME window 1-10 calls / 1-5 s and, in 'big' runs, up to 100 calls / 200 s with up to 10 trials and up to ~250 calls; durations incl. 1.5s/1m/2m) built as a struct literal or by resilience.NewPolicy from a raw map with spec fields left out (documented defaults) and durations spelled in every ParseDuration form; " +
			"1-5 caller tasks with gaps/durations/outcomes (ok, slow, fail, panic, cancelled context) incl. exact boundary gaps, through Wrap or libcb Execute; " +
			"non-trivial = the breaker reached OPEN and HALF_OPEN; distinct = distinct (policy, event-kind history with states) signatures",
		Real: []string{"pkg/util/circuitbreaker (CircuitBreaker incl. Execute, windows)", "pkg/resilience (NewPolicy, CircuitBreakerKind.DefaultPolicy, CircuitBreakerPolicy.CreateWrapper, circuitBreakerWrapper.Wrap)"},
		Stub: []string{"callers and backend outcome script (harness)", "sync.Mutex -> simsync.Mutex (same semantics + gates)"},
		Assumptions: []string{"AcquirePermission/RecordResult take effect in the order their results are observed by the single-P cooperative schedule",
			"slow = duration >= 2x threshold, fast <= threshold/4 (a duration exactly on the threshold may count either way: doc says '>' and code says '>=')",
			"spec fields left out take the defaults documented in doc/reference/controllers.md; slowCallDurationThreshold has no documented default, so with it left out any call of non-zero duration may or may not count as slow; with minimumNumberOfCalls left out both the documented default 10 and the implemented 100 are accepted (probe cb.default_minimum_calls_differs_from_reference_table)",
			"a call that ends with an error after its context was cancelled is a failed call",
			"C08.passthrough: an admitted call gets the caller's context and the caller gets the call's own error / result / panic",
		},
	})
}
