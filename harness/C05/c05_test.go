//go:debug asynctimerchan=0
//go:build go1.21

package httpserver

// C05 — IP filter: denied clients never reach a pipeline, allowed ones are
// unaffected.
//
// The real mux (supervisor.NewSpec -> mux.reload -> mux.ServeHTTP ->
// muxInstance.search, ipfilter.New / IPFilter.Allow, httpprot.NewRequest with
// the realip extraction) is driven by 1-4 simulated client tasks through
// httptest recorders and a recording MuxMapper. Server-, rule- and path-level
// ipfilter specs are drawn from a small IPv4+IPv6 address universe (single
// addresses, CIDRs with boundary prefix lengths, host bits set or not,
// overlapping allow/block entries, blockByDefault); the route cache size is
// drawn from {0,1,2,8}, so the order in which the clients' requests reach the
// mux (a scheduler decision) decides who populates / evicts the cache.
//
// Oracle (written from the property statement and doc/reference/controllers.md,
// membership by net.IPNet.Contains):
//   - which route a request belongs to is NOT modelled here (C01's domain): a
//     quiescent twin of the same mux code with every filter removed and the
//     cache switched off answers the same request; its backend name tells the
//     rule and path "the router selects".
//   - filters applying to a request = server filter, filter of the rule that
//     holds the selected path, filter of the selected path ("definite").
//     Filters of rules that match the host and are consulted before the
//     selected rule (or of all host-matching rules when no route exists) are
//     "maybe applying": doc says "IP Filter for all traffic under the rule",
//     which can be read either way. Denied only by a "maybe" filter => 403
//     without handler or the twin's answer are both accepted, BUT the answer
//     must not depend on the history: it has to be the one the same
//     configuration gives without a route cache (statement: "with or without
//     the route cache and whatever requests preceded it").
//   - definite-denied => status 4xx, 403 when the twin routes it, no handler
//     invocation. Not denied at all => (status, backend, handler-visible path)
//     equal to the twin's.
//
// Leniency decisions:
//   - which address is "the client" follows the documented rule of the
//     extraction package easegress imports (tomasen/realip): no X-Real-IP and
//     no X-Forwarded-For -> peer address; else the first valid public hop of
//     X-Forwarded-For; else X-Real-IP (c05ClientOf). Sources: RemoteAddr;
//     X-Real-IP; XFF "client[, proxy]"; XFF and X-Real-IP agreeing; XFF made
//     of private hops only + X-Real-IP = client (the same private chain is
//     reused for different clients of a run); XFF "private hops, client" with
//     a decoy X-Real-IP; XFF client + decoy X-Real-IP. Ops whose headers do
//     not name op.IP under that rule are skipped. Not generated: private-only
//     XFF without X-Real-IP (the rule yields no address), unparseable hops.
//   - Invalid list entries are not generated (validation rejects them).
//   - cached 404/405 answered to a client the server filter denies is accepted
//     (statement: any 4xx unless the route exists) — that is C12's business.
//   - with header-conditioned paths (a minority of scenarios) a not-denied
//     request that the cached mux routes to ANOTHER path than the twin is not
//     judged here (pure cache shadowing, C12.header-shadow); only its filter
//     consequences are (denied client reaching a pipeline, allowed client
//     refused by a filter of a path that is not its route).
//   - cache keys are collision free by construction of the alphabet (C12).
//
// Hot reloads (mux.reload with a changed spec). About a third of the scenarios
// own 1-3 further GENERATIONS of the spec: rules, paths and cacheSize stay,
// ipFilter blocks are edited at the server level only (the routing rules are
// then identical across the reload), at the rule level only, at the path level
// only, at several levels, not at all, or the denial of one client is moved
// between levels (hoisted from rule/path filters to the server filter or
// pushed down) so that it is denied before and after, only by other lists.
// Every generation is its own supervisor.NewSpec object, as a configuration
// update delivers one. Reloads are issued by an admin task beside the clients
// (under traffic: requests parked at gates inside the filters or inside the
// handler) and by the clients themselves (a single client => quiescent: no
// request in flight), walk forward through the generations and sometimes back
// to an earlier one, with and without route cache. Reloads are serialised by
// the harness (one object is never reloaded by two callers at once).
//   - a request snapshots the number of reloads that have RETURNED immediately
//     before it is handed to ServeHTTP and the number of reloads STARTED
//     immediately after ServeHTTP returned (no gate in between). It may be
//     judged by any generation installed by a reload in that window: exactly
//     the newest one when no reload overlaps it ("requests started after the
//     reload returned must be judged by the new lists"), either generation
//     when it overlaps one. The whole oracle above is applied per generation
//     (cache-less twin of THAT generation); the answer must be accepted by at
//     least one. Mixing levels of two generations is therefore a violation
//     only when the result fits neither.
//   - an answer accepted by no admissible generation but by one a returned
//     reload had already replaced is reported as C05.reload.* (old lists
//     still applied); otherwise under the ordinary class, judged by the
//     newest admissible generation.
//   - not generated: reloads that change rules/paths/hosts/cacheSize (the
//     filter-less routing twin is shared by all generations), concurrent
//     reloads of one server.
//
// Further widening: CIDR prefix lengths are drawn from the whole range (not
// only the boundary grid) in a quarter of the entries; clients one bit off
// the edge of a list entry (last prefix bit / first host bit / last bit
// flipped) join the population and, unless plainly public unicast, are only
// presented through RemoteAddr or a lone X-Real-IP; IPv6 clients are sometimes
// spelled fully expanded in upper case in the headers (same address); a list
// now and then has 4-12 entries.
//
// Ordinary options and inputs beyond the lists (two thirds of the runs):
// hostRegexp rules (beside or instead of host), pathRegexp paths (anchored,
// unanchored, groups used by rewriteTarget), header conditions written as
// regexp, methods HEAD/PUT/DELETE/OPTIONS in requests and in paths' method
// lists, xForwardedFor: true, clientMaxBodySize at server and path level with
// request bodies of 1-100 bytes, the ACME challenge path (answered in front of
// the routes), key respellings that differ only in letter case / a trailing
// slash. Client information: X-Forwarded-For members padded with blanks,
// X-Forwarded-For as two header lines (client line first), a hop that is not
// an address ("unknown", ip:port, [v6]) in front of the client (skipped by the
// documented rule: "first VALID public hop").
//   - whether a route exists is asked of the twin with the body taken off (a
//     413 of the twin hides the pipeline, not the route): a denied client gets
//     403 on an existing route whatever its body; a not-denied one gets the
//     twin's answer including a 413.
//   - "same answer" includes what the pipeline sees: backend, rewritten path,
//     X-Forwarded-For after xForwardedFor, body size.
//   - a rule is "maybe applying" if its host equals the request's up to letter
//     case or its hostRegexp finds the host (with or without port, as sent or
//     lower-cased): a lenient superset of any reading of "matches the host".
//   - a request whose only client information is not an address (X-Real-IP:
//     unknown): 403 and the unfiltered answer are both accepted, but the answer
//     must equal the cache-less one (C05.non-address-client-answer-depends-on-history).
//   - X-Forwarded-For in two header lines with only private hops in the first
//     (const c05MultiLineXFFPrivateFirst, on): the client is the first public
//     hop of the joined list; class C05.client-in-later-x-forwarded-for-line-ignored
//     (was a genuine defect, repaired by c43d264).
//   - spellings of one address: header-borne clients are also written
//     IPv4-mapped (::ffff:a.b.c.d, ::ffff:hhhh:hhhh, 0:0:0:0:0:ffff:hhhh:hhhh)
//     and, IPv6, upper case / four-digit groups / one zero group as "::";
//     IPv6 list entries likewise. The decision is made on the parsed address
//     (the earlier "IPv4-mapped is a matter of reading" leniency is gone: the
//     statement judges the address, net.ParseIP and IPNet.Contains treat both
//     spellings alike). List ENTRIES in IPv4-mapped spelling (const
//     c05MappedListEntries, on) used to match nothing
//     (C05.ipv4-mapped-list-entry-ignored) or to make ipfilter.New panic
//     (C05.valid-list-entry-panics-on-load): genuine defect, repaired by 7d1a200.
//   - mux.reload panicking on a validated spec is C05.valid-list-entry-panics-on-load.
//   - still not generated: several X-Real-IP lines, paths
//     with path+pathPrefix+pathRegexp at once, matchAllHeader, globalFilter,
//     negative (stream) clientMaxBodySize, https/http3 options.
//
// Violation classes: C05.{server,rule,path}-filter-bypassed (denied client
// reached the backend of its own route), C05.denied-status-not-4xx / -not-403,
// C05.allowed-refused, C05.allowed-misrouted, C05.other,
// C05.reload.denied-served-by-old-lists, C05.reload.allowed-refused-by-old-lists,
// C05.reload.old-lists-still-applied, and three classes for the cached branch
// of muxInstance.search (genuine defects when the harness was written, repaired
// in /repo by fd4d021): C05.earlier-rule-filter-skipped-on-cache-hit,
// C05.denied-reaches-sibling-path, C05.allowed-refused-by-sibling-path-filter.
// For mutation experiments only, VERIF_C05_MASK=<class,class,...> turns the
// listed classes into probes (c05.masked.<class>) so that they do not end the
// campaign before a mutant is reached.

import (
	"fmt"
	"io"
	"net"
	"net/http"
	"net/http/httptest"
	"os"
	"regexp"
	"runtime/debug"
	"sort"
	"strings"
	"testing"
	"time"

	"github.com/megaease/easegress/pkg/context"
	"github.com/megaease/easegress/pkg/logger"
	"github.com/megaease/easegress/pkg/protocols/httpprot"
	"github.com/megaease/easegress/pkg/protocols/httpprot/httpstat"
	"github.com/megaease/easegress/pkg/supervisor"
	"github.com/megaease/easegress/pkg/util/ipfilter"
	"verif/simkit/hdrv"
	"verif/simkit/sim"
)

func init() { logger.InitNop() }

// ---- scenario ---------------------------------------------------------------

type c05Filter struct {
	BlockByDefault bool     `json:"bbd"`
	Allow          []string `json:"allow"`
	Block          []string `json:"block"`
}

type c05Path struct {
	Kind    string     `json:"kind"`               // exact | prefix | regexp | any (Path = pattern for regexp)
	TagRe   bool       `json:"tag_re,omitempty"`   // header condition written as regexp instead of values
	MaxBody int64      `json:"max_body,omitempty"` // path-level clientMaxBodySize (0: none)
	Path    string     `json:"path"`
	Methods []string   `json:"methods"`
	Tag     string     `json:"tag"`     // non-empty: path is conditioned on header X-Tag == Tag
	Rewrite string     `json:"rewrite"` // rewriteTarget
	Filter  *c05Filter `json:"filter"`
	// Alts[g-1] = this path's filter in spec generation g (null = no filter);
	// generations beyond len(Alts) keep Filter.
	Alts []*c05Filter `json:"alts,omitempty"`
}

type c05Rule struct {
	Host   string       `json:"host"`
	Filter *c05Filter   `json:"filter"`
	Alts   []*c05Filter `json:"alts,omitempty"` // as c05Path.Alts
	// HostRegexp: the rule's hostRegexp (may stand beside or instead of Host)
	HostRegexp string    `json:"host_regexp,omitempty"`
	Paths      []c05Path `json:"paths"`
}

type c05Op struct {
	Kind   string `json:"kind"` // req | reload
	GapUs  int64  `json:"gap_us"`
	Host   string `json:"host"`
	Method string `json:"method"`
	Path   string `json:"path"`
	Tag    string `json:"tag"`
	IP     string `json:"ip"`
	Via    string `json:"via"` // remote | xri | xff | xffproxy | both | privxff | privpub | xffdecoy
	// Chain: X-Forwarded-For hops that are all private/loopback (privxff,
	// privpub); Decoy: an address put into X-Real-IP that the documented rule
	// must NOT pick (privpub, xffdecoy; may be empty).
	Chain string `json:"chain,omitempty"`
	Decoy string `json:"decoy,omitempty"`
	// Gen (kind reload): the spec generation the HTTPServer is reloaded with;
	// 0 = the filters in the Filter fields, g = the Alts[g-1] ones.
	Gen int `json:"gen,omitempty"`
	// Form "exp": an IPv6 client address is written in the headers in its
	// fully expanded upper-case form (same address, other spelling).
	Form string `json:"form,omitempty"`
	// Body: length of the request body (0: none)
	Body int `json:"body,omitempty"`
	// Raw: header text that is not an address (via xrijunk: the whole
	// X-Real-IP; via xffjunk: an X-Forwarded-For hop in front of the rest)
	Raw string `json:"raw,omitempty"`
}

type c05Client struct {
	Ops []c05Op `json:"ops"`
}

type c05Scenario struct {
	CacheSize    int         `json:"cache_size"`
	Server       *c05Filter  `json:"server"`
	Rules        []c05Rule   `json:"rules"`
	Clients      []c05Client `json:"clients"`
	HandlerYield bool        `json:"handler_yield"`
	// hot reloads: ServerAlts as c05Path.Alts; Reloader = ops (kind reload) of
	// a dedicated admin task that runs beside the clients.
	ServerAlts []*c05Filter `json:"server_alts,omitempty"`
	// further HTTPServer options (same in all generations and in the twins)
	XFwd     bool    `json:"xfwd,omitempty"`     // xForwardedFor: true
	MaxBody  int64   `json:"max_body,omitempty"` // clientMaxBodySize
	Reloader []c05Op `json:"reloader,omitempty"`
}

const c05MaxGen = 6

// c05MultiLineXFFPrivateFirst switches on requests whose X-Forwarded-For is
// spread over two header LINES with only private hops in the first line and
// the public client in the second (what a proxy that ADDS its own header line
// produces). By RFC 7230 3.2.2 that is the list "private..., client"; the
// address extraction used to read the first line only (genuine defect, class
// C05.client-in-later-x-forwarded-for-line-ignored, repaired in /repo by
// c43d264). Permanently on.
const c05MultiLineXFFPrivateFirst = true

// c05At: the filter a slot holds in generation g.
func c05At(base *c05Filter, alts []*c05Filter, g int) *c05Filter {
	if g >= 1 && g-1 < len(alts) {
		return alts[g-1]
	}
	return base
}

// c05View is the scenario as generation g configures it (filters of that
// generation in the Filter fields, no Alts).
func c05View(sc *c05Scenario, g int) *c05Scenario {
	v := &c05Scenario{CacheSize: sc.CacheSize, XFwd: sc.XFwd, MaxBody: sc.MaxBody, Server: c05At(sc.Server, sc.ServerAlts, g)}
	for _, ru := range sc.Rules {
		r2 := c05Rule{Host: ru.Host, HostRegexp: ru.HostRegexp, Filter: c05At(ru.Filter, ru.Alts, g), Paths: []c05Path{}}
		for _, p := range ru.Paths {
			p2 := p
			p2.Filter, p2.Alts = c05At(p.Filter, p.Alts, g), nil
			r2.Paths = append(r2.Paths, p2)
		}
		v.Rules = append(v.Rules, r2)
	}
	return v
}

func c05Clone(f *c05Filter) *c05Filter {
	if f == nil {
		return nil
	}
	return &c05Filter{BlockByDefault: f.BlockByDefault, Allow: append([]string{}, f.Allow...), Block: append([]string{}, f.Block...)}
}

func c05SameFilter(a, b *c05Filter) bool {
	if a == nil || b == nil {
		return a == nil && b == nil
	}
	return a.BlockByDefault == b.BlockByDefault && strings.Join(a.Allow, ",") == strings.Join(b.Allow, ",") && strings.Join(a.Block, ",") == strings.Join(b.Block, ",")
}

// address universe: neighbours at interesting prefix boundaries, both families
var c05V4 = []string{"203.0.113.5", "203.0.113.4", "203.0.113.6", "203.0.113.130", "203.0.112.5", "198.51.100.7", "8.8.8.8", "128.0.0.1", "10.1.2.3", "192.168.1.7"}
var c05V6 = []string{"2001:db8::1", "2001:db8::2", "2001:db8::3", "2001:db8:0:1::1", "2001:db9::1", "2400:cb00::5", "8000::1", "fc00::1"}
var c05V4Len = []int{0, 1, 8, 16, 22, 23, 24, 25, 30, 31, 32}
var c05V6Len = []int{0, 1, 3, 16, 31, 32, 33, 48, 63, 64, 65, 127, 128}

// c05Private: addresses that are only ever presented through RemoteAddr or a
// lone X-Real-IP (the documented X-Forwarded-For rule skips local/private
// hops; anything that is not plainly a public unicast address is kept out of
// X-Forwarded-For altogether).
func c05Private(s string) bool {
	ip := net.ParseIP(s)
	if ip == nil {
		return true
	}
	for _, n := range c05NonPublic {
		if n.Contains(ip) {
			return true
		}
	}
	return !ip.IsGlobalUnicast() || ip.IsPrivate()
}

// c05Neighbour derives a client address that sits right at the edge of a list
// entry: the last prefix bit flipped (just outside), the first host bit
// flipped (just inside) or the very last bit flipped (inside). With prefix
// lengths drawn from the whole range this puts a client on either side of
// every possible prefix boundary.
func c05Neighbour(rng *sim.Rand, entry string) string {
	base, l := entry, -1
	if i := strings.Index(entry, "/"); i >= 0 {
		base = entry[:i]
		fmt.Sscanf(entry[i+1:], "%d", &l)
	}
	ip := net.ParseIP(base)
	if ip == nil {
		return ""
	}
	var b []byte
	if v4 := ip.To4(); v4 != nil && !strings.Contains(base, ":") {
		b = append([]byte{}, v4...)
	} else {
		b = append([]byte{}, ip.To16()...)
	}
	bits := len(b) * 8
	if l < 0 || l > bits {
		l = bits
	}
	flip := func(i int) { b[i/8] ^= 0x80 >> uint(i%8) }
	switch k := rng.Intn(3); {
	case k == 0 && l > 0:
		flip(l - 1)
	case k == 1 && l < bits:
		flip(l)
	case l < bits:
		flip(bits - 1)
	default:
		flip(bits - 1) // neighbour of a single address
	}
	out := net.IP(b)
	if len(b) == 16 && out.To4() != nil {
		return ""
	}
	return out.String()
}

func c05Expand6(s string) string {
	ip := net.ParseIP(s)
	if ip == nil || ip.To4() != nil {
		return s
	}
	ip = ip.To16()
	parts := make([]string, 8)
	for i := 0; i < 8; i++ {
		parts[i] = fmt.Sprintf("%X", uint16(ip[2*i])<<8|uint16(ip[2*i+1]))
	}
	return strings.Join(parts, ":")
}

// c05MappedListEntries switches on list entries written in IPv4-mapped form
// (::ffff:a.b.c.d, ::ffff:a.b.c.d/(96+l)). The statement judges the address,
// not its spelling; net.ParseIP / net.IPNet.Contains treat both spellings
// alike. Such entries used to match nothing at all (class
// C05.ipv4-mapped-list-entry-ignored) or to make ipfilter.New panic (class
// C05.valid-list-entry-panics-on-load): genuine defect, repaired in /repo by
// 7d1a200. Permanently on.
const c05MappedListEntries = true

// c05Spell writes the address ip (canonical text) in another spelling of the
// SAME address. IPv6: "exp" upper case, all groups, no leading zeros; "lz"
// lower case, all groups, four digits each; "upper" canonical but upper case;
// "part" all groups but one zero group replaced by "::". IPv4: "map4"
// ::ffff:a.b.c.d, "map4hex" ::ffff:hhhh:hhhh, "map4long" 0:0:0:0:0:ffff:hhhh:hhhh.
// An unknown form or a form of the other family leaves the text as it is.
func c05Spell(s, form string) string {
	ip := net.ParseIP(s)
	if ip == nil {
		return s
	}
	if v4 := ip.To4(); v4 != nil {
		if strings.Contains(s, ":") {
			return s
		}
		switch form {
		case "map4":
			return "::ffff:" + s
		case "map4hex":
			return fmt.Sprintf("::ffff:%02x%02x:%02x%02x", v4[0], v4[1], v4[2], v4[3])
		case "map4long":
			return fmt.Sprintf("0:0:0:0:0:ffff:%x:%x", uint16(v4[0])<<8|uint16(v4[1]), uint16(v4[2])<<8|uint16(v4[3]))
		}
		return s
	}
	ip = ip.To16()
	g := make([]uint16, 8)
	for i := range g {
		g[i] = uint16(ip[2*i])<<8 | uint16(ip[2*i+1])
	}
	switch form {
	case "exp":
		return c05Expand6(s)
	case "lz":
		parts := make([]string, 8)
		for i, x := range g {
			parts[i] = fmt.Sprintf("%04x", x)
		}
		return strings.Join(parts, ":")
	case "upper":
		return strings.ToUpper(s)
	case "part":
		// the LAST zero group becomes "::", the others are written out
		z := -1
		for i, x := range g {
			if x == 0 {
				z = i
			}
		}
		if z < 0 {
			return s
		}
		var l, r []string
		for i, x := range g {
			switch {
			case i < z:
				l = append(l, fmt.Sprintf("%x", x))
			case i > z:
				r = append(r, fmt.Sprintf("%x", x))
			}
		}
		return strings.Join(l, ":") + "::" + strings.Join(r, ":")
	}
	return s
}

// c05SpellEntry respells the address part of a list entry.
func c05SpellEntry(rng *sim.Rand, e string) string {
	base, suffix := e, ""
	if i := strings.Index(e, "/"); i >= 0 {
		base, suffix = e[:i], e[i:]
	}
	if strings.Contains(base, ":") {
		if rng.Bool(0.25) {
			return c05Spell(base, rng.PickStr("exp", "lz", "upper", "part")) + suffix
		}
		return e
	}
	if c05MappedListEntries && rng.Bool(0.12) {
		l := 32
		if suffix != "" {
			fmt.Sscanf(suffix[1:], "%d", &l)
			return fmt.Sprintf("%s/%d", c05Spell(base, "map4"), 96+l)
		}
		return c05Spell(base, rng.PickStr("map4", "map4hex"))
	}
	return e
}

func c05GenEntry(rng *sim.Rand, pool []string) string {
	return c05SpellEntry(rng, c05GenEntry0(rng, pool))
}

func c05GenEntry0(rng *sim.Rand, pool []string) string {
	a := pool[rng.Intn(len(pool))]
	v6 := strings.Contains(a, ":")
	if rng.Bool(0.35) {
		return a
	}
	var l int
	switch {
	case rng.Bool(0.25): // any prefix length at all
		if v6 {
			l = rng.Intn(129)
		} else {
			l = rng.Intn(33)
		}
	case v6:
		l = c05V6Len[rng.Intn(len(c05V6Len))]
	default:
		l = c05V4Len[rng.Intn(len(c05V4Len))]
	}
	e := fmt.Sprintf("%s/%d", a, l)
	if rng.Bool(0.5) {
		if _, n, err := net.ParseCIDR(e); err == nil {
			e = n.String()
		}
	}
	return e
}

func c05Uniq(xs []string) []string {
	seen := map[string]bool{}
	out := []string{}
	for _, x := range xs {
		if !seen[x] {
			seen[x] = true
			out = append(out, x)
		}
	}
	return out
}

func c05GenFilter(rng *sim.Rand, pool []string, present float64) *c05Filter {
	if !rng.Bool(present) {
		return nil
	}
	f := &c05Filter{BlockByDefault: rng.Bool(0.4), Allow: []string{}, Block: []string{}}
	na, nb := rng.Pick(0, 0, 1, 1, 2, 3), rng.Pick(0, 1, 1, 2, 3)
	if rng.Bool(0.06) { // a long list now and then
		na, nb = na+rng.Range(3, 9), nb+rng.Range(3, 9)
	}
	for i := 0; i < na; i++ {
		f.Allow = append(f.Allow, c05GenEntry(rng, pool))
	}
	for i := 0; i < nb; i++ {
		if len(f.Allow) > 0 && rng.Bool(0.25) {
			// overlapping entry: the same entry, or the same base address with another prefix
			e := f.Allow[rng.Intn(len(f.Allow))]
			if rng.Bool(0.5) {
				base := e
				if i := strings.Index(e, "/"); i >= 0 {
					base = e[:i]
				}
				e = c05GenEntry(rng, []string{base})
			}
			f.Block = append(f.Block, e)
			continue
		}
		f.Block = append(f.Block, c05GenEntry(rng, pool))
	}
	f.Allow, f.Block = c05Uniq(f.Allow), c05Uniq(f.Block)
	return f
}

// c05MutFilter: what an operator's edit of one ipFilter block looks like.
func c05MutFilter(rng *sim.Rand, f *c05Filter, pool, entryPool []string) *c05Filter {
	if f == nil {
		return c05GenFilter(rng, entryPool, 1.1)
	}
	g := c05Clone(f)
	switch rng.Intn(8) {
	case 0:
		return nil
	case 1:
		g.BlockByDefault = !g.BlockByDefault
	case 2:
		g.Allow, g.Block = g.Block, g.Allow
	case 3:
		return c05GenFilter(rng, entryPool, 1.1)
	case 4: // block one more client
		g.Block = append(g.Block, pool[rng.Intn(len(pool))])
	case 5: // allow one more client
		g.Allow = append(g.Allow, pool[rng.Intn(len(pool))])
	case 6: // drop an entry
		switch {
		case len(g.Block) > 0 && (len(g.Allow) == 0 || rng.Bool(0.6)):
			i := rng.Intn(len(g.Block))
			g.Block = append(g.Block[:i:i], g.Block[i+1:]...)
		case len(g.Allow) > 0:
			i := rng.Intn(len(g.Allow))
			g.Allow = append(g.Allow[:i:i], g.Allow[i+1:]...)
		default:
			g.BlockByDefault = !g.BlockByDefault
		}
	default: // move an entry to the other list
		switch {
		case len(g.Block) > 0 && (len(g.Allow) == 0 || rng.Bool(0.5)):
			i := rng.Intn(len(g.Block))
			g.Allow = append(g.Allow, g.Block[i])
			g.Block = append(g.Block[:i:i], g.Block[i+1:]...)
		case len(g.Allow) > 0:
			i := rng.Intn(len(g.Allow))
			g.Block = append(g.Block, g.Allow[i])
			g.Allow = append(g.Allow[:i:i], g.Allow[i+1:]...)
		default:
			g.Block = append(g.Block, c05GenEntry(rng, entryPool))
		}
	}
	g.Allow, g.Block = c05Uniq(g.Allow), c05Uniq(g.Block)
	return g
}

// c05WithDeny / c05WithoutDeny: the smallest edit of f after which the lists
// deny / do not deny client c (by the statement's decision table).
func c05WithDeny(f *c05Filter, c string) *c05Filter {
	ip := net.ParseIP(c)
	g := c05Clone(f)
	if g == nil {
		g = &c05Filter{Allow: []string{}, Block: []string{}}
	}
	g.Block = c05Uniq(append(g.Block, c))
	if d, _, _ := c05Denied(g, ip); d {
		return g
	}
	keep := []string{}
	for _, e := range g.Allow {
		if !c05Contains(e, ip) {
			keep = append(keep, e)
		}
	}
	g.Allow = keep
	return g
}

func c05WithoutDeny(f *c05Filter, c string) *c05Filter {
	ip := net.ParseIP(c)
	g := c05Clone(f)
	if g == nil {
		return nil
	}
	keep := []string{}
	for _, e := range g.Block {
		if !c05Contains(e, ip) {
			keep = append(keep, e)
		}
	}
	g.Block = keep
	if d, _, _ := c05Denied(g, ip); !d {
		return g
	}
	g.Allow = c05Uniq(append(g.Allow, c))
	if d, _, _ := c05Denied(g, ip); !d {
		return g
	}
	return nil
}

// c05GenMove builds generation g as "the denial of one client moves to
// another level": hoisted from the rule/path filters that deny it to the
// server filter, or pushed down from the server filter into every rule. The
// client is denied before and after the reload, only by different lists; a
// request that mixes levels of two generations lets it through.
func c05GenMove(rng *sim.Rand, sc *c05Scenario, g int, pool []string) bool {
	c := pool[rng.Intn(len(pool))]
	ip := net.ParseIP(c)
	srv := c05At(sc.Server, sc.ServerAlts, g-1)
	dS, _, _ := c05Denied(srv, ip)
	if !dS {
		any := false
		for _, ru := range sc.Rules {
			if d, _, _ := c05Denied(c05At(ru.Filter, ru.Alts, g-1), ip); d {
				any = true
			}
			for _, p := range ru.Paths {
				if d, _, _ := c05Denied(c05At(p.Filter, p.Alts, g-1), ip); d {
					any = true
				}
			}
		}
		if !any {
			return false
		}
	}
	var nsrv *c05Filter
	if dS {
		nsrv = c05WithoutDeny(srv, c)
	} else {
		nsrv = c05WithDeny(srv, c)
	}
	sc.ServerAlts = append(sc.ServerAlts, nsrv)
	for i := range sc.Rules {
		ru := &sc.Rules[i]
		prev := c05At(ru.Filter, ru.Alts, g-1)
		if dS {
			ru.Alts = append(ru.Alts, c05WithDeny(prev, c))
		} else {
			ru.Alts = append(ru.Alts, c05WithoutDeny(prev, c))
		}
		for j := range ru.Paths {
			p := &ru.Paths[j]
			pp := c05At(p.Filter, p.Alts, g-1)
			if dS {
				p.Alts = append(p.Alts, c05Clone(pp))
			} else {
				p.Alts = append(p.Alts, c05WithoutDeny(pp, c))
			}
		}
	}
	return true
}

func c05Gen(rng *sim.Rand, tier string) interface{} {
	sc := &c05Scenario{}
	sc.CacheSize = rng.Pick(0, 1, 2, 2, 8, 8)
	sc.HandlerYield = rng.Bool(0.5)
	headers := rng.Bool(0.12)

	// per-scenario client population: 2-5 addresses, both families likely
	var pool []string
	np := rng.Range(2, 5)
	for i := 0; i < np; i++ {
		if rng.Bool(0.6) {
			pool = append(pool, c05V4[rng.Intn(len(c05V4))])
		} else {
			pool = append(pool, c05V6[rng.Intn(len(c05V6))])
		}
	}
	// list entries come mostly from the same population, sometimes from the whole universe
	entryPool := append([]string(nil), pool...)
	if rng.Bool(0.5) {
		entryPool = append(entryPool, c05V4[rng.Intn(len(c05V4))], c05V6[rng.Intn(len(c05V6))])
	}
	// how dense filters are is itself a per-run knob (swarm)
	pS, pR, pP := float64(rng.Pick(0, 30, 50, 80))/100, float64(rng.Pick(0, 30, 50, 80))/100, float64(rng.Pick(0, 30, 50, 80))/100
	if pS == 0 && pR == 0 && pP == 0 {
		pR = 0.7
	}
	sc.Server = c05GenFilter(rng, entryPool, pS)
	// ordinary options and inputs beyond the filter lists themselves (a per-run
	// knob: a third of the runs keep to the plain shape)
	unexplored := rng.Bool(0.67)
	if unexplored {
		sc.XFwd = rng.Bool(0.25)
		sc.MaxBody = int64(rng.Pick(0, 0, 0, 8, 64))
	}
	nr := rng.Range(1, 3)
	for i := 0; i < nr; i++ {
		ru := c05Rule{Host: rng.PickStr("", "a.test", "a.test", "b.test"), Paths: []c05Path{}}
		if ru.Host != "" && rng.Bool(0.06) {
			ru.Host = strings.ToUpper(ru.Host[:1]) + ru.Host[1:] // a rule for the other spelling
		}
		ru.Filter = c05GenFilter(rng, entryPool, pR)
		if unexplored && rng.Bool(0.2) {
			// hostRegexp instead of or beside the exact host
			ru.HostRegexp = rng.PickStr(`^.*\.test$`, `^a\..*$`, `^(a|b)\.test$`, `test`, `^[a-z]+\.test$`)
			if rng.Bool(0.5) {
				ru.Host = ""
			}
		}
		npth := rng.Pick(0, 1, 1, 2, 2, 3)
		for j := 0; j < npth; j++ {
			p := c05Path{Methods: []string{}}
			switch rng.Intn(7) {
			case 0, 1:
				p.Kind, p.Path = "exact", rng.PickStr("/a", "/a", "/b", "/a/x")
			case 2, 3:
				p.Kind, p.Path = "prefix", rng.PickStr("/a", "/", "/b")
			case 4:
				p.Kind, p.Path = "exact", "/a"
			case 5:
				p.Kind = "any"
			default:
				if unexplored {
					// pathRegexp: anchored, character class, unanchored, with a group
					p.Kind, p.Path = "regexp", rng.PickStr(`^/a/.*$`, `^/[ab]$`, `/a`, `^/a(/.*)?$`, `^/(a|b)(/.*)?$`)
				} else {
					p.Kind = "any"
				}
			}
			switch rng.Intn(7) {
			case 0:
				p.Methods = []string{"GET"}
			case 1:
				p.Methods = []string{"POST"}
			case 2:
				p.Methods = []string{"GET", "POST"}
			case 5:
				if unexplored {
					p.Methods = [][]string{{"HEAD"}, {"GET", "HEAD"}, {"PUT", "DELETE"}, {"POST", "PUT"}}[rng.Intn(4)]
				}
			}
			if headers && rng.Bool(0.5) {
				p.Tag = "v1"
				p.TagRe = unexplored && rng.Bool(0.3)
			}
			if p.Kind != "any" && rng.Bool(0.2) {
				p.Rewrite = "/rw"
				if p.Kind == "regexp" && strings.Contains(p.Path, "(/.*)?") && rng.Bool(0.5) {
					p.Rewrite = "/rw$1"
					if strings.HasPrefix(p.Path, "^/(a|b)") {
						p.Rewrite = "/rw/$1$2"
					}
				}
			}
			if unexplored {
				p.MaxBody = int64(rng.Pick(0, 0, 0, 0, 4, 32))
			}
			p.Filter = c05GenFilter(rng, entryPool, pP)
			ru.Paths = append(ru.Paths, p)
		}
		sc.Rules = append(sc.Rules, ru)
	}

	// boundary clients: addresses derived from list entries (one bit off the
	// prefix edge) join the client population
	if rng.Bool(0.5) {
		var ents []string
		col := func(f *c05Filter) {
			if f != nil {
				ents = append(ents, f.Allow...)
				ents = append(ents, f.Block...)
			}
		}
		col(sc.Server)
		for _, ru := range sc.Rules {
			col(ru.Filter)
			for _, p := range ru.Paths {
				col(p.Filter)
			}
		}
		for k, n := 0, rng.Range(1, 3); k < n && len(ents) > 0; k++ {
			if nb := c05Neighbour(rng, ents[rng.Intn(len(ents))]); nb != "" {
				pool = append(pool, nb)
			}
		}
	}

	// hot reloads: about a third of the scenarios own 1-3 further generations of
	// the spec. Rules, paths and cacheSize stay as they are, only ipFilter
	// blocks are edited: at the server level only (the routing rules are then
	// byte-identical across the reload), at the rule level only, at the path
	// level only, or at several levels at once.
	nG := 0
	if rng.Bool(0.3) { // every generation costs one supervisor.NewSpec
		nG = rng.Pick(1, 1, 1, 2, 3)
	}
	for g := 1; g <= nG; g++ {
		if rng.Bool(0.2) && c05GenMove(rng, sc, g, pool) {
			continue
		}
		mode := rng.Intn(20)
		chg := func(level int) bool {
			switch {
			case mode < 7:
				return level == 0
			case mode < 11:
				return level == 1 && rng.Bool(0.7)
			case mode < 15:
				return level == 2 && rng.Bool(0.7)
			case mode < 16:
				return false // reload with identical lists
			}
			return rng.Bool(0.5)
		}
		next := func(level int, base *c05Filter, alts []*c05Filter) *c05Filter {
			prev := c05At(base, alts, g-1)
			if chg(level) {
				return c05MutFilter(rng, prev, pool, entryPool)
			}
			return c05Clone(prev)
		}
		sc.ServerAlts = append(sc.ServerAlts, next(0, sc.Server, sc.ServerAlts))
		for i := range sc.Rules {
			ru := &sc.Rules[i]
			ru.Alts = append(ru.Alts, next(1, ru.Filter, ru.Alts))
			for j := range ru.Paths {
				p := &ru.Paths[j]
				p.Alts = append(p.Alts, next(2, p.Filter, p.Alts))
			}
		}
	}

	// a few "hot" cache keys per scenario, so that different clients meet on
	// the same cached route
	randKey := func() (string, string, string) {
		h, m, p := rng.PickStr("a.test", "a.test", "a.test", "b.test", "c.test", "a.test:8080"),
			rng.PickStr("GET", "GET", "GET", "POST"),
			rng.PickStr("/a", "/a", "/a", "/a/x", "/b", "/")
		if unexplored && rng.Bool(0.15) {
			m = rng.PickStr("HEAD", "HEAD", "PUT", "DELETE", "OPTIONS")
		}
		if unexplored && rng.Bool(0.03) {
			p = "/.well-known/acme-challenge/tok" // answered in front of the routes
		}
		return h, m, p
	}
	// respell: the same key with ONE component spelled differently in letter
	// case only (Host: RFC-wise the same host, for the rules' exact match
	// another one; method and path are case-sensitive) or, for the path, with a
	// trailing slash. Whatever the router makes of the respelled request, it is
	// another request than the original and must not inherit its cached route.
	respell := func(h, m, p string) (string, string, string) {
		switch rng.Intn(6) {
		case 0, 1, 2: // host
			name, port := h, ""
			if i := strings.Index(h, ":"); i >= 0 {
				name, port = h[:i], h[i:]
			}
			switch rng.Intn(3) {
			case 0:
				name = strings.ToUpper(name[:1]) + name[1:]
			case 1:
				name = strings.ToUpper(name)
			default:
				if i := strings.Index(name, "."); i >= 0 {
					name = name[:i] + strings.ToUpper(name[i:])
				}
			}
			return name + port, m, p
		case 3: // method
			return h, strings.ToLower(m), p
		case 4: // path, letter case
			if p == "/" {
				return h, m, "/A"
			}
			return h, m, strings.ToUpper(p)
		}
		if p == "/" {
			return h, m, "//"
		}
		return h, m, p + "/"
	}
	caseP := float64(rng.Pick(0, 0, 10, 25)) / 100
	var focus [][3]string
	for i, n := 0, rng.Range(1, 3); i < n; i++ {
		h, m, p := randKey()
		focus = append(focus, [3]string{h, m, p})
	}
	if caseP > 0 && rng.Bool(0.7) {
		// a hot key and its respelling: requests for both meet in one history
		k := focus[rng.Intn(len(focus))]
		h, m, p := respell(k[0], k[1], k[2])
		focus = append(focus, [3]string{h, m, p})
	}
	focusP := float64(rng.Pick(30, 60, 90)) / 100
	// proxy chains made of private hops only; a scenario owns one or two of
	// them and re-uses them for requests of DIFFERENT clients (what a fleet
	// of internal proxies looks like from the server's side)
	chains := []string{rng.PickStr("10.0.0.7, 192.168.1.9", "10.0.0.7", "192.168.1.9,10.0.0.7", "172.16.5.4, fc00::9", "127.0.0.1", "fe80::1, 10.9.9.9")}
	if rng.Bool(0.4) {
		chains = append(chains, rng.PickStr("10.0.0.8", "169.254.1.1, 10.0.0.7", "::1"))
	}
	pChainVia := float64(rng.Pick(0, 10, 30, 60)) / 100
	nc := rng.Range(1, 4)
	total := rng.Range(6, 40)
	// reloads issued by the clients themselves: with a single client they
	// happen at a quiescent point (no request is in flight), with several
	// clients under traffic
	pClientReload := 0.03
	adminReloads := nG > 0
	if nG > 0 && nc == 1 {
		pClientReload = 0.12
		adminReloads = rng.Bool(0.4)
	}
	if adminReloads {
		// the admin task: walks through the generations, sometimes back
		n := nG + rng.Pick(0, 0, 1, 2)
		for i := 0; i < n; i++ {
			g := i + 1
			if g > nG {
				g = rng.Intn(nG + 1)
			}
			sc.Reloader = append(sc.Reloader, c05Op{Kind: "reload", Gen: g, GapUs: int64(rng.Pick(0, 1, 300, 1000, 1000, 2500, 6000))})
		}
	}
	for c := 0; c < nc; c++ {
		cl := c05Client{}
		n := total / nc
		if n < 1 {
			n = 1
		}
		for i := 0; i < n; i++ {
			if rng.Bool(pClientReload) {
				cl.Ops = append(cl.Ops, c05Op{Kind: "reload", Gen: rng.Intn(nG + 1), GapUs: int64(rng.Pick(0, 1, 1000))})
				continue
			}
			op := c05Op{Kind: "req", GapUs: int64(rng.Pick(0, 0, 1, 1000))}
			if rng.Bool(focusP) {
				k := focus[rng.Intn(len(focus))]
				op.Host, op.Method, op.Path = k[0], k[1], k[2]
			} else {
				op.Host, op.Method, op.Path = randKey()
			}
			if rng.Bool(caseP * 0.5) {
				op.Host, op.Method, op.Path = respell(op.Host, op.Method, op.Path)
			}
			if headers && rng.Bool(0.5) {
				op.Tag = "v1"
			}
			op.IP = pool[rng.Intn(len(pool))]
			switch {
			case rng.Bool(pChainVia):
				op.Chain = chains[rng.Intn(len(chains))]
				op.Via = "privxff"
				if !c05Private(op.IP) && rng.Bool(0.3) {
					op.Via = "privpub"
					if rng.Bool(0.5) {
						op.Decoy = pool[rng.Intn(len(pool))]
					}
				}
			case unexplored && rng.Bool(0.03):
				// nothing but a non-address names the client
				op.Via, op.Raw, op.IP = "xrijunk", rng.PickStr("unknown", "203.0.113.9:4711", "[2001:db8::9]", "_hidden", "localhost"), "192.0.2.200"
			case unexplored && rng.Bool(0.08):
				op.Via, op.Raw = "xffjunk", rng.PickStr("unknown", "unknown", "203.0.113.9:4711", "[2001:db8::9]:4711", "[2001:db8::9]", "_hidden", "198.51.100.7 203.0.113.4")
				if !c05Private(op.IP) && rng.Bool(0.4) {
					op.Decoy = pool[rng.Intn(len(pool))]
				}
			case c05Private(op.IP):
				op.Via = rng.PickStr("remote", "xri")
			case c05MultiLineXFFPrivateFirst && unexplored && rng.Bool(0.08):
				op.Via, op.Chain = "xff2priv", chains[rng.Intn(len(chains))]
				if rng.Bool(0.4) {
					op.Decoy = pool[rng.Intn(len(pool))]
				}
			default:
				op.Via = rng.PickStr("remote", "remote", "xri", "xff", "xffproxy", "both", "xffdecoy")
				if unexplored && rng.Bool(0.15) {
					op.Via = rng.PickStr("xffsp", "xff2ok")
				}
				if op.Via == "xffdecoy" {
					op.Decoy = pool[rng.Intn(len(pool))]
				}
			}
			if unexplored && (op.Method == "POST" || op.Method == "PUT" || op.Method == "post") && rng.Bool(0.4) {
				op.Body = rng.Pick(1, 5, 9, 40, 100)
			}
			// the same address in another spelling (header-borne clients only;
			// RemoteAddr is always printed canonically)
			if op.Via != "remote" && op.Via != "xrijunk" {
				switch v6 := strings.Contains(op.IP, ":"); {
				case v6 && rng.Bool(0.2):
					op.Form = rng.PickStr("exp", "exp", "lz", "upper", "part")
				case !v6 && rng.Bool(0.15):
					op.Form = rng.PickStr("map4", "map4", "map4hex", "map4long")
				}
			}
			cl.Ops = append(cl.Ops, op)
		}
		sc.Clients = append(sc.Clients, cl)
	}
	return sc
}

// ---- reference decision table (from the statement) ---------------------------

func c05Contains(entry string, ip net.IP) bool {
	if strings.Contains(entry, "/") {
		_, n, err := net.ParseCIDR(entry)
		return err == nil && n.Contains(ip)
	}
	a := net.ParseIP(entry)
	return a != nil && a.Equal(ip)
}

// c05Denied: denied iff in a blocked entry and in no allowed one, or in
// neither / in both and blockByDefault is set.
func c05Denied(f *c05Filter, ip net.IP) (denied, inAllow, inBlock bool) {
	if f == nil {
		return false, false, false
	}
	for _, e := range f.Allow {
		if c05Contains(e, ip) {
			inAllow = true
		}
	}
	for _, e := range f.Block {
		if c05Contains(e, ip) {
			inBlock = true
		}
	}
	switch {
	case inBlock && !inAllow:
		denied = true
	case inAllow && !inBlock:
		denied = false
	default:
		denied = f.BlockByDefault
	}
	return
}

// c05JustOutside: ip shares the first l-1 bits with entry a/l and differs in
// bit l-1 (reach probe only).
func c05JustOutside(entry string, ip net.IP) bool {
	base, l := entry, -1
	if i := strings.Index(entry, "/"); i >= 0 {
		base = entry[:i]
		fmt.Sscanf(entry[i+1:], "%d", &l)
	}
	a := net.ParseIP(base)
	if a == nil || ip == nil {
		return false
	}
	x, y := a.To4(), ip.To4()
	if (x == nil) != (y == nil) {
		return false
	}
	if x == nil {
		x, y = a.To16(), ip.To16()
	}
	bits := len(x) * 8
	if l < 0 || l > bits {
		l = bits
	}
	if l == 0 {
		return false
	}
	for i := 0; i < l-1; i++ {
		if (x[i/8]^y[i/8])&(0x80>>uint(i%8)) != 0 {
			return false
		}
	}
	return (x[(l-1)/8]^y[(l-1)/8])&(0x80>>uint((l-1)%8)) != 0
}

func c05HostMatches(ru c05Rule, reqHost string) bool {
	ruleHost := ru.Host
	if ruleHost == "" && ru.HostRegexp == "" {
		return true
	}
	full := reqHost
	if h, _, err := net.SplitHostPort(reqHost); err == nil {
		reqHost = h
	}
	if ru.HostRegexp != "" {
		// lenient superset: the pattern finds the host with or without its
		// port, in the spelling sent or folded to lower case
		if re, err := regexp.Compile(ru.HostRegexp); err == nil {
			for _, h := range []string{reqHost, full, strings.ToLower(reqHost), strings.ToLower(full)} {
				if re.MatchString(h) {
					return true
				}
			}
		}
	}
	if ruleHost == "" {
		return false
	}
	// "maybe applying" is the lenient category: a rule whose host equals the
	// request's up to letter case counts (host names are case-insensitive by
	// RFC 7230, the rules' host field is documented as an exact match).
	return strings.EqualFold(ruleHost, reqHost)
}

// ---- system under test -------------------------------------------------------

func c05FilterYAML(sb *strings.Builder, indent string, f *c05Filter) {
	if f == nil {
		return
	}
	q := func(xs []string) string {
		out := make([]string, len(xs))
		for i, x := range xs {
			out[i] = fmt.Sprintf("%q", x)
		}
		return "[" + strings.Join(out, ", ") + "]"
	}
	fmt.Fprintf(sb, "%sipFilter:\n%s  blockByDefault: %v\n", indent, indent, f.BlockByDefault)
	if len(f.Allow) > 0 {
		fmt.Fprintf(sb, "%s  allowIPs: %s\n", indent, q(f.Allow))
	}
	if len(f.Block) > 0 {
		fmt.Fprintf(sb, "%s  blockIPs: %s\n", indent, q(f.Block))
	}
}

func c05YAML(sc *c05Scenario, filters bool, cacheSize int) string {
	var sb strings.Builder
	fmt.Fprintf(&sb, "kind: HTTPServer\nname: c05\nport: 10080\nkeepAlive: true\nhttps: false\ncacheSize: %d\n", cacheSize)
	if sc.XFwd {
		sb.WriteString("xForwardedFor: true\n")
	}
	if sc.MaxBody > 0 {
		fmt.Fprintf(&sb, "clientMaxBodySize: %d\n", sc.MaxBody)
	}
	if filters {
		c05FilterYAML(&sb, "", sc.Server)
	}
	if len(sc.Rules) > 0 {
		sb.WriteString("rules:\n")
	}
	for i, ru := range sc.Rules {
		fmt.Fprintf(&sb, "- host: %q\n", ru.Host)
		if ru.HostRegexp != "" {
			fmt.Fprintf(&sb, "  hostRegexp: %q\n", ru.HostRegexp)
		}
		if filters {
			c05FilterYAML(&sb, "  ", ru.Filter)
		}
		if len(ru.Paths) > 0 {
			sb.WriteString("  paths:\n")
		}
		for j, p := range ru.Paths {
			fmt.Fprintf(&sb, "  - backend: r%dp%d\n", i, j)
			switch p.Kind {
			case "exact":
				fmt.Fprintf(&sb, "    path: %q\n", p.Path)
			case "prefix":
				fmt.Fprintf(&sb, "    pathPrefix: %q\n", p.Path)
			case "regexp":
				fmt.Fprintf(&sb, "    pathRegexp: %q\n", p.Path)
			}
			if p.MaxBody > 0 {
				fmt.Fprintf(&sb, "    clientMaxBodySize: %d\n", p.MaxBody)
			}
			if len(p.Methods) > 0 {
				fmt.Fprintf(&sb, "    methods: [%s]\n", strings.Join(p.Methods, ", "))
			}
			if p.Rewrite != "" && p.Kind != "any" && p.Kind != "" {
				fmt.Fprintf(&sb, "    rewriteTarget: %q\n", p.Rewrite)
			}
			if p.Tag != "" && p.TagRe {
				fmt.Fprintf(&sb, "    headers:\n    - key: X-Tag\n      regexp: %q\n", "^"+p.Tag+"$")
			} else if p.Tag != "" {
				fmt.Fprintf(&sb, "    headers:\n    - key: X-Tag\n      values: [%q]\n", p.Tag)
			}
			if filters {
				c05FilterYAML(&sb, "    ", p.Filter)
			}
		}
	}
	return sb.String()
}

type c05Call struct {
	backend, path, realIP string
	xff                   string // X-Forwarded-For as the pipeline sees it
	body                  int64  // payload size the pipeline sees
}

type c05Mapper struct {
	r           *sim.Run
	yield       bool
	calls       map[string][]c05Call
	inflight    int
	maxInflight int
}

type c05Handler struct {
	m    *c05Mapper
	name string
}

func (m *c05Mapper) GetHandler(name string) (context.Handler, bool) {
	return &c05Handler{m: m, name: name}, true
}

func (h *c05Handler) Handle(ctx *context.Context) string {
	m := h.m
	req, _ := ctx.GetInputRequest().(*httpprot.Request)
	id, path, rip, xff, body := "?", "?", "?", "", int64(-1)
	if req != nil {
		id, path, rip = req.HTTPHeader().Get("X-C05-Id"), req.Path(), req.RealIP()
		xff = strings.Join(req.HTTPHeader().Values("X-Forwarded-For"), " | ")
		if !req.IsStream() {
			body = req.PayloadSize()
		}
	}
	m.calls[id] = append(m.calls[id], c05Call{backend: h.name, path: path, realIP: rip, xff: xff, body: body})
	if m.yield {
		m.inflight++
		if m.inflight > m.maxInflight {
			m.maxInflight = m.inflight
		}
		m.r.Yield("c05.handler")
		m.inflight--
	}
	resp, _ := httpprot.NewResponse(nil)
	resp.SetStatusCode(http.StatusOK)
	resp.HTTPHeader().Set("X-C05-Backend", h.name)
	ctx.SetResponse(context.DefaultNamespace, resp)
	return ""
}

type c05Mux struct {
	m      *mux
	ss     *supervisor.Spec
	mapper *c05Mapper
}

func c05NewMux(r *sim.Run, ss *supervisor.Spec, yield bool) *c05Mux {
	mp := &c05Mapper{r: r, yield: yield, calls: map[string][]c05Call{}}
	m := newMux(httpstat.New(), httpstat.NewTopN(10), mp)
	if !c05Reload(r, m, ss, mp) {
		return nil
	}
	return &c05Mux{m: m, ss: ss, mapper: mp}
}

// c05Reload: mux.reload with a spec that passed validation must not panic
// (the lists would never come into force).
func c05Reload(r *sim.Run, m *mux, ss *supervisor.Spec, mp *c05Mapper) (ok bool) {
	defer func() {
		if p := recover(); p != nil {
			ok = false
			msg := fmt.Sprintf("mux.reload panicked on a spec that passed validation: %v\n%s\nspec:\n%s", p, debug.Stack(), ss.YAMLConfig())
			if c05Mask["C05.valid-list-entry-panics-on-load"] {
				r.Probe("c05.masked.C05.valid-list-entry-panics-on-load")
				return
			}
			r.Violate("C05.valid-list-entry-panics-on-load", "%s", msg)
		}
	}()
	m.reload(ss, mp)
	return true
}

// c05GenSUT is one generation of the HTTPServer spec: its own validated
// supervisor spec (as every configuration update delivers a fresh one) and a
// quiescent cache-less twin built from it.
type c05GenSUT struct {
	g     int
	view  *c05Scenario
	yaml  string
	ss    *supervisor.Spec
	twinF *c05Mux
}

var errC05Panic = fmt.Errorf("reload panicked")

// c05Build creates the mux under test (generation 0), the filter-less twin
// and one c05GenSUT per generation in gens. supervisor.NewSpec is by far the
// most expensive step of a run, so the twins of a generation are built from
// the generation's ONE spec object: mux.reload reads filters and cacheSize
// only while it builds the instance, so the cache size / the filters are
// temporarily taken out and put back before the run starts.
func c05Build(r *sim.Run, sc *c05Scenario, gens []int) (main, twinU *c05Mux, sut map[int]*c05GenSUT, err error) {
	sut = map[int]*c05GenSUT{}
	for _, g := range gens {
		gs := &c05GenSUT{g: g, view: c05View(sc, g)}
		gs.yaml = c05YAML(gs.view, true, sc.CacheSize)
		gs.ss, err = supervisor.NewSpec(gs.yaml)
		if err != nil {
			return nil, nil, nil, fmt.Errorf("generation %d: %v", g, err)
		}
		spec := gs.ss.ObjectSpec().(*Spec)
		if g == 0 {
			if main = c05NewMux(r, gs.ss, sc.HandlerYield); main == nil {
				return nil, nil, nil, errC05Panic
			}
		}
		cs := spec.CacheSize
		spec.CacheSize = 0
		gs.twinF = c05NewMux(r, gs.ss, false)
		if gs.twinF == nil {
			spec.CacheSize = cs
			if main != nil {
				main.m.close()
			}
			for _, x := range sut {
				x.twinF.m.close()
			}
			if twinU != nil {
				twinU.m.close()
			}
			return nil, nil, nil, errC05Panic
		}
		if g == 0 {
			type saved struct {
				at **ipfilter.Spec
				v  *ipfilter.Spec
			}
			var sv []saved
			strip := func(p **ipfilter.Spec) {
				sv = append(sv, saved{p, *p})
				*p = nil
			}
			strip(&spec.IPFilter)
			for _, ru := range spec.Rules {
				strip(&ru.IPFilter)
				for _, p := range ru.Paths {
					strip(&p.IPFilter)
				}
			}
			twinU = c05NewMux(r, gs.ss, false)
			for _, x := range sv {
				*x.at = x.v
			}
		}
		spec.CacheSize = cs
		sut[g] = gs
	}
	if main == nil {
		return nil, nil, nil, fmt.Errorf("no generation 0")
	}
	return main, twinU, sut, nil
}

type c05Answer struct {
	status  int
	calls   []c05Call
	backend string // "" when no handler was invoked
	path    string
	// route: set on the twin's answer when the request carries a body: the
	// backend the router selects for the same request without body ("-" none).
	// Whether a route exists does not depend on the body; whether the pipeline
	// is reached does (413).
	route string
}

// c05RouteOf: backend the router selects according to the twin's answer.
func c05RouteOf(tw c05Answer) string {
	switch {
	case tw.route == "-":
		return ""
	case tw.route != "":
		return tw.route
	case len(tw.calls) > 0:
		return tw.backend
	}
	return ""
}

func (a c05Answer) String() string {
	if len(a.calls) == 0 {
		return fmt.Sprintf("%d(no handler)", a.status)
	}
	return fmt.Sprintf("%d(backend %s saw path %s, realIP %s, X-Forwarded-For %q, body %d; %d handler call(s))", a.status, a.backend, a.path, a.calls[0].realIP, a.calls[0].xff, a.calls[0].body, len(a.calls))
}

// same: what the client gets and what the pipeline sees (backend, path after
// rewriting, X-Forwarded-For after xForwardedFor, body size) are equal.
func (a c05Answer) same(b c05Answer) bool {
	if a.status != b.status || a.backend != b.backend || a.path != b.path || len(a.calls) != len(b.calls) {
		return false
	}
	return len(a.calls) == 0 || (a.calls[0].xff == b.calls[0].xff && a.calls[0].body == b.calls[0].body)
}

func c05Request(op c05Op, id string) *http.Request {
	var body io.Reader = http.NoBody
	if op.Body > 0 && op.Body <= 1<<16 {
		body = strings.NewReader(strings.Repeat("x", op.Body))
	}
	req, err := http.NewRequest(op.Method, "http://"+op.Host+op.Path, body)
	if err != nil {
		return nil
	}
	req.RequestURI = op.Path
	hostport := func(ip string) string { return net.JoinHostPort(ip, "40000") }
	const proxy = "192.0.2.1"
	if op.Form != "" && op.Via != "remote" {
		op.IP = c05Spell(op.IP, op.Form)
	}
	switch op.Via {
	case "xri":
		req.RemoteAddr = hostport(proxy)
		req.Header.Set("X-Real-Ip", op.IP)
	case "xff":
		req.RemoteAddr = hostport(proxy)
		req.Header.Set("X-Forwarded-For", op.IP)
	case "xffproxy":
		req.RemoteAddr = hostport(proxy)
		req.Header.Set("X-Forwarded-For", op.IP+", 192.0.2.77")
	case "both":
		req.RemoteAddr = hostport(proxy)
		req.Header.Set("X-Forwarded-For", op.IP)
		req.Header.Set("X-Real-Ip", op.IP)
	case "privxff":
		// only private hops in X-Forwarded-For: the client is in X-Real-IP
		req.RemoteAddr = hostport(proxy)
		req.Header.Set("X-Forwarded-For", op.Chain)
		req.Header.Set("X-Real-Ip", op.IP)
	case "privpub":
		// private hops first, then the (public) client; X-Real-IP is a decoy
		req.RemoteAddr = hostport(proxy)
		req.Header.Set("X-Forwarded-For", op.Chain+", "+op.IP)
		if op.Decoy != "" {
			req.Header.Set("X-Real-Ip", op.Decoy)
		}
	case "xffdecoy":
		req.RemoteAddr = hostport(proxy)
		req.Header.Set("X-Forwarded-For", op.IP)
		if op.Decoy != "" {
			req.Header.Set("X-Real-Ip", op.Decoy)
		}
	case "xffsp":
		// blanks around the list members
		req.RemoteAddr = hostport(proxy)
		req.Header.Set("X-Forwarded-For", " "+op.IP+" ,192.0.2.77 ")
	case "xffjunk":
		// a hop that is not an address ("unknown", ip:port, [v6]) in front
		req.RemoteAddr = hostport(proxy)
		if c05Private(op.IP) {
			req.Header.Set("X-Forwarded-For", op.Raw)
			req.Header.Set("X-Real-Ip", op.IP)
		} else {
			req.Header.Set("X-Forwarded-For", op.Raw+", "+op.IP)
			if op.Decoy != "" {
				req.Header.Set("X-Real-Ip", op.Decoy)
			}
		}
	case "xrijunk":
		// the only client information is not an address
		req.RemoteAddr = hostport(proxy)
		req.Header.Set("X-Real-Ip", op.Raw)
	case "xff2ok":
		// X-Forwarded-For as two header lines: client, then a proxy
		req.RemoteAddr = hostport(proxy)
		req.Header.Add("X-Forwarded-For", op.IP)
		req.Header.Add("X-Forwarded-For", "192.0.2.77")
	case "xff2priv":
		// two header lines: private hops, then the public client
		req.RemoteAddr = hostport(proxy)
		req.Header.Add("X-Forwarded-For", op.Chain)
		req.Header.Add("X-Forwarded-For", op.IP)
		if op.Decoy != "" {
			req.Header.Set("X-Real-Ip", op.Decoy)
		}
	default:
		req.RemoteAddr = hostport(op.IP)
	}
	if op.Tag != "" {
		req.Header.Set("X-Tag", op.Tag)
	}
	req.Header.Set("X-C05-Id", id)
	return req
}

// c05NonPublic lists the blocks the documented client-address rule skips in
// X-Forwarded-For: loopback, RFC 1918, link-local, IPv6 loopback / ULA /
// link-local (realip: "Exclude local or private address").
var c05NonPublic = func() []*net.IPNet {
	var out []*net.IPNet
	for _, c := range []string{"127.0.0.0/8", "10.0.0.0/8", "172.16.0.0/12", "192.168.0.0/16", "169.254.0.0/16", "::1/128", "fc00::/7", "fe80::/10"} {
		_, n, _ := net.ParseCIDR(c)
		out = append(out, n)
	}
	return out
}()

// c05ClientOf is the documented rule of the address extraction easegress
// imports (github.com/tomasen/realip, "follows the rule of X-Real-IP / of
// X-Forwarded-For, exclude local or private address"): with neither header
// the peer address; otherwise the first valid public hop of X-Forwarded-For;
// if there is none, X-Real-IP. (A request with only private hops and no
// X-Real-IP has no defined client: ok=false, never generated.)
func c05ClientOf(req *http.Request) (string, bool) {
	xff, xri := strings.Join(req.Header.Values("X-Forwarded-For"), ","), req.Header.Get("X-Real-Ip")
	if xff == "" && xri == "" {
		h, _, err := net.SplitHostPort(req.RemoteAddr)
		return h, err == nil
	}
	if xff != "" {
	hops:
		for _, hop := range strings.Split(xff, ",") {
			hop = strings.TrimSpace(hop)
			ip := net.ParseIP(hop)
			if ip == nil {
				continue
			}
			for _, n := range c05NonPublic {
				if n.Contains(ip) {
					continue hops
				}
			}
			return hop, true
		}
	}
	return xri, xri != ""
}

// serve hands one request to the mux; post (may be nil) runs immediately
// after ServeHTTP returned, before anything that could pass a gate.
func (cm *c05Mux) serve(op c05Op, id string, post func()) (ans c05Answer, ok bool) {
	req := c05Request(op, id)
	if req == nil {
		return ans, false
	}
	rec := httptest.NewRecorder()
	cm.m.ServeHTTP(rec, req)
	if post != nil {
		post()
	}
	ans.status = rec.Code
	ans.calls = cm.mapper.calls[id]
	delete(cm.mapper.calls, id)
	if len(ans.calls) > 0 {
		ans.backend, ans.path = ans.calls[0].backend, ans.calls[0].path
	}
	return ans, true
}

var c05Mask = func() map[string]bool {
	m := map[string]bool{}
	for _, c := range strings.Split(os.Getenv("VERIF_C05_MASK"), ",") {
		if c = strings.TrimSpace(c); c != "" {
			m[c] = true
		}
	}
	return m
}()

func c05ValidOp(op c05Op) bool {
	if op.Kind == "reload" {
		return op.Gen >= 0 && op.Gen <= c05MaxGen
	}
	if op.Kind != "req" || op.Host == "" || op.Method == "" || !strings.HasPrefix(op.Path, "/") || net.ParseIP(op.IP) == nil {
		return false
	}
	if op.Body < 0 || op.Body > 1<<16 {
		return false
	}
	switch op.Via {
	case "remote", "xri", "xff", "xffproxy", "both", "privxff", "privpub", "xffdecoy", "xffsp", "xff2ok":
	case "xff2priv":
		if !c05MultiLineXFFPrivateFirst {
			return false
		}
	case "xffjunk", "xrijunk":
		if op.Raw == "" || strings.ContainsAny(op.Raw, ",\r\n") || net.ParseIP(strings.TrimSpace(op.Raw)) != nil {
			return false
		}
		if op.Via == "xrijunk" {
			return c05Request(op, "x") != nil
		}
	default:
		return false
	}
	if op.Decoy != "" && net.ParseIP(op.Decoy) == nil {
		return false
	}
	if (op.Via == "privxff" || op.Via == "privpub" || op.Via == "xff2priv") && op.Chain == "" {
		return false
	}
	// the request as built must name op.IP as its client under the documented
	// rule (keeps shrunk / hand-edited scenarios honest)
	req := c05Request(op, "x")
	if req == nil {
		return false
	}
	got, ok := c05ClientOf(req)
	switch op.Form {
	case "", "exp", "lz", "upper", "part", "map4", "map4hex", "map4long":
	default:
		return false
	}
	if !ok {
		return false
	}
	g, w := net.ParseIP(got), net.ParseIP(op.IP)
	if op.Form == "" {
		return got == op.IP
	}
	return g != nil && w != nil && g.Equal(w)
}

func c05Exec(r *sim.Run, sci interface{}) {
	sc := sci.(*c05Scenario)
	if sc.CacheSize < 0 || sc.CacheSize > 1000 {
		return
	}
	for _, ru := range sc.Rules {
		if ru.HostRegexp != "" {
			if _, err := regexp.Compile(ru.HostRegexp); err != nil {
				return
			}
		}
		for _, p := range ru.Paths {
			if p.Kind != "exact" && p.Kind != "prefix" && p.Kind != "any" && p.Kind != "regexp" {
				return
			}
			if p.Kind == "regexp" {
				if _, err := regexp.Compile(p.Path); err != nil || p.Path == "" {
					return
				}
			} else if p.Kind != "any" && !strings.HasPrefix(p.Path, "/") {
				return
			}
		}
	}
	// generations some reload asks for (0 is the initial one)
	used := map[int]bool{0: true}
	for _, op := range sc.Reloader {
		if c05ValidOp(op) && op.Kind == "reload" {
			used[op.Gen] = true
		}
	}
	for _, cl := range sc.Clients {
		for _, op := range cl.Ops {
			if op.Kind == "reload" && c05ValidOp(op) {
				used[op.Gen] = true
			}
		}
	}
	var gens []int
	for g := range used {
		gens = append(gens, g)
	}
	sort.Ints(gens)
	main, twinU, sut, err := c05Build(r, sc, gens)
	if err == errC05Panic {
		return
	}
	if err != nil {
		r.Probe("c05.spec_rejected")
		r.Eventf("spec rejected: %v", err)
		return
	}
	defer func() {
		main.m.close()
		twinU.m.close()
		for _, g := range gens {
			sut[g].twinF.m.close()
		}
	}()
	// prologue: one fixed request (public X-Forwarded-For that no scenario
	// uses) through the filter-less twin, so that any process-wide "last
	// request" state of the address extraction is the same at the start of
	// every run, whatever ran before in this worker process (replays start
	// in a fresh process).
	twinU.serve(c05Op{Kind: "req", Host: "warmup.test", Method: "GET", Path: "/", IP: "198.18.0.1", Via: "xff"}, "warmup", nil)
	hasTags := false
	for _, ru := range sc.Rules {
		for _, p := range ru.Paths {
			if p.Tag != "" {
				hasTags = true
			}
		}
	}

	violate := func(class, format string, a ...interface{}) {
		if c05Mask[class] {
			r.Probe("c05.masked." + class)
			return
		}
		r.Violate(class, format, a...)
	}

	var sig strings.Builder
	nDenied, nAllowedRouted, nCacheHit := 0, 0, 0
	reqNo := 0

	// ---- reload bookkeeping -------------------------------------------------
	// hist[k] = generation installed by the k-th reload (hist[0] = initial).
	// Reloads are serialised (as the supervisor does for one object), so
	// started-done is 0 or 1. Tasks run atomically between gates, so these are
	// plain variables; a request snapshots `done` immediately before it is
	// handed to ServeHTTP and `started` immediately after ServeHTTP returned:
	// the generations that may judge it are hist[done .. started].
	hist := []int{0}
	started, done := 0, 0
	reloading := false
	inflight, reqEvents := 0, 0
	keySeen := map[string]bool{}
	foldSeen := map[string][]string{} // key folded to lower case, trailing slash cut -> exact keys requested

	// status applies the statement's decision table of generation view gv to
	// one request: level = "server"/"rule"/"path" when a filter applying to
	// the request denies it, maybe = index of an earlier host-matching rule
	// whose filter denies it (-1: none), ri/pj = the route the router selects.
	type c05Status struct {
		routed bool
		ri, pj int
		level  string
		maybe  int
		bad    string
	}
	status := func(gv *c05Scenario, op c05Op, tw c05Answer) (st c05Status) {
		ip := net.ParseIP(op.IP)
		st.routed = c05RouteOf(tw) != ""
		st.ri, st.pj, st.maybe = -1, -1, -1
		if st.routed {
			if _, err := fmt.Sscanf(c05RouteOf(tw), "r%dp%d", &st.ri, &st.pj); err != nil || st.ri < 0 || st.ri >= len(gv.Rules) || st.pj < 0 || st.pj >= len(gv.Rules[st.ri].Paths) {
				st.bad = fmt.Sprintf("twin reached unknown backend %q", tw.backend)
				return
			}
		}
		if d, _, _ := c05Denied(gv.Server, ip); d {
			st.level = "server"
		}
		if st.level == "" && st.routed {
			if d, _, _ := c05Denied(gv.Rules[st.ri].Filter, ip); d {
				st.level = "rule"
			} else if d, _, _ := c05Denied(gv.Rules[st.ri].Paths[st.pj].Filter, ip); d {
				st.level = "path"
			}
		}
		// maybe filters: host-matching rules consulted before the selected one
		for k, ru := range gv.Rules {
			if st.routed && k >= st.ri {
				break
			}
			if !c05HostMatches(ru, op.Host) {
				continue
			}
			if d, _, _ := c05Denied(ru.Filter, ip); d {
				st.maybe = k
				break
			}
		}
		return
	}

	// reach probes for a request judged by exactly one generation
	reach := func(gv *c05Scenario, op c05Op, tw c05Answer, cached bool) {
		ip := net.ParseIP(op.IP)
		st := status(gv, op, tw)
		if st.bad != "" {
			return
		}
		fs := []*c05Filter{gv.Server}
		if st.routed {
			fs = append(fs, gv.Rules[st.ri].Filter, gv.Rules[st.ri].Paths[st.pj].Filter)
		}
		edge := false
		for _, f := range fs {
			if _, a, b := c05Denied(f, ip); f != nil {
				switch {
				case a && b:
					r.Probe("c05.addr_in_allow_and_block")
				case !a && !b && f.BlockByDefault:
					r.Probe("c05.addr_in_neither_blockByDefault")
				}
				for _, e := range f.Allow {
					edge = edge || c05JustOutside(e, ip)
				}
				for _, e := range f.Block {
					edge = edge || c05JustOutside(e, ip)
				}
			}
		}
		if edge {
			r.Probe("c05.client_one_bit_outside_an_applying_entry")
		}
		if spelled := c05Spell(op.IP, op.Form); op.Via != "remote" && spelled != op.IP {
			switch {
			case op.Form == "exp":
				r.Probe("c05.client_ipv6_expanded_spelling")
			case strings.HasPrefix(op.Form, "map4"):
				r.Probe("c05.client_ipv4_mapped_spelling")
				onlyV4 := true
				for _, f := range fs {
					if f != nil {
						for _, e := range append(append([]string{}, f.Allow...), f.Block...) {
							onlyV4 = onlyV4 && !strings.Contains(e, ":")
						}
					}
				}
				if onlyV4 {
					r.Probe("c05.client_ipv4_mapped_spelling_all_applying_entries_dotted")
				}
			default:
				r.Probe("c05.client_ipv6_spelling_" + op.Form)
			}
		}
		switch {
		case st.level != "":
			nDenied++
			r.Probe("c05.denied_at_" + st.level)
			if cached {
				r.Probe("c05.denied_on_cached_key_" + st.level)
			}
			if !st.routed {
				r.Probe("c05.denied_without_route")
			}
		case st.maybe >= 0:
			r.Probe("c05.denied_only_by_earlier_rule")
			if cached && st.routed {
				r.Probe("c05.denied_only_by_earlier_rule_on_cached_route")
			}
		default:
			if st.routed {
				nAllowedRouted++
				r.Probe("c05.allowed_routed")
				if cached {
					r.Probe("c05.allowed_on_cached_key")
				}
			}
		}
	}

	// verdict applies the statement to one answer of one mux under ONE
	// generation of the lists. which = "cached" (the mux under test, cache as
	// configured) or "nocache" (same spec, cacheSize 0). class "" = accepted.
	verdict := func(which, tag string, gs *c05GenSUT, op c05Op, got, tw, f0 c05Answer, cached bool) (class, msg string) {
		gv := gs.view
		st := status(gv, op, tw)
		if st.bad != "" {
			return "C05.other", tag + ": " + st.bad
		}
		routed, level, maybe := st.routed, st.level, st.maybe
		ctxmsg := func() string {
			return fmt.Sprintf("%s [%s mux, cacheSize %d, key cached before the request: %v] %s %s%s tag=%q client %s via %s\n  got %v\n  unfiltered uncached twin %v\n  filtered uncached twin (generation %d) %v\n  config (generation %d):\n%s",
				tag, which, sc.CacheSize, cached, op.Method, op.Host, op.Path, op.Tag, op.IP, op.Via, got, tw, gs.g, f0, gs.g, gs.yaml)
		}
		if len(got.calls) > 1 {
			return "C05.other", fmt.Sprintf("handler invoked %d times for one request\n%s", len(got.calls), ctxmsg())
		}
		switch {
		case level != "":
			if len(got.calls) > 0 {
				if routed && got.backend != c05RouteOf(tw) {
					return "C05.denied-reaches-sibling-path", fmt.Sprintf("client denied by the %s-level filter of its route was served by backend %s (another path than the router selects)\n%s", level, got.backend, ctxmsg())
				}
				return "C05." + level + "-filter-bypassed", fmt.Sprintf("client denied by the %s-level filter reached backend %s\n%s", level, got.backend, ctxmsg())
			}
			if got.status < 400 || got.status > 499 {
				return "C05.denied-status-not-4xx", fmt.Sprintf("client denied by the %s-level filter got status %d\n%s", level, got.status, ctxmsg())
			}
			if routed && got.status != http.StatusForbidden {
				return "C05.denied-status-not-403", fmt.Sprintf("client denied by the %s-level filter on an existing route got status %d, want 403\n%s", level, got.status, ctxmsg())
			}
		case maybe >= 0:
			refused := len(got.calls) == 0 && got.status == http.StatusForbidden
			if !refused && !got.same(tw) {
				if hasTags && len(got.calls) > 0 && routed {
					return "", "unjudged"
				}
				return "C05.other", fmt.Sprintf("client denied only by the filter of earlier host-matching rule %d got neither 403 nor the unfiltered answer\n%s", maybe, ctxmsg())
			}
			if which == "cached" && routed && !got.same(f0) {
				// the answer depends on what was cached
				if len(got.calls) > 0 && len(f0.calls) == 0 {
					return "C05.earlier-rule-filter-skipped-on-cache-hit", fmt.Sprintf("rule %d matches the host and its filter denies the client; without route cache the request is refused (403), with the route cached it reaches backend %s\n%s", maybe, got.backend, ctxmsg())
				}
				return "C05.other", fmt.Sprintf("answer for a client denied only by earlier rule %d depends on the cache history\n%s", maybe, ctxmsg())
			}
		default:
			if got.same(tw) {
				return "", ""
			}
			if hasTags && len(got.calls) > 0 && routed {
				// routed, but to another path than the twin: cache shadowing of a
				// header-conditioned path, no filter involved (C12)
				return "", "unjudged"
			}
			if len(got.calls) == 0 && got.status == http.StatusForbidden {
				if which == "cached" && hasTags && sc.CacheSize > 0 && f0.same(tw) {
					return "C05.allowed-refused-by-sibling-path-filter", fmt.Sprintf("no applying filter denies the client and the uncached mux routes it, but with the route cache it gets 403\n%s", ctxmsg())
				}
				return "C05.allowed-refused", fmt.Sprintf("no filter applying to the request denies the client, yet it gets 403\n%s", ctxmsg())
			}
			return "C05.allowed-misrouted", fmt.Sprintf("no filter denies the client, but the answer differs from a server without filters\n%s", ctxmsg())
		}
		return "", ""
	}

	// mappedHit: some list of generation view gv holds an entry written in
	// IPv4-mapped form that contains the client's address.
	mappedHit := func(gv *c05Scenario, op c05Op) string {
		ip := net.ParseIP(op.IP)
		hit := ""
		look := func(f *c05Filter) {
			if f == nil {
				return
			}
			for _, e := range append(append([]string{}, f.Allow...), f.Block...) {
				base := e
				if i := strings.Index(e, "/"); i >= 0 {
					base = e[:i]
				}
				if a := net.ParseIP(base); a != nil && a.To4() != nil && strings.Contains(base, ":") && c05Contains(e, ip) {
					hit = e
				}
			}
		}
		look(gv.Server)
		for _, ru := range gv.Rules {
			look(ru.Filter)
			for _, p := range ru.Paths {
				look(p.Filter)
			}
		}
		return hit
	}

	histStr := func() string {
		return fmt.Sprintf("generations installed so far %v (reloads started %d, returned %d)", hist, started, done)
	}

	doReload := func(tag string, op c05Op) {
		gs := sut[op.Gen]
		if gs == nil {
			return
		}
		if reloading {
			// one object is never reloaded by two callers at once
			r.Probe("c05.reload_skipped_another_in_progress")
			return
		}
		reloading = true
		from := sut[hist[len(hist)-1]]
		hist = append(hist, op.Gen)
		started++
		busy, ev0 := inflight > 0, reqEvents
		r.Eventf("%s reload gen %d -> gen %d begins (requests in flight: %d)", tag, from.g, op.Gen, inflight)
		if !c05Reload(r, main.m, gs.ss, main.mapper) {
			return
		}
		done++
		reloading = false
		r.Eventf("%s reload gen %d -> gen %d returned", tag, from.g, op.Gen)
		fmt.Fprintf(&sig, "R%d;", op.Gen)
		r.Probe("c05.reload")
		if busy || reqEvents != ev0 {
			r.Fault("reload_under_traffic")
			if busy {
				r.Probe("c05.reload_with_request_parked_in_old_generation")
			}
		} else {
			r.Probe("c05.reload_quiescent")
		}
		if sc.CacheSize > 0 {
			r.Probe("c05.reload_with_route_cache")
		} else {
			r.Probe("c05.reload_without_route_cache")
		}
		// what the reload changes
		a, b := from.view, gs.view
		chS, chR, chP := !c05SameFilter(a.Server, b.Server), false, false
		for i := range a.Rules {
			if !c05SameFilter(a.Rules[i].Filter, b.Rules[i].Filter) {
				chR = true
			}
			for j := range a.Rules[i].Paths {
				if !c05SameFilter(a.Rules[i].Paths[j].Filter, b.Rules[i].Paths[j].Filter) {
					chP = true
				}
			}
		}
		switch {
		case !chS && !chR && !chP:
			r.Probe("c05.reload_same_lists")
		case chS && !chR && !chP:
			r.Probe("c05.reload_changes_server_filter_only")
		case !chS && chR && !chP:
			r.Probe("c05.reload_changes_rule_filters_only")
		case !chS && !chR && chP:
			r.Probe("c05.reload_changes_path_filters_only")
		default:
			r.Probe("c05.reload_changes_several_levels")
		}
		for k := 0; k < len(hist)-2; k++ {
			if hist[k] == op.Gen && from.g != op.Gen {
				r.Probe("c05.reload_back_to_earlier_generation")
				break
			}
		}
	}

	doRequest := func(tag string, op c05Op) {
		reqNo++
		id := fmt.Sprintf("q%d", reqNo)
		switch {
		case strings.Contains(op.IP, ":"):
			r.Probe("c05.ipv6_client")
		default:
			r.Probe("c05.ipv4_client")
		}
		r.Probe("c05.via_" + op.Via)
		// was the key in the route cache when the request was issued?
		cached, full := false, false
		if inst, _ := main.m.inst.Load().(*muxInstance); inst != nil && inst.cache != nil {
			// (probe only) the key layout is the implementation's business:
			// a key counts if it is host, method, path in that order with
			// any blank separators
			want := op.Host + op.Method + op.Path
			for _, k := range inst.cache.Keys() {
				if ks, ok := k.(string); ok && strings.Join(strings.Fields(ks), "") == want {
					cached = true
				}
			}
			full = inst.cache.Len() >= sc.CacheSize
		}
		if cached {
			nCacheHit++
		} else if full {
			r.Probe("c05.miss_with_full_cache")
		}
		key := op.Host + " " + op.Method + " " + op.Path
		seenBefore := keySeen[key]
		keySeen[key] = true
		if fk := strings.ToLower(strings.TrimSuffix(key, "/")); !seenBefore {
			for _, prev := range foldSeen[fk] {
				pf := strings.Fields(prev)
				if len(pf) != 3 {
					continue
				}
				switch {
				case pf[0] != op.Host:
					r.Probe("c05.host_respelled_after_earlier_request_for_same_method_path")
					if sc.CacheSize > 0 {
						r.Probe("c05.host_respelled_after_earlier_request_with_route_cache")
					}
				case pf[1] != op.Method:
					r.Probe("c05.method_respelled_after_earlier_request")
				default:
					r.Probe("c05.path_respelled_after_earlier_request")
				}
				break
			}
			foldSeen[fk] = append(foldSeen[fk], key)
		}
		// --- the request; no gate between the snapshots and ServeHTTP
		lo := done
		inflight++
		reqEvents++
		hi := lo
		got, ok := main.serve(op, id, func() {
			hi = started
			inflight--
			reqEvents++
		})
		if !ok {
			inflight--
			return
		}
		hcopy := append([]int(nil), hist...)
		tw, _ := twinU.serve(op, id, nil)
		if op.Body > 0 && len(tw.calls) == 0 {
			o2 := op
			o2.Body = 0
			t2, _ := twinU.serve(o2, id, nil)
			if tw.route = "-"; len(t2.calls) > 0 {
				tw.route = t2.backend
			}
		}
		// generations that may judge the request
		var acc []*c05GenSUT
		for k := lo; k <= hi && k < len(hcopy); k++ {
			dup := false
			for _, x := range acc {
				dup = dup || x.g == hcopy[k]
			}
			if !dup {
				acc = append(acc, sut[hcopy[k]])
			}
		}
		if len(acc) == 0 {
			return
		}
		f0s := make([]c05Answer, len(acc))
		for i, gs := range acc {
			f0s[i], _ = gs.twinF.serve(op, id, nil)
		}
		r.Eventf("%s %s %s%s tag=%s ip=%s via=%s cached=%v gens=%v..%v -> %v | twin %v | nocache(gen %d) %v", tag, op.Method, op.Host, op.Path, op.Tag, op.IP, op.Via, cached, hcopy[lo], hcopy[hi], got, tw, acc[len(acc)-1].g, f0s[len(acc)-1])
		fmt.Fprintf(&sig, "%s%s%s%s%s>%d%s;", op.Method, op.Host, op.Path, op.Tag, op.IP, got.status, got.backend)

		// reach probes for the ordinary-but-unexplored shapes
		switch op.Via {
		case "xffjunk":
			r.Probe("c05.xff_hop_that_is_not_an_address_skipped")
		case "xffsp":
			r.Probe("c05.xff_members_padded_with_blanks")
		case "xff2ok":
			r.Probe("c05.xff_in_two_header_lines_client_first")
		case "xff2priv":
			r.Probe("c05.xff_in_two_header_lines_private_first")
		}
		if op.Body > 0 {
			r.Probe("c05.request_with_body")
			if got.status == http.StatusRequestEntityTooLarge {
				r.Probe("c05.body_over_clientMaxBodySize_413")
			}
		}
		if op.Method != "GET" && op.Method != "POST" && op.Method == strings.ToUpper(op.Method) {
			r.Probe("c05.method_other_than_get_post")
		}
		if strings.HasPrefix(op.Path, "/.well-known/acme-challenge/") {
			r.Probe("c05.acme_challenge_path")
		}
		if c05RouteOf(tw) != "" {
			var ri, pj int
			if _, err := fmt.Sscanf(c05RouteOf(tw), "r%dp%d", &ri, &pj); err == nil && ri >= 0 && ri < len(sc.Rules) && pj >= 0 && pj < len(sc.Rules[ri].Paths) {
				if sc.Rules[ri].HostRegexp != "" {
					r.Probe("c05.routed_by_rule_with_hostRegexp")
				}
				if pp := sc.Rules[ri].Paths[pj]; pp.Kind == "regexp" {
					r.Probe("c05.routed_by_pathRegexp")
					if pp.Rewrite != "" {
						r.Probe("c05.routed_by_pathRegexp_with_rewrite")
					}
					if cached {
						r.Probe("c05.routed_by_pathRegexp_on_cached_key")
					}
				}
				if sc.XFwd {
					r.Probe("c05.routed_with_xForwardedFor_option")
				}
			}
		}

		if op.Via == "xrijunk" {
			// The client is named by something that is not an address. The
			// statement's table is about addresses; both "falls under the
			// default of every applying list" and "refused" are defensible, so
			// 403 without handler and the unfiltered answer are both accepted.
			// What the statement does fix: the answer must not depend on the
			// cache or on earlier requests, i.e. it equals the cache-less one.
			r.Probe("c05.client_named_by_a_non_address")
			routed := c05RouteOf(tw) != ""
			if hasTags && len(got.calls) > 0 && routed && !got.same(tw) {
				r.Probe("c05.header_shadow_unjudged")
				return
			}
			for i := range acc {
				refused := len(got.calls) == 0 && got.status == http.StatusForbidden
				if (refused || got.same(tw)) && got.same(f0s[i]) {
					if refused {
						r.Probe("c05.client_named_by_a_non_address_refused")
					} else {
						r.Probe("c05.client_named_by_a_non_address_answered_as_unfiltered")
					}
					return
				}
			}
			violate("C05.non-address-client-answer-depends-on-history", "%s %s %s%s: the only client information is X-Real-IP %q (not an address); the answer %v is neither a 403 nor the unfiltered answer %v consistently with the cache-less mux of the same configuration (%v) [cacheSize %d, key cached before: %v; %s]\n  config (generation %d):\n%s",
				tag, op.Method, op.Host, op.Path, op.Raw, got, tw, f0s[len(acc)-1], sc.CacheSize, cached, histStr(), acc[len(acc)-1].g, acc[len(acc)-1].yaml)
			return
		}

		okBy := 0
		var firstClass, firstMsg string
		unjudged := false
		for i := len(acc) - 1; i >= 0; i-- {
			cl, msg := verdict("cached", tag, acc[i], op, got, tw, f0s[i], cached)
			if cl == "" {
				okBy++
				if msg == "unjudged" {
					unjudged = true
				}
			} else if firstClass == "" {
				firstClass, firstMsg = cl, msg
			}
		}
		if unjudged {
			r.Probe("c05.header_shadow_unjudged")
		}
		if len(acc) == 1 {
			reach(acc[0].view, op, tw, cached)
			if lo > 0 {
				r.Probe("c05.req_after_reload")
				// does the reload matter for this request?
				prev := sut[hcopy[lo-1]]
				sn, so := status(acc[0].view, op, tw), status(prev.view, op, tw)
				if (sn.level != "") != (so.level != "") {
					r.Probe("c05.req_after_reload_verdict_changed")
					if sn.level != "" {
						r.Probe("c05.req_after_reload_newly_denied")
					} else {
						r.Probe("c05.req_after_reload_newly_allowed")
					}
					if seenBefore && sc.CacheSize > 0 {
						r.Probe("c05.req_after_reload_verdict_changed_key_requested_before")
					}
				}
			}
		} else {
			r.Probe("c05.req_overlapping_reload")
			if hi-lo >= 2 {
				r.Probe("c05.req_overlapping_several_reloads")
			}
			so, sn := status(acc[0].view, op, tw), status(acc[len(acc)-1].view, op, tw)
			if so.level != "" && sn.level != "" && so.level != sn.level {
				r.Probe("c05.req_overlapping_reload_denied_by_both_generations_at_different_levels")
			}
			if (sn.level != "") != (so.level != "") {
				r.Probe("c05.req_overlapping_reload_generations_disagree")
				if okBy == 1 {
					if c, _ := verdict("cached", tag, acc[0], op, got, tw, f0s[0], cached); c == "" {
						r.Probe("c05.req_overlapping_reload_answered_by_old_lists")
					} else {
						r.Probe("c05.req_overlapping_reload_answered_by_new_lists")
					}
				}
			}
		}
		if okBy == 0 && op.Via == "xff2priv" && mappedHit(acc[len(acc)-1].view, op) == "" {
			violate("C05.client-in-later-x-forwarded-for-line-ignored", "X-Forwarded-For arrives as two header lines (%q / %q); as one list its first public hop %s is the client, the server judged another address (ordinary class %s)\n%s", op.Chain, op.IP, op.IP, firstClass, firstMsg)
			return
		}
		if okBy == 0 {
			if e := mappedHit(acc[len(acc)-1].view, op); e != "" {
				violate("C05.ipv4-mapped-list-entry-ignored", "list entry %q is the IPv4 address/block in IPv4-mapped spelling and contains client %s, but the server decides as if the entry were not there (ordinary class %s)\n%s", e, op.IP, firstClass, firstMsg)
				return
			}
			// accepted by no generation that may judge it. Would lists that a
			// reload had already replaced when the request started explain it?
			for k := lo - 1; k >= 0; k-- {
				old := sut[hcopy[k]]
				f0, _ := old.twinF.serve(op, id, nil)
				if c, _ := verdict("cached", tag, old, op, got, tw, f0, cached); c != "" {
					continue
				}
				what, class := "other", "C05.reload.old-lists-still-applied"
				switch {
				case len(got.calls) > 0 && status(acc[len(acc)-1].view, op, tw).level != "":
					what, class = "a client the current lists deny reached backend "+got.backend, "C05.reload.denied-served-by-old-lists"
				case len(got.calls) == 0 && got.status == http.StatusForbidden:
					what, class = "a client the current lists do not deny was refused", "C05.reload.allowed-refused-by-old-lists"
				}
				violate(class, "%s: the request started after the reload to generation %d had returned, but the answer is the one of generation %d, replaced %d reload(s) earlier; %s\n  judged by the lists in force: %s: %s\n  config of the stale generation %d:\n%s",
					what, hcopy[lo], old.g, lo-k, histStr(), firstClass, firstMsg, old.g, old.yaml)
				return
			}
			if len(acc) > 1 {
				firstMsg = fmt.Sprintf("(request overlapped a reload: judged by generations %d..%d, accepted by none; %s)\n%s", acc[0].g, acc[len(acc)-1].g, histStr(), firstMsg)
			} else if lo > 0 {
				firstMsg = fmt.Sprintf("(%s)\n%s", histStr(), firstMsg)
			}
			violate(firstClass, "%s", firstMsg)
			return
		}
		// the cache-less mux of every generation involved, as a pure function
		for i, gs := range acc {
			if cl, msg := verdict("nocache", tag, gs, op, f0s[i], tw, f0s[i], false); cl != "" {
				if e := mappedHit(gs.view, op); e != "" {
					cl, msg = "C05.ipv4-mapped-list-entry-ignored", fmt.Sprintf("list entry %q is the IPv4 address/block in IPv4-mapped spelling and contains client %s, but the server decides as if the entry were not there (ordinary class %s)\n%s", e, op.IP, cl, msg)
				} else if op.Via == "xff2priv" {
					cl, msg = "C05.client-in-later-x-forwarded-for-line-ignored", "X-Forwarded-For arrives as two header lines ("+op.Chain+" / "+op.IP+"); as one list its first public hop "+op.IP+" is the client, the server judged another address (ordinary class "+cl+")\n"+msg
				}
				violate(cl, "%s", msg)
				return
			}
		}
	}

	runOps := func(name string, ops []c05Op, reloadsOnly bool) {
		r.Go(name, func() {
			for oi, op := range ops {
				if r.Violated() || r.Aborted() {
					return
				}
				if !c05ValidOp(op) || (reloadsOnly && op.Kind != "reload") {
					continue
				}
				if op.GapUs < 0 || op.GapUs > 10000000 {
					op.GapUs = 0
				}
				r.Sleep(time.Duration(op.GapUs) * time.Microsecond)
				tag := fmt.Sprintf("%s.%d", name, oi)
				if op.Kind == "reload" {
					doReload(tag, op)
					continue
				}
				doRequest(tag, op)
			}
		})
	}
	for ci := range sc.Clients {
		runOps(fmt.Sprintf("c%d", ci), sc.Clients[ci].Ops, false)
	}
	if len(sc.Reloader) > 0 {
		runOps("admin", sc.Reloader, true)
	}
	r.WaitTasks()
	if main.mapper.maxInflight >= 2 {
		r.Probe("c05.concurrent_requests_in_handlers")
	}
	if nDenied > 0 && nAllowedRouted > 0 && (sc.CacheSize == 0 || nCacheHit > 0) {
		r.Nontrivial()
	}
	// distinct = configuration + the sequence of (request, answer) and reloads as it was linearised
	cfg := ""
	for _, g := range gens {
		cfg += sut[g].yaml + "|"
	}
	r.SetSig(cfg + sig.String())
	// reach probes on the configuration
	ent := []string{}
	long := false
	add := func(f *c05Filter) {
		if f != nil {
			ent = append(ent, f.Allow...)
			ent = append(ent, f.Block...)
			long = long || len(f.Allow) >= 5 || len(f.Block) >= 5
		}
	}
	add(sc.Server)
	for _, ru := range sc.Rules {
		add(ru.Filter)
		for _, p := range ru.Paths {
			add(p.Filter)
		}
	}
	if long {
		r.Probe("c05.list_with_5_or_more_entries")
	}
	ongrid := func(l int, grid []int) bool {
		for _, x := range grid {
			if x == l {
				return true
			}
		}
		return false
	}
	sort.Strings(ent)
	for _, e := range ent {
		base := e
		if i := strings.Index(e, "/"); i >= 0 {
			base = e[:i]
		}
		if a := net.ParseIP(base); a != nil && a.String() != base {
			if a.To4() != nil {
				r.Probe("c05.entry_ipv4_mapped_spelling")
			} else {
				r.Probe("c05.entry_ipv6_not_in_canonical_spelling")
			}
		}
		if i := strings.Index(e, "/"); i >= 0 {
			if _, n, err := net.ParseCIDR(e); err == nil {
				if ones, bits := n.Mask.Size(); (bits == 32 && !ongrid(ones, c05V4Len)) || (bits == 128 && !ongrid(ones, c05V6Len)) {
					r.Probe("c05.cidr_prefix_length_off_the_boundary_grid")
				}
				if n.String() != e {
					r.Probe("c05.cidr_with_host_bits")
				}
				if strings.HasPrefix(e, "::ffff:") {
					r.Probe("c05.entry_ipv4_mapped_cidr")
				}
				if strings.HasSuffix(e, "/0") {
					r.Probe("c05.cidr_prefix_0")
				}
			}
		}
	}
}

func TestVerifC05(t *testing.T) {
	hdrv.Main(t, &hdrv.Harness{
		ID:       "C05",
		Gen:      c05Gen,
		New:      func() interface{} { return &c05Scenario{} },
		Exec:     c05Exec,
		MaxSteps: 20000,
		Rule: "scenario = ipfilter specs at server/rule/path level drawn from an 18-address IPv4+IPv6 universe (single addresses, CIDRs at boundary prefix lengths incl. /0 and host bits, overlapping allow/block, blockByDefault) over 1-3 rules x 0-3 paths, cacheSize in {0,1,2,8}, 1-4 client tasks sending 6-40 requests (client address via RemoteAddr / X-Real-IP / X-Forwarded-For incl. private-only proxy chains shared by different clients, clients one bit off a list entry's prefix edge, any prefix length; in two thirds of the runs also hostRegexp rules, pathRegexp paths, HEAD/PUT/DELETE/OPTIONS, xForwardedFor, clientMaxBodySize + request bodies, respelled keys, padded / two-line / partly non-address X-Forwarded-For); a third of the scenarios hot-reload the server 1-5 times with 1-3 further spec generations whose ipFilter blocks differ at the server, rule and/or path level (same rules, same cacheSize), at quiescent points and under traffic; " +
			"non-trivial = at least one request denied by an applying filter and one allowed request routed, and (if the cache is on) at least one request whose key was already cached; distinct = distinct (configurations of all generations, linearised request/answer/reload sequence)",
		Real: []string{"pkg/object/httpserver mux (reload, ServeHTTP, serveHTTP, search, route cache)", "pkg/util/ipfilter (New, Allow, IPFilters)", "pkg/protocols/httpprot.NewRequest (realip extraction)", "supervisor.NewSpec (YAML + schema validation of the ipFilter entries)", "hashicorp ARC cache, cidranger"},
		Stub: []string{"pipelines: recording MuxMapper/Handler (harness)", "HTTP transport: httptest.ResponseRecorder, requests built in memory", "sync/atomic -> simsync/simatomic (same semantics + gates)"},
		Assumptions: []string{
			"route selection is taken from a quiescent twin of the same mux without filters and without cache (routing bugs are C01's, cache shadowing C12's)",
			"filters applying = server, rule holding the selected path, selected path; a filter of an earlier host-matching rule may be applied or not, but consistently with the cache-less answer",
			"client address = documented realip rule: neither X-Forwarded-For nor X-Real-IP -> RemoteAddr host; else first valid public (not loopback/RFC1918/link-local/ULA) hop of X-Forwarded-For; else X-Real-IP. Generated sources: RemoteAddr, X-Real-IP, XFF client[,proxy], XFF+X-Real-IP agreeing, private-only XFF chain (reused across clients) + X-Real-IP, private hops then client in XFF with decoy X-Real-IP, XFF client + decoy X-Real-IP. Not generated: private-only XFF without X-Real-IP, unparseable hops, IPv4-mapped IPv6",
			"cached 404/405 answered to a server-denied client is accepted (4xx)",
			"gates inside a request: the mux's atomic instance load, every statement of ipfilter.go (stmt_gates), the handler (optional yield); the ARC cache has its own real lock. A reload passes gates at the instance load/store and inside every ipfilter.New",
			"hot reload: a request may be judged by any spec generation installed by a reload that had not returned when the request was handed to ServeHTTP ... had started when ServeHTTP returned; with no overlapping reload that is exactly the newest generation. Reloads of one server are serialised (as the supervisor does). Reloads keep rules/paths/cacheSize and change only ipFilter blocks",
			"an answer explained only by lists that a returned reload had already replaced is classed C05.reload.*",
			"route existence is taken from the twin's answer to the same request without body; X-Forwarded-For header lines are read as one list (RFC 7230 3.2.2), members that are not addresses are skipped; a client named only by a non-address may be refused or answered as unfiltered, consistently with the cache-less mux",
			"a rule whose host equals the request's up to letter case, or whose hostRegexp finds it, counts as maybe applying (lenient)",
			"the decision table is applied to the parsed ADDRESS: header-borne clients and list entries are also written in other spellings of the same address (IPv4-mapped ::ffff:a.b.c.d / ::ffff:hhhh:hhhh, IPv6 upper case, four-digit groups, other :: compression); membership by net.IPNet.Contains. IPv4-mapped list entries being ignored / panicking on load was a genuine defect, repaired by 7d1a200",
		},
	})
}
