//go:debug asynctimerchan=0
//go:build go1.21

package httpserver

// C05 — IP filter: denied clients never reach a pipeline, allowed ones are
// unaffected.
//
// The real mux (supervisor.NewSpec -> mux.reload -> mux.ServeHTTP ->
// muxInstance.search, ipfilter.New / IPFilter.Allow, httpprot.NewRequest with
// the realip extraction) is driven by 1-4 simulated client tasks through
// httptest recorders and a recording MuxMapper. Server-, rule- and path-level
// ipfilter specs are drawn from a small IPv4+IPv6 address universe (single
// addresses, CIDRs with boundary prefix lengths, host bits set or not,
// overlapping allow/block entries, blockByDefault); the route cache size is
// drawn from {0,1,2,8}, so the order in which the clients' requests reach the
// mux (a scheduler decision) decides who populates / evicts the cache.
//
// Oracle (written from the property statement and doc/reference/controllers.md,
// membership by net.IPNet.Contains):
//   - which route a request belongs to is NOT modelled here (C01's domain): a
//     quiescent twin of the same mux code with every filter removed and the
//     cache switched off answers the same request; its backend name tells the
//     rule and path "the router selects".
//   - filters applying to a request = server filter, filter of the rule that
//     holds the selected path, filter of the selected path ("definite").
//     Filters of rules that match the host and are consulted before the
//     selected rule (or of all host-matching rules when no route exists) are
//     "maybe applying": doc says "IP Filter for all traffic under the rule",
//     which can be read either way. Denied only by a "maybe" filter => 403
//     without handler or the twin's answer are both accepted, BUT the answer
//     must not depend on the history: it has to be the one the same
//     configuration gives without a route cache (statement: "with or without
//     the route cache and whatever requests preceded it").
//   - definite-denied => status 4xx, 403 when the twin routes it, no handler
//     invocation. Not denied at all => (status, backend, handler-visible path)
//     equal to the twin's.
//
// Leniency decisions:
//   - which address is "the client" follows the documented rule of the
//     extraction package easegress imports (tomasen/realip): no X-Real-IP and
//     no X-Forwarded-For -> peer address; else the first valid public hop of
//     X-Forwarded-For; else X-Real-IP (c05ClientOf). Sources: RemoteAddr;
//     X-Real-IP; XFF "client[, proxy]"; XFF and X-Real-IP agreeing; XFF made
//     of private hops only + X-Real-IP = client (the same private chain is
//     reused for different clients of a run); XFF "private hops, client" with
//     a decoy X-Real-IP; XFF client + decoy X-Real-IP. Ops whose headers do
//     not name op.IP under that rule are skipped. Not generated: private-only
//     XFF without X-Real-IP (the rule yields no address), unparseable hops.
//   - IPv4-mapped IPv6 addresses are not generated (family is a matter of
//     reading). Invalid list entries are not generated (validation rejects
//     them).
//   - cached 404/405 answered to a client the server filter denies is accepted
//     (statement: any 4xx unless the route exists) — that is C12's business.
//   - with header-conditioned paths (a minority of scenarios) a not-denied
//     request that the cached mux routes to ANOTHER path than the twin is not
//     judged here (pure cache shadowing, C12.header-shadow); only its filter
//     consequences are (denied client reaching a pipeline, allowed client
//     refused by a filter of a path that is not its route).
//   - cache keys are collision free by construction of the alphabet (C12).
//
// Violation classes: C05.{server,rule,path}-filter-bypassed (denied client
// reached the backend of its own route), C05.denied-status-not-4xx / -not-403,
// C05.allowed-refused, C05.allowed-misrouted, C05.other, and three classes
// that fire on the unchanged tree (genuine defects of the cached branch of
// muxInstance.search): C05.earlier-rule-filter-skipped-on-cache-hit,
// C05.denied-reaches-sibling-path, C05.allowed-refused-by-sibling-path-filter.
// For mutation experiments only, VERIF_C05_MASK=<class,class,...> turns the
// listed classes into probes (c05.masked.<class>) so that they do not end the
// campaign before a mutant is reached.

import (
	"fmt"
	"net"
	"net/http"
	"net/http/httptest"
	"os"
	"sort"
	"strings"
	"testing"
	"time"

	"github.com/megaease/easegress/pkg/context"
	"github.com/megaease/easegress/pkg/logger"
	"github.com/megaease/easegress/pkg/protocols/httpprot"
	"github.com/megaease/easegress/pkg/protocols/httpprot/httpstat"
	"github.com/megaease/easegress/pkg/supervisor"
	"github.com/megaease/easegress/pkg/util/ipfilter"
	"verif/simkit/hdrv"
	"verif/simkit/sim"
)

func init() { logger.InitNop() }

// ---- scenario ---------------------------------------------------------------

type c05Filter struct {
	BlockByDefault bool     `json:"bbd"`
	Allow          []string `json:"allow"`
	Block          []string `json:"block"`
}

type c05Path struct {
	Kind    string     `json:"kind"` // exact | prefix | any
	Path    string     `json:"path"`
	Methods []string   `json:"methods"`
	Tag     string     `json:"tag"`     // non-empty: path is conditioned on header X-Tag == Tag
	Rewrite string     `json:"rewrite"` // rewriteTarget
	Filter  *c05Filter `json:"filter"`
}

type c05Rule struct {
	Host   string     `json:"host"`
	Filter *c05Filter `json:"filter"`
	Paths  []c05Path  `json:"paths"`
}

type c05Op struct {
	Kind   string `json:"kind"` // req | reload
	GapUs  int64  `json:"gap_us"`
	Host   string `json:"host"`
	Method string `json:"method"`
	Path   string `json:"path"`
	Tag    string `json:"tag"`
	IP     string `json:"ip"`
	Via    string `json:"via"` // remote | xri | xff | xffproxy | both | privxff | privpub | xffdecoy
	// Chain: X-Forwarded-For hops that are all private/loopback (privxff,
	// privpub); Decoy: an address put into X-Real-IP that the documented rule
	// must NOT pick (privpub, xffdecoy; may be empty).
	Chain string `json:"chain,omitempty"`
	Decoy string `json:"decoy,omitempty"`
}

type c05Client struct {
	Ops []c05Op `json:"ops"`
}

type c05Scenario struct {
	CacheSize    int         `json:"cache_size"`
	Server       *c05Filter  `json:"server"`
	Rules        []c05Rule   `json:"rules"`
	Clients      []c05Client `json:"clients"`
	HandlerYield bool        `json:"handler_yield"`
}

// address universe: neighbours at interesting prefix boundaries, both families
var c05V4 = []string{"203.0.113.5", "203.0.113.4", "203.0.113.6", "203.0.113.130", "203.0.112.5", "198.51.100.7", "8.8.8.8", "128.0.0.1", "10.1.2.3", "192.168.1.7"}
var c05V6 = []string{"2001:db8::1", "2001:db8::2", "2001:db8::3", "2001:db8:0:1::1", "2001:db9::1", "2400:cb00::5", "8000::1", "fc00::1"}
var c05V4Len = []int{0, 1, 8, 16, 22, 23, 24, 25, 30, 31, 32}
var c05V6Len = []int{0, 1, 3, 16, 31, 32, 33, 48, 63, 64, 65, 127, 128}

func c05Private(ip string) bool {
	return ip == "10.1.2.3" || ip == "192.168.1.7" || ip == "fc00::1"
}

func c05Expand6(s string) string {
	ip := net.ParseIP(s)
	if ip == nil || ip.To4() != nil {
		return s
	}
	ip = ip.To16()
	parts := make([]string, 8)
	for i := 0; i < 8; i++ {
		parts[i] = fmt.Sprintf("%X", uint16(ip[2*i])<<8|uint16(ip[2*i+1]))
	}
	return strings.Join(parts, ":")
}

func c05GenEntry(rng *sim.Rand, pool []string) string {
	a := pool[rng.Intn(len(pool))]
	v6 := strings.Contains(a, ":")
	if rng.Bool(0.35) {
		if v6 && rng.Bool(0.25) {
			return c05Expand6(a)
		}
		return a
	}
	var l int
	if v6 {
		l = c05V6Len[rng.Intn(len(c05V6Len))]
	} else {
		l = c05V4Len[rng.Intn(len(c05V4Len))]
	}
	e := fmt.Sprintf("%s/%d", a, l)
	if rng.Bool(0.5) {
		if _, n, err := net.ParseCIDR(e); err == nil {
			e = n.String()
		}
	}
	return e
}

func c05Uniq(xs []string) []string {
	seen := map[string]bool{}
	out := []string{}
	for _, x := range xs {
		if !seen[x] {
			seen[x] = true
			out = append(out, x)
		}
	}
	return out
}

func c05GenFilter(rng *sim.Rand, pool []string, present float64) *c05Filter {
	if !rng.Bool(present) {
		return nil
	}
	f := &c05Filter{BlockByDefault: rng.Bool(0.4), Allow: []string{}, Block: []string{}}
	na, nb := rng.Pick(0, 0, 1, 1, 2, 3), rng.Pick(0, 1, 1, 2, 3)
	for i := 0; i < na; i++ {
		f.Allow = append(f.Allow, c05GenEntry(rng, pool))
	}
	for i := 0; i < nb; i++ {
		if len(f.Allow) > 0 && rng.Bool(0.25) {
			// overlapping entry: the same entry, or the same base address with another prefix
			e := f.Allow[rng.Intn(len(f.Allow))]
			if rng.Bool(0.5) {
				base := e
				if i := strings.Index(e, "/"); i >= 0 {
					base = e[:i]
				}
				e = c05GenEntry(rng, []string{base})
			}
			f.Block = append(f.Block, e)
			continue
		}
		f.Block = append(f.Block, c05GenEntry(rng, pool))
	}
	f.Allow, f.Block = c05Uniq(f.Allow), c05Uniq(f.Block)
	return f
}

func c05Gen(rng *sim.Rand, tier string) interface{} {
	sc := &c05Scenario{}
	sc.CacheSize = rng.Pick(0, 1, 2, 2, 8, 8)
	sc.HandlerYield = rng.Bool(0.5)
	headers := rng.Bool(0.12)

	// per-scenario client population: 2-5 addresses, both families likely
	var pool []string
	np := rng.Range(2, 5)
	for i := 0; i < np; i++ {
		if rng.Bool(0.6) {
			pool = append(pool, c05V4[rng.Intn(len(c05V4))])
		} else {
			pool = append(pool, c05V6[rng.Intn(len(c05V6))])
		}
	}
	// list entries come mostly from the same population, sometimes from the whole universe
	entryPool := append([]string(nil), pool...)
	if rng.Bool(0.5) {
		entryPool = append(entryPool, c05V4[rng.Intn(len(c05V4))], c05V6[rng.Intn(len(c05V6))])
	}
	// how dense filters are is itself a per-run knob (swarm)
	pS, pR, pP := float64(rng.Pick(0, 30, 50, 80))/100, float64(rng.Pick(0, 30, 50, 80))/100, float64(rng.Pick(0, 30, 50, 80))/100
	if pS == 0 && pR == 0 && pP == 0 {
		pR = 0.7
	}
	sc.Server = c05GenFilter(rng, entryPool, pS)
	nr := rng.Range(1, 3)
	for i := 0; i < nr; i++ {
		ru := c05Rule{Host: rng.PickStr("", "a.test", "a.test", "b.test"), Paths: []c05Path{}}
		ru.Filter = c05GenFilter(rng, entryPool, pR)
		npth := rng.Pick(0, 1, 1, 2, 2, 3)
		for j := 0; j < npth; j++ {
			p := c05Path{Methods: []string{}}
			switch rng.Intn(6) {
			case 0, 1:
				p.Kind, p.Path = "exact", rng.PickStr("/a", "/a", "/b", "/a/x")
			case 2, 3:
				p.Kind, p.Path = "prefix", rng.PickStr("/a", "/", "/b")
			case 4:
				p.Kind, p.Path = "exact", "/a"
			default:
				p.Kind = "any"
			}
			switch rng.Intn(5) {
			case 0:
				p.Methods = []string{"GET"}
			case 1:
				p.Methods = []string{"POST"}
			case 2:
				p.Methods = []string{"GET", "POST"}
			}
			if headers && rng.Bool(0.5) {
				p.Tag = "v1"
			}
			if p.Kind != "any" && rng.Bool(0.2) {
				p.Rewrite = "/rw"
			}
			p.Filter = c05GenFilter(rng, entryPool, pP)
			ru.Paths = append(ru.Paths, p)
		}
		sc.Rules = append(sc.Rules, ru)
	}

	// a few "hot" cache keys per scenario, so that different clients meet on
	// the same cached route
	randKey := func() (string, string, string) {
		return rng.PickStr("a.test", "a.test", "a.test", "b.test", "c.test", "a.test:8080"),
			rng.PickStr("GET", "GET", "GET", "POST"),
			rng.PickStr("/a", "/a", "/a", "/a/x", "/b", "/")
	}
	var focus [][3]string
	for i, n := 0, rng.Range(1, 3); i < n; i++ {
		h, m, p := randKey()
		focus = append(focus, [3]string{h, m, p})
	}
	focusP := float64(rng.Pick(30, 60, 90)) / 100
	// proxy chains made of private hops only; a scenario owns one or two of
	// them and re-uses them for requests of DIFFERENT clients (what a fleet
	// of internal proxies looks like from the server's side)
	chains := []string{rng.PickStr("10.0.0.7, 192.168.1.9", "10.0.0.7", "192.168.1.9,10.0.0.7", "172.16.5.4, fc00::9", "127.0.0.1", "fe80::1, 10.9.9.9")}
	if rng.Bool(0.4) {
		chains = append(chains, rng.PickStr("10.0.0.8", "169.254.1.1, 10.0.0.7", "::1"))
	}
	pChainVia := float64(rng.Pick(0, 10, 30, 60)) / 100
	nc := rng.Range(1, 4)
	total := rng.Range(6, 40)
	for c := 0; c < nc; c++ {
		cl := c05Client{}
		n := total / nc
		if n < 1 {
			n = 1
		}
		for i := 0; i < n; i++ {
			if rng.Bool(0.03) {
				cl.Ops = append(cl.Ops, c05Op{Kind: "reload", GapUs: int64(rng.Pick(0, 1, 1000))})
				continue
			}
			op := c05Op{Kind: "req", GapUs: int64(rng.Pick(0, 0, 1, 1000))}
			if rng.Bool(focusP) {
				k := focus[rng.Intn(len(focus))]
				op.Host, op.Method, op.Path = k[0], k[1], k[2]
			} else {
				op.Host, op.Method, op.Path = randKey()
			}
			if headers && rng.Bool(0.5) {
				op.Tag = "v1"
			}
			op.IP = pool[rng.Intn(len(pool))]
			switch {
			case rng.Bool(pChainVia):
				op.Chain = chains[rng.Intn(len(chains))]
				op.Via = "privxff"
				if !c05Private(op.IP) && rng.Bool(0.3) {
					op.Via = "privpub"
					if rng.Bool(0.5) {
						op.Decoy = pool[rng.Intn(len(pool))]
					}
				}
			case c05Private(op.IP):
				op.Via = rng.PickStr("remote", "xri")
			default:
				op.Via = rng.PickStr("remote", "remote", "xri", "xff", "xffproxy", "both", "xffdecoy")
				if op.Via == "xffdecoy" {
					op.Decoy = pool[rng.Intn(len(pool))]
				}
			}
			cl.Ops = append(cl.Ops, op)
		}
		sc.Clients = append(sc.Clients, cl)
	}
	return sc
}

// ---- reference decision table (from the statement) ---------------------------

func c05Contains(entry string, ip net.IP) bool {
	if strings.Contains(entry, "/") {
		_, n, err := net.ParseCIDR(entry)
		return err == nil && n.Contains(ip)
	}
	a := net.ParseIP(entry)
	return a != nil && a.Equal(ip)
}

// c05Denied: denied iff in a blocked entry and in no allowed one, or in
// neither / in both and blockByDefault is set.
func c05Denied(f *c05Filter, ip net.IP) (denied, inAllow, inBlock bool) {
	if f == nil {
		return false, false, false
	}
	for _, e := range f.Allow {
		if c05Contains(e, ip) {
			inAllow = true
		}
	}
	for _, e := range f.Block {
		if c05Contains(e, ip) {
			inBlock = true
		}
	}
	switch {
	case inBlock && !inAllow:
		denied = true
	case inAllow && !inBlock:
		denied = false
	default:
		denied = f.BlockByDefault
	}
	return
}

func c05HostMatches(ruleHost, reqHost string) bool {
	if ruleHost == "" {
		return true
	}
	if h, _, err := net.SplitHostPort(reqHost); err == nil {
		reqHost = h
	}
	return ruleHost == reqHost
}

// ---- system under test -------------------------------------------------------

func c05FilterYAML(sb *strings.Builder, indent string, f *c05Filter) {
	if f == nil {
		return
	}
	q := func(xs []string) string {
		out := make([]string, len(xs))
		for i, x := range xs {
			out[i] = fmt.Sprintf("%q", x)
		}
		return "[" + strings.Join(out, ", ") + "]"
	}
	fmt.Fprintf(sb, "%sipFilter:\n%s  blockByDefault: %v\n", indent, indent, f.BlockByDefault)
	if len(f.Allow) > 0 {
		fmt.Fprintf(sb, "%s  allowIPs: %s\n", indent, q(f.Allow))
	}
	if len(f.Block) > 0 {
		fmt.Fprintf(sb, "%s  blockIPs: %s\n", indent, q(f.Block))
	}
}

func c05YAML(sc *c05Scenario, filters bool, cacheSize int) string {
	var sb strings.Builder
	fmt.Fprintf(&sb, "kind: HTTPServer\nname: c05\nport: 10080\nkeepAlive: true\nhttps: false\ncacheSize: %d\n", cacheSize)
	if filters {
		c05FilterYAML(&sb, "", sc.Server)
	}
	if len(sc.Rules) > 0 {
		sb.WriteString("rules:\n")
	}
	for i, ru := range sc.Rules {
		fmt.Fprintf(&sb, "- host: %q\n", ru.Host)
		if filters {
			c05FilterYAML(&sb, "  ", ru.Filter)
		}
		if len(ru.Paths) > 0 {
			sb.WriteString("  paths:\n")
		}
		for j, p := range ru.Paths {
			fmt.Fprintf(&sb, "  - backend: r%dp%d\n", i, j)
			switch p.Kind {
			case "exact":
				fmt.Fprintf(&sb, "    path: %q\n", p.Path)
			case "prefix":
				fmt.Fprintf(&sb, "    pathPrefix: %q\n", p.Path)
			}
			if len(p.Methods) > 0 {
				fmt.Fprintf(&sb, "    methods: [%s]\n", strings.Join(p.Methods, ", "))
			}
			if p.Rewrite != "" && p.Kind != "any" && p.Kind != "" {
				fmt.Fprintf(&sb, "    rewriteTarget: %q\n", p.Rewrite)
			}
			if p.Tag != "" {
				fmt.Fprintf(&sb, "    headers:\n    - key: X-Tag\n      values: [%q]\n", p.Tag)
			}
			if filters {
				c05FilterYAML(&sb, "    ", p.Filter)
			}
		}
	}
	return sb.String()
}

type c05Call struct {
	backend, path, realIP string
}

type c05Mapper struct {
	r           *sim.Run
	yield       bool
	calls       map[string][]c05Call
	inflight    int
	maxInflight int
}

type c05Handler struct {
	m    *c05Mapper
	name string
}

func (m *c05Mapper) GetHandler(name string) (context.Handler, bool) {
	return &c05Handler{m: m, name: name}, true
}

func (h *c05Handler) Handle(ctx *context.Context) string {
	m := h.m
	req, _ := ctx.GetInputRequest().(*httpprot.Request)
	id, path, rip := "?", "?", "?"
	if req != nil {
		id, path, rip = req.HTTPHeader().Get("X-C05-Id"), req.Path(), req.RealIP()
	}
	m.calls[id] = append(m.calls[id], c05Call{backend: h.name, path: path, realIP: rip})
	if m.yield {
		m.inflight++
		if m.inflight > m.maxInflight {
			m.maxInflight = m.inflight
		}
		m.r.Yield("c05.handler")
		m.inflight--
	}
	resp, _ := httpprot.NewResponse(nil)
	resp.SetStatusCode(http.StatusOK)
	resp.HTTPHeader().Set("X-C05-Backend", h.name)
	ctx.SetResponse(context.DefaultNamespace, resp)
	return ""
}

type c05Mux struct {
	m      *mux
	ss     *supervisor.Spec
	mapper *c05Mapper
}

func c05NewMux(r *sim.Run, ss *supervisor.Spec, yield bool) *c05Mux {
	mp := &c05Mapper{r: r, yield: yield, calls: map[string][]c05Call{}}
	m := newMux(httpstat.New(), httpstat.NewTopN(10), mp)
	m.reload(ss, mp)
	return &c05Mux{m: m, ss: ss, mapper: mp}
}

// c05Build creates the mux under test and its two quiescent twins from ONE
// validated spec (supervisor.NewSpec is by far the most expensive step of a
// run): mux.reload reads filters and cacheSize only while it builds the
// instance, so the twins are built from the same spec object with the cache
// size / the filters temporarily taken out.
func c05Build(r *sim.Run, sc *c05Scenario) (main, twinU, twinF *c05Mux, err error) {
	ss, err := supervisor.NewSpec(c05YAML(sc, true, sc.CacheSize))
	if err != nil {
		return nil, nil, nil, err
	}
	spec := ss.ObjectSpec().(*Spec)
	main = c05NewMux(r, ss, sc.HandlerYield)
	cs := spec.CacheSize
	spec.CacheSize = 0
	twinF = c05NewMux(r, ss, false)
	type saved struct {
		at **ipfilter.Spec
		v  *ipfilter.Spec
	}
	var sv []saved
	strip := func(p **ipfilter.Spec) {
		sv = append(sv, saved{p, *p})
		*p = nil
	}
	strip(&spec.IPFilter)
	for _, ru := range spec.Rules {
		strip(&ru.IPFilter)
		for _, p := range ru.Paths {
			strip(&p.IPFilter)
		}
	}
	twinU = c05NewMux(r, ss, false)
	for _, x := range sv {
		*x.at = x.v
	}
	spec.CacheSize = cs
	return main, twinU, twinF, nil
}

type c05Answer struct {
	status  int
	calls   []c05Call
	backend string // "" when no handler was invoked
	path    string
}

func (a c05Answer) String() string {
	if len(a.calls) == 0 {
		return fmt.Sprintf("%d(no handler)", a.status)
	}
	return fmt.Sprintf("%d(backend %s saw path %s, realIP %s; %d handler call(s))", a.status, a.backend, a.path, a.calls[0].realIP, len(a.calls))
}

func (a c05Answer) same(b c05Answer) bool {
	return a.status == b.status && a.backend == b.backend && a.path == b.path && len(a.calls) == len(b.calls)
}

func c05Request(op c05Op, id string) *http.Request {
	req, err := http.NewRequest(op.Method, "http://"+op.Host+op.Path, http.NoBody)
	if err != nil {
		return nil
	}
	req.RequestURI = op.Path
	hostport := func(ip string) string { return net.JoinHostPort(ip, "40000") }
	const proxy = "192.0.2.1"
	switch op.Via {
	case "xri":
		req.RemoteAddr = hostport(proxy)
		req.Header.Set("X-Real-Ip", op.IP)
	case "xff":
		req.RemoteAddr = hostport(proxy)
		req.Header.Set("X-Forwarded-For", op.IP)
	case "xffproxy":
		req.RemoteAddr = hostport(proxy)
		req.Header.Set("X-Forwarded-For", op.IP+", 192.0.2.77")
	case "both":
		req.RemoteAddr = hostport(proxy)
		req.Header.Set("X-Forwarded-For", op.IP)
		req.Header.Set("X-Real-Ip", op.IP)
	case "privxff":
		// only private hops in X-Forwarded-For: the client is in X-Real-IP
		req.RemoteAddr = hostport(proxy)
		req.Header.Set("X-Forwarded-For", op.Chain)
		req.Header.Set("X-Real-Ip", op.IP)
	case "privpub":
		// private hops first, then the (public) client; X-Real-IP is a decoy
		req.RemoteAddr = hostport(proxy)
		req.Header.Set("X-Forwarded-For", op.Chain+", "+op.IP)
		if op.Decoy != "" {
			req.Header.Set("X-Real-Ip", op.Decoy)
		}
	case "xffdecoy":
		req.RemoteAddr = hostport(proxy)
		req.Header.Set("X-Forwarded-For", op.IP)
		if op.Decoy != "" {
			req.Header.Set("X-Real-Ip", op.Decoy)
		}
	default:
		req.RemoteAddr = hostport(op.IP)
	}
	if op.Tag != "" {
		req.Header.Set("X-Tag", op.Tag)
	}
	req.Header.Set("X-C05-Id", id)
	return req
}

// c05NonPublic lists the blocks the documented client-address rule skips in
// X-Forwarded-For: loopback, RFC 1918, link-local, IPv6 loopback / ULA /
// link-local (realip: "Exclude local or private address").
var c05NonPublic = func() []*net.IPNet {
	var out []*net.IPNet
	for _, c := range []string{"127.0.0.0/8", "10.0.0.0/8", "172.16.0.0/12", "192.168.0.0/16", "169.254.0.0/16", "::1/128", "fc00::/7", "fe80::/10"} {
		_, n, _ := net.ParseCIDR(c)
		out = append(out, n)
	}
	return out
}()

// c05ClientOf is the documented rule of the address extraction easegress
// imports (github.com/tomasen/realip, "follows the rule of X-Real-IP / of
// X-Forwarded-For, exclude local or private address"): with neither header
// the peer address; otherwise the first valid public hop of X-Forwarded-For;
// if there is none, X-Real-IP. (A request with only private hops and no
// X-Real-IP has no defined client: ok=false, never generated.)
func c05ClientOf(req *http.Request) (string, bool) {
	xff, xri := req.Header.Get("X-Forwarded-For"), req.Header.Get("X-Real-Ip")
	if xff == "" && xri == "" {
		h, _, err := net.SplitHostPort(req.RemoteAddr)
		return h, err == nil
	}
	if xff != "" {
	hops:
		for _, hop := range strings.Split(xff, ",") {
			hop = strings.TrimSpace(hop)
			ip := net.ParseIP(hop)
			if ip == nil {
				continue
			}
			for _, n := range c05NonPublic {
				if n.Contains(ip) {
					continue hops
				}
			}
			return hop, true
		}
	}
	return xri, xri != ""
}

func (cm *c05Mux) serve(op c05Op, id string) (ans c05Answer, ok bool) {
	req := c05Request(op, id)
	if req == nil {
		return ans, false
	}
	rec := httptest.NewRecorder()
	cm.m.ServeHTTP(rec, req)
	ans.status = rec.Code
	ans.calls = cm.mapper.calls[id]
	delete(cm.mapper.calls, id)
	if len(ans.calls) > 0 {
		ans.backend, ans.path = ans.calls[0].backend, ans.calls[0].path
	}
	return ans, true
}

var c05Mask = func() map[string]bool {
	m := map[string]bool{}
	for _, c := range strings.Split(os.Getenv("VERIF_C05_MASK"), ",") {
		if c = strings.TrimSpace(c); c != "" {
			m[c] = true
		}
	}
	return m
}()

func c05ValidOp(op c05Op) bool {
	if op.Kind == "reload" {
		return true
	}
	if op.Kind != "req" || op.Host == "" || op.Method == "" || !strings.HasPrefix(op.Path, "/") || net.ParseIP(op.IP) == nil {
		return false
	}
	if strings.HasPrefix(op.Path, "/.well-known/") {
		return false
	}
	switch op.Via {
	case "remote", "xri", "xff", "xffproxy", "both", "privxff", "privpub", "xffdecoy":
	default:
		return false
	}
	if op.Decoy != "" && net.ParseIP(op.Decoy) == nil {
		return false
	}
	if (op.Via == "privxff" || op.Via == "privpub") && op.Chain == "" {
		return false
	}
	// the request as built must name op.IP as its client under the documented
	// rule (keeps shrunk / hand-edited scenarios honest)
	req := c05Request(op, "x")
	if req == nil {
		return false
	}
	got, ok := c05ClientOf(req)
	return ok && got == op.IP
}

func c05Exec(r *sim.Run, sci interface{}) {
	sc := sci.(*c05Scenario)
	if sc.CacheSize < 0 || sc.CacheSize > 1000 {
		return
	}
	for _, ru := range sc.Rules {
		for _, p := range ru.Paths {
			if p.Kind != "exact" && p.Kind != "prefix" && p.Kind != "any" {
				return
			}
			if p.Kind != "any" && !strings.HasPrefix(p.Path, "/") {
				return
			}
		}
	}
	main, twinU, twinF, err := c05Build(r, sc)
	if err != nil {
		r.Probe("c05.spec_rejected")
		r.Eventf("spec rejected: %v", err)
		return
	}
	defer func() {
		main.m.close()
		twinU.m.close()
		twinF.m.close()
	}()
	// prologue: one fixed request (public X-Forwarded-For that no scenario
	// uses) through the filter-less twin, so that any process-wide "last
	// request" state of the address extraction is the same at the start of
	// every run, whatever ran before in this worker process (replays start
	// in a fresh process).
	twinU.serve(c05Op{Kind: "req", Host: "warmup.test", Method: "GET", Path: "/", IP: "198.18.0.1", Via: "xff"}, "warmup")
	hasTags := false
	for _, ru := range sc.Rules {
		for _, p := range ru.Paths {
			if p.Tag != "" {
				hasTags = true
			}
		}
	}

	violate := func(class, format string, a ...interface{}) {
		if c05Mask[class] {
			r.Probe("c05.masked." + class)
			return
		}
		r.Violate(class, format, a...)
	}

	var sig strings.Builder
	nDenied, nAllowedRouted, nCacheHit := 0, 0, 0
	reqNo := 0

	// judge applies the statement to one answer of one mux. which = "cached"
	// (the mux under test, cache as configured) or "nocache" (same spec,
	// cacheSize 0).
	judge := func(which, tag string, op c05Op, got, tw, f0 c05Answer, cached bool) {
		ip := net.ParseIP(op.IP)
		routed := len(tw.calls) > 0
		ri, pj := -1, -1
		if routed {
			if _, err := fmt.Sscanf(tw.backend, "r%dp%d", &ri, &pj); err != nil || ri < 0 || ri >= len(sc.Rules) || pj < 0 || pj >= len(sc.Rules[ri].Paths) {
				violate("C05.other", "%s: twin reached unknown backend %q", tag, tw.backend)
				return
			}
		}
		ctxmsg := func() string {
			return fmt.Sprintf("%s [%s mux, cacheSize %d, key cached before the request: %v] %s %s%s tag=%q client %s via %s\n  got %v\n  unfiltered uncached twin %v\n  filtered uncached twin %v\n  config:\n%s",
				tag, which, sc.CacheSize, cached, op.Method, op.Host, op.Path, op.Tag, op.IP, op.Via, got, tw, f0, c05YAML(sc, true, sc.CacheSize))
		}
		if len(got.calls) > 1 {
			violate("C05.other", "handler invoked %d times for one request\n%s", len(got.calls), ctxmsg())
			return
		}
		// definite filters
		level := ""
		if d, _, _ := c05Denied(sc.Server, ip); d {
			level = "server"
		}
		if level == "" && routed {
			if d, _, _ := c05Denied(sc.Rules[ri].Filter, ip); d {
				level = "rule"
			} else if d, _, _ := c05Denied(sc.Rules[ri].Paths[pj].Filter, ip); d {
				level = "path"
			}
		}
		// maybe filters: host-matching rules consulted before the selected one
		maybe := -1
		for k, ru := range sc.Rules {
			if routed && k >= ri {
				break
			}
			if !c05HostMatches(ru.Host, op.Host) {
				continue
			}
			if d, _, _ := c05Denied(ru.Filter, ip); d {
				maybe = k
				break
			}
		}
		if which == "cached" {
			// reach probes
			for _, f := range []*c05Filter{sc.Server} {
				if _, a, b := c05Denied(f, ip); f != nil {
					switch {
					case a && b:
						r.Probe("c05.addr_in_allow_and_block")
					case !a && !b && f.BlockByDefault:
						r.Probe("c05.addr_in_neither_blockByDefault")
					}
				}
			}
			if routed {
				for _, f := range []*c05Filter{sc.Rules[ri].Filter, sc.Rules[ri].Paths[pj].Filter} {
					if _, a, b := c05Denied(f, ip); f != nil {
						switch {
						case a && b:
							r.Probe("c05.addr_in_allow_and_block")
						case !a && !b && f.BlockByDefault:
							r.Probe("c05.addr_in_neither_blockByDefault")
						}
					}
				}
			}
			switch {
			case level != "":
				nDenied++
				r.Probe("c05.denied_at_" + level)
				if cached {
					r.Probe("c05.denied_on_cached_key_" + level)
				}
				if !routed {
					r.Probe("c05.denied_without_route")
				}
			case maybe >= 0:
				r.Probe("c05.denied_only_by_earlier_rule")
				if cached && routed {
					r.Probe("c05.denied_only_by_earlier_rule_on_cached_route")
				}
			default:
				if routed {
					nAllowedRouted++
					r.Probe("c05.allowed_routed")
					if cached {
						r.Probe("c05.allowed_on_cached_key")
					}
				}
			}
		}

		switch {
		case level != "":
			if len(got.calls) > 0 {
				if routed && got.backend != tw.backend {
					violate("C05.denied-reaches-sibling-path", "client denied by the %s-level filter of its route was served by backend %s (another path than the router selects)\n%s", level, got.backend, ctxmsg())
				} else {
					violate("C05."+level+"-filter-bypassed", "client denied by the %s-level filter reached backend %s\n%s", level, got.backend, ctxmsg())
				}
				return
			}
			if got.status < 400 || got.status > 499 {
				violate("C05.denied-status-not-4xx", "client denied by the %s-level filter got status %d\n%s", level, got.status, ctxmsg())
				return
			}
			if routed && got.status != http.StatusForbidden {
				violate("C05.denied-status-not-403", "client denied by the %s-level filter on an existing route got status %d, want 403\n%s", level, got.status, ctxmsg())
			}
		case maybe >= 0:
			refused := len(got.calls) == 0 && got.status == http.StatusForbidden
			if !refused && !got.same(tw) {
				if hasTags && len(got.calls) > 0 && routed {
					r.Probe("c05.header_shadow_unjudged")
					return
				}
				violate("C05.other", "client denied only by the filter of earlier host-matching rule %d got neither 403 nor the unfiltered answer\n%s", maybe, ctxmsg())
				return
			}
			if which == "cached" && routed && !got.same(f0) {
				// the answer depends on what was cached
				if len(got.calls) > 0 && len(f0.calls) == 0 {
					violate("C05.earlier-rule-filter-skipped-on-cache-hit", "rule %d matches the host and its filter denies the client; without route cache the request is refused (403), with the route cached it reaches backend %s\n%s", maybe, got.backend, ctxmsg())
				} else {
					violate("C05.other", "answer for a client denied only by earlier rule %d depends on the cache history\n%s", maybe, ctxmsg())
				}
			}
		default:
			if got.same(tw) {
				return
			}
			if hasTags && len(got.calls) > 0 && routed {
				// routed, but to another path than the twin: cache shadowing of a
				// header-conditioned path, no filter involved (C12)
				r.Probe("c05.header_shadow_unjudged")
				return
			}
			if len(got.calls) == 0 && got.status == http.StatusForbidden {
				if which == "cached" && hasTags && sc.CacheSize > 0 && f0.same(tw) {
					violate("C05.allowed-refused-by-sibling-path-filter", "no applying filter denies the client and the uncached mux routes it, but with the route cache it gets 403\n%s", ctxmsg())
				} else {
					violate("C05.allowed-refused", "no filter applying to the request denies the client, yet it gets 403\n%s", ctxmsg())
				}
				return
			}
			violate("C05.allowed-misrouted", "no filter denies the client, but the answer differs from a server without filters\n%s", ctxmsg())
		}
	}

	for ci := range sc.Clients {
		ci := ci
		ops := sc.Clients[ci].Ops
		r.Go(fmt.Sprintf("client%d", ci), func() {
			for oi, op := range ops {
				if r.Violated() || r.Aborted() {
					return
				}
				if !c05ValidOp(op) {
					continue
				}
				if op.GapUs < 0 || op.GapUs > 10000000 {
					op.GapUs = 0
				}
				r.Sleep(time.Duration(op.GapUs) * time.Microsecond)
				tag := fmt.Sprintf("c%d.%d", ci, oi)
				if op.Kind == "reload" {
					main.m.reload(main.ss, main.mapper)
					r.Probe("c05.reload")
					r.Eventf("%s reload", tag)
					continue
				}
				reqNo++
				id := fmt.Sprintf("q%d", reqNo)
				switch {
				case strings.Contains(op.IP, ":"):
					r.Probe("c05.ipv6_client")
				default:
					r.Probe("c05.ipv4_client")
				}
				r.Probe("c05.via_" + op.Via)
				// was the key in the route cache when the request was issued?
				cached, full := false, false
				if inst, _ := main.m.inst.Load().(*muxInstance); inst != nil && inst.cache != nil {
					// (probe only) the key layout is the implementation's business:
					// a key counts if it is host, method, path in that order with
					// any blank separators
					want := op.Host + op.Method + op.Path
					for _, k := range inst.cache.Keys() {
						if ks, ok := k.(string); ok && strings.Join(strings.Fields(ks), "") == want {
							cached = true
						}
					}
					full = inst.cache.Len() >= sc.CacheSize
				}
				if cached {
					nCacheHit++
				} else if full {
					r.Probe("c05.miss_with_full_cache")
				}
				got, ok := main.serve(op, id)
				if !ok {
					continue
				}
				tw, _ := twinU.serve(op, id)
				f0, _ := twinF.serve(op, id)
				r.Eventf("%s %s %s%s tag=%s ip=%s via=%s cached=%v -> %v | twin %v | nocache %v", tag, op.Method, op.Host, op.Path, op.Tag, op.IP, op.Via, cached, got, tw, f0)
				fmt.Fprintf(&sig, "%s%s%s%s%s>%d%s;", op.Method, op.Host, op.Path, op.Tag, op.IP, got.status, got.backend)
				judge("cached", tag, op, got, tw, f0, cached)
				if r.Violated() {
					return
				}
				judge("nocache", tag, op, f0, tw, f0, false)
			}
		})
	}
	r.WaitTasks()
	if main.mapper.maxInflight >= 2 {
		r.Probe("c05.concurrent_requests_in_handlers")
	}
	if nDenied > 0 && nAllowedRouted > 0 && (sc.CacheSize == 0 || nCacheHit > 0) {
		r.Nontrivial()
	}
	// distinct = configuration + the sequence of (request, answer) as it was linearised
	r.SetSig(c05YAML(sc, true, sc.CacheSize) + "|" + sig.String())
	// reach probes on the configuration
	ent := []string{}
	add := func(f *c05Filter) {
		if f != nil {
			ent = append(ent, f.Allow...)
			ent = append(ent, f.Block...)
		}
	}
	add(sc.Server)
	for _, ru := range sc.Rules {
		add(ru.Filter)
		for _, p := range ru.Paths {
			add(p.Filter)
		}
	}
	sort.Strings(ent)
	for _, e := range ent {
		if i := strings.Index(e, "/"); i >= 0 {
			if _, n, err := net.ParseCIDR(e); err == nil {
				if n.String() != e {
					r.Probe("c05.cidr_with_host_bits")
				}
				if strings.HasSuffix(e, "/0") {
					r.Probe("c05.cidr_prefix_0")
				}
			}
		}
	}
}

func TestVerifC05(t *testing.T) {
	hdrv.Main(t, &hdrv.Harness{
		ID:       "C05",
		Gen:      c05Gen,
		New:      func() interface{} { return &c05Scenario{} },
		Exec:     c05Exec,
		MaxSteps: 20000,
		Rule: "scenario = ipfilter specs at server/rule/path level drawn from an 18-address IPv4+IPv6 universe (single addresses, CIDRs at boundary prefix lengths incl. /0 and host bits, overlapping allow/block, blockByDefault) over 1-3 rules x 0-3 paths, cacheSize in {0,1,2,8}, 1-4 client tasks sending 6-40 requests (client address via RemoteAddr / X-Real-IP / X-Forwarded-For incl. private-only proxy chains shared by different clients) plus rare reloads; " +
			"non-trivial = at least one request denied by an applying filter and one allowed request routed, and (if the cache is on) at least one request whose key was already cached; distinct = distinct (configuration, linearised request/answer sequence)",
		Real: []string{"pkg/object/httpserver mux (reload, ServeHTTP, serveHTTP, search, route cache)", "pkg/util/ipfilter (New, Allow, IPFilters)", "pkg/protocols/httpprot.NewRequest (realip extraction)", "supervisor.NewSpec (YAML + schema validation of the ipFilter entries)", "hashicorp ARC cache, cidranger"},
		Stub: []string{"pipelines: recording MuxMapper/Handler (harness)", "HTTP transport: httptest.ResponseRecorder, requests built in memory", "sync/atomic -> simsync/simatomic (same semantics + gates)"},
		Assumptions: []string{
			"route selection is taken from a quiescent twin of the same mux without filters and without cache (routing bugs are C01's, cache shadowing C12's)",
			"filters applying = server, rule holding the selected path, selected path; a filter of an earlier host-matching rule may be applied or not, but consistently with the cache-less answer",
			"client address = documented realip rule: neither X-Forwarded-For nor X-Real-IP -> RemoteAddr host; else first valid public (not loopback/RFC1918/link-local/ULA) hop of X-Forwarded-For; else X-Real-IP. Generated sources: RemoteAddr, X-Real-IP, XFF client[,proxy], XFF+X-Real-IP agreeing, private-only XFF chain (reused across clients) + X-Real-IP, private hops then client in XFF with decoy X-Real-IP, XFF client + decoy X-Real-IP. Not generated: private-only XFF without X-Real-IP, unparseable hops, IPv4-mapped IPv6",
			"cached 404/405 answered to a server-denied client is accepted (4xx)",
			"searches are atomic steps (no gate inside muxInstance.search; the ARC cache has its own real lock): interleaving = order of whole requests + requests parked inside handlers",
		},
	})
}
