//go:debug asynctimerchan=0
//go:build go1.21

package proxy

// C10 — retry and time-limit policies bound attempts and waiting. (The last
// sentence of C08 — a short-circuited call is a 503 / shortCircuited and never
// reaches the transport — is checked by the sub-harness harness/C08P.)
// A second variant (scenario.net, c10net_test.go) runs the real http.Transport
// over the simulated network against a scripted backend server.
//
// System under test: the real ServerPool (NewServerPool, InjectResiliencePolicy,
// handle, doHandle, buildResponse, buildFailureResponse), the real
// resilience.RetryPolicy / CircuitBreakerPolicy built through
// resilience.NewPolicy from a spec map (defaults + validation as in
// production) and the real libcb.CircuitBreaker, driven by 1-3 simulated
// client tasks on the virtual clock. The only stub is the transport
// (fnSendRequest): per attempt it answers with a scripted status after a
// scripted latency, fails with a network error, or blocks until its context
// ends. Each request may have a canceller task that cancels the client's
// request context at a drawn instant.
//
// Reference (written from the property statement and doc/reference/
// controllers.md "Retry Policy" / "CircuitBreaker Policy", filters.md
// "proxy.ServerPoolSpec"):
//
//   C10.too-many-attempts       more transport calls for one client request than maxAttempts
//                               (documented default 3; 1 without a retry policy)
//   C10.too-few-attempts        the last attempt was a failed BACKEND call (failure code, network error, time-out),
//                               the client had not gone away before the return, fewer than maxAttempts attempts
//   C10.retry-after-success     an attempt was made after an attempt that succeeded
//   C10.backoff-too-short       attempt i+1 reached the transport earlier than
//                               waitDuration * (1-randomizationFactor) after attempt i had ended
//   C10.backoff-not-growing     exponential policy, no randomisation, one client task: a wait is not longer than
//                               the (exactly measured) wait before it
//   C10.attempt-after-cancel    an attempt was started although the client had cancelled while the
//                               retry was certainly still inside the previous attempt or its back-off
//   C10.stream-resent           a request with a stream body reached the transport twice
//   C10.final-outcome           result / status / body seen by the client is not the last attempt's
//   C10.failed-body-published   the last attempt's answer arrived with a body that could not be read completely
//                               (reset / stall until the time-out after k bytes, larger than serverMaxBodySize),
//                               yet the client is given that answer's status or bytes of its body
//   C10.timeout-not-applied     pool has a timeout, but the context handed to the transport has no
//                               deadline or one later than (transport entry + timeout)
//   C10.timeout-premature       an attempt's context reported DeadlineExceeded earlier than
//                               (earliest possible start of that attempt + timeout), or with no pool timeout
//   C10.timeout-hang            a backend that never answers kept the attempt blocked for 3 h although
//                               the pool has a timeout
//   C10.timeout-exceeded        pool has a timeout T, yet an attempt was released later than T (+ what scheduler
//                               stalls consumed + 1 ms) after it reached the transport, whatever (later) deadline
//                               the client's own request context carries
//   C10.call-exceeds-time-limit pool has a timeout T, yet the attempts of one call took more than attempts*T in
//                               total, or a call whose last attempt succeeded took more than attempts*T besides
//                               the waits observed between its attempts (+ stalls + 1 s)
//   C10.timeout-not-408         the last attempt ran into the pool timeout, but the client does not get
//                               result "timeout" with status 408
//   C10.spurious-cancel         the context handed to the transport is cancelled although the client did not
//                               cancel and no time-out expired
//   C10.cb-shortcircuit-while-closed  request short-circuited although "one record per client request"
//                               cannot have opened the breaker yet
//   C10.cb-admitted-while-open  request admitted although "one record per client request" has opened
//                               the breaker (waitDurationInOpenState is 24 h in every scenario)
//   C10.attempt-request-altered an attempt (first or repeated) reached the transport with another method or other
//                               body bytes than the client's request ("a retry policy configures how to retry a
//                               failed request": the request, not a part of it)
//   C10.spurious-cancel.stream-body  stream response (serverMaxBodySize -1): the last attempt answered, handle returned
//                               that answer's status and result, the client did not cancel and no simulated time
//                               has passed, yet reading the response stream fails with "context canceled": the pool
//                               cancelled the context of the backend call itself. (Any other incomplete stream of a
//                               complete backend body is C10.final-outcome.)
//   C10.panic                   a panic escaped ServerPool.handle
//   C10.other                   unknown request at the transport, missing response, a shortCircuited result
//                               without 503 / with a transport call (that rule belongs to C08: sub-harness
//                               harness/C08P, classes C08.proxy-*) ...
//
// Leniency decisions (statement silent / two readings):
//   * back-off is only bounded from below (the statement says "at least"): every wait is at least
//     waitDuration*(1-rf) (1 us of rounding slack); with the exponential policy waits must grow, but
//     no factor is required (see CORRECTION 2 below).
//   * waiting one more back-off after the final failed attempt is accepted (statement silent).
//   * a cancellation that falls on or after the earliest instant at which the back-off may have
//     ended does not forbid the next attempt; the first attempt may or may not be made when the
//     client cancelled before it.
//   * cancellation is a context cancel; after a client cancel only result "clientError" is
//     required, any status code is accepted (499 is not documented). The context of the client's
//     request may also carry a deadline of its own (shorter than, equal to, longer than the pool
//     time-out, or none): its expiry counts as a cancellation at that instant for the retry rules;
//     an attempt ended by a deadline while the client's own has expired may be reported as timeout
//     or clientError (statement silent), and is no "premature" pool time-out. A later client
//     deadline changes nothing about the pool time-out (that is the time-limit clause).
//   * whether the pool timeout covers one attempt or the whole request: the weaker per-attempt
//     bound is used for "premature"; "not applied" only requires a deadline no later than
//     transport entry + timeout.
//   * latency == remaining time-out: the transport stub reports the time-out; whatever the
//     context says at the instant the stub returns decides the expected classification.
//   * backOffPolicy is only generated as omitted / "random" / "exponential" (the values the
//     schema accepts); maxAttempts >= 1; randomizationFactor in [0,1].
//   * breaker: COUNT_BASED (given or by the documented default) or TIME_BASED, slow-call threshold
//     24 h, waitDurationInOpenState 24 h; failureRateThreshold, slidingWindowType,
//     slowCallRateThreshold and permittedNumberOfCallsInHalfOpenState may be omitted (documented
//     defaults 50 / COUNT_BASED / 100 / 10); minimumNumberOfCalls is always given (documentation says
//     default 10, DefaultPolicy says 100). With one client task the prediction is exact for
//     COUNT_BASED; for TIME_BASED ("the requests of the last N seconds") an earlier outcome counts
//     for certain when it is at most N-1 s older than the new one, is gone for certain when at least
//     N+1 s older, and may or may not count in between (whole-second buckets or exact age): the
//     reference computes "may be open" / "must be open" and lets an allowed observation settle it.
//     With several tasks only bounds are asserted (enough failed requests must exist to explain an
//     open breaker; once a short-circuit has been observed every later request must be
//     short-circuited).
//   * CORRECTION (false alarm found by a soundness test, a legal change answering 502 instead of 503
//     after a network error): the oracle demanded "serverError / 503" for a last attempt that failed
//     with a transport error, but neither the statement nor doc/reference names a status for it, only
//     the result (serverError = "Server-side network error"). Exact status numbers are now required
//     only where a document names them: 408 + timeout (statement), 503 + shortCircuited (C08's
//     statement), the backend's own status for an answered attempt incl. failure codes ("the outcome
//     of the last attempt"). Network error: serverError + any 5xx; unreadable body: a failure result +
//     any 5xx; no server available: a failure result + any 4xx/5xx; client cancellation: clientError,
//     status free. Bodies of gateway-generated failure responses are not compared.
//   * CORRECTION 2 (three false alarms found by legal alternatives, round 2):
//     (a) exponential factor 2 instead of 1.5 was reported as C10.call-exceeds-time-limit /
//     C10.too-few-attempts: the reference had taken the factor 1.5 and the upper end of the
//     randomisation interval (doc/reference/controllers.md describes them) as an UPPER bound for a
//     wait, in the call budget attempts*T + back-offs and in "the client cancelled later than the
//     longest possible back-off". The statement only says "waits at least": no growth factor, no
//     upper bound. Now: lower bound waitDuration*(1-rf) for every wait; growth asserted without a
//     factor (C10.backoff-not-growing); the call budget uses the waits actually observed and does
//     not cover the unobservable back-off after a failed last attempt; a client that went away
//     before the return always explains missing attempts. Net variant: C10.net-timeout-hang is
//     judged per unanswered attempt (released within T) and for successful calls only.
//     (b) a gateway-internal failure (answer that cannot be converted: unreadable / oversized body;
//     also: no server to call) ending the retry at once was reported as C10.too-few-attempts:
//     "at most maxAttempts" allows it. Retrying is still demanded after a failed backend call
//     (failure code, network error, time-out); both behaviours are accepted after a gateway-internal
//     failure (probes c10.retry.stopped_after_/retried_up_to_gateway_internal_failure).
//     (c) a client-abandoned request recorded by the breaker as a non-failure was reported as
//     C10.cb-admitted-while-open: the statement fixes the number of records (exactly one per client
//     request), not the kind of a cancelled request's record. The reference breaker now gives such a
//     record both values and computes "may be open" / "must be open" (as for TIME_BASED windows);
//     zero or several records per request are still detected.
//   * an attempt whose body cannot be read has failed: a failure result and a 5xx status are
//     required (408/timeout also accepted when the pool time-out expired inside the body, any
//     4xx/5xx after a client cancel); which failure result is not prescribed. A stalled body
//     without a pool time-out is only generated together with a client cancel.
//   * stream response: the stub's body can be read only while the context of the backend request is
//     alive (the net/http contract: "the context controls the entire lifetime of a request and its
//     response: ... reading the response headers and body"); the client copies the stream right after
//     handle returned (as mux.serveHTTP does) and then finishes the context. A stream may be cut (any
//     prefix accepted) when the backend itself cut or stalled its body, when the client had cancelled,
//     or when the pool time-out has elapsed since the earliest possible start of the last attempt
//     (whether the time-out still governs the stream after the head is not stated). A backend body that
//     fails is not an attempt failure in stream mode (the pool cannot know): outcome by status.
//   * an attempt for which the load balancer has no server ("noserver", as after a service-discovery
//     update listing none) is a failed attempt without transport call: counts towards maxAttempts, must
//     be followed by the back-off, and as last attempt must give a failure result with an error
//     status (neither is documented more precisely).
//   * serverMaxBodySize on the Proxy is the documented fallback of the pool option: same expectations.
//   * methods POST/PUT/PATCH/GET/DELETE (GET/DELETE without body); retries do not depend on the method
//     (neither statement nor documentation make them).

import (
	stdcontext "context"
	"errors"
	"fmt"
	"io"
	"net/http"
	"os"
	"runtime"
	"strings"
	"testing"
	"time"

	egctx "github.com/megaease/easegress/pkg/context"
	"github.com/megaease/easegress/pkg/logger"
	"github.com/megaease/easegress/pkg/protocols/httpprot"
	"github.com/megaease/easegress/pkg/resilience"
	"github.com/megaease/easegress/pkg/tracing"
	"verif/simkit/hdrv"
	"verif/simkit/sim"
)

// ---- scenario ---------------------------------------------------------------

type c10Retry struct {
	On          bool   `json:"on"`
	MaxAttempts int    `json:"max_attempts"` // 0: omitted (documented default 3)
	WaitMs      int64  `json:"wait_ms"`      // 0: omitted (documented default 500ms)
	BackOff     string `json:"back_off"`     // "": omitted (documented default random)
	RFPct       int    `json:"rf_pct"`       // randomizationFactor in percent; 0: omitted
}

type c10CB struct {
	On       bool `json:"on"`
	FailPct  int  `json:"fail_pct"` // 0: failureRateThreshold omitted (documented default 50)
	Window   int  `json:"window"`   // calls (COUNT_BASED) or seconds (TIME_BASED)
	MinCalls int  `json:"min_calls"`
	// slidingWindowType: "" (omitted: documented default COUNT_BASED) | COUNT_BASED | TIME_BASED
	Type string `json:"type"`
	// slowCallRateThreshold (documented default 100) and permittedNumberOfCallsInHalfOpenState
	// (documented default 10, irrelevant with a 24 h open wait) omitted
	OmitRest bool `json:"omit_rest"`
}

// failPct is the effective failureRateThreshold.
func (c c10CB) failPct() int {
	if c.FailPct == 0 {
		return 50
	}
	return c.FailPct
}

func (c c10CB) timeBased() bool { return c.Type == "TIME_BASED" }

type c10Attempt struct {
	Kind   string `json:"kind"` // resp | neterr | hang | bodyfail | bodyhang | toolarge | toolarge-unknown | noserver
	Status int    `json:"status"`
	LatUs  int64  `json:"lat_us"`
	BodyK  int    `json:"body_k"` // bodyfail/bodyhang: bytes of the declared body delivered before the read fails / blocks
}

type c10Op struct {
	GapUs    int64  `json:"gap_us"`
	Method   string `json:"method"` // "": POST
	Stream   bool   `json:"stream"`
	BodyLen  int    `json:"body_len"`
	CancelUs int64  `json:"cancel_us"` // < 0: the client never cancels
	// > 0: the context of the client's request carries a deadline this long after the call
	// (a server- or client-side request deadline), independent of the pool time-out
	DeadlineUs int64        `json:"deadline_us"`
	Attempts   []c10Attempt `json:"attempts"`
}

type c10Client struct {
	Ops []c10Op `json:"ops"`
}

type c10Scenario struct {
	Retry        c10Retry    `json:"retry"`
	CB           c10CB       `json:"cb"`
	TimeoutUs    int64       `json:"timeout_us"`
	FailureCodes []int       `json:"failure_codes"`
	Clients      []c10Client `json:"clients"`
	MaxBody      int64       `json:"max_body"`       // pool serverMaxBodySize; 0: omitted (default); -1: the response is a stream
	MaxBodyProxy bool        `json:"max_body_proxy"` // max_body is configured on the Proxy (fallback of the pool option), not on the pool
	RespPadK     int         `json:"resp_pad_k"`     // net variant, stream responses: KiB of padding behind the answer's tag
	Net          bool        `json:"net"`            // variant: real http.Transport over simnet against a scripted backend server
}

func c10InCodes(codes []int, s int) bool {
	for _, c := range codes {
		if c == s {
			return true
		}
	}
	return false
}

func c10Gen(rng *sim.Rand, tier string) interface{} {
	sc := &c10Scenario{}
	rt := &sc.Retry
	rt.On = rng.Bool(0.85)
	effMax, effWaitUs := 1, int64(500000)
	if rt.On {
		rt.MaxAttempts = rng.Pick(0, 1, 2, 2, 3, 3, 4, 5)
		rt.WaitMs = int64(rng.Pick(0, 1, 1, 3, 10, 10, 100, 1000, 2000))
		rt.BackOff = rng.PickStr("", "random", "exponential", "exponential")
		rt.RFPct = rng.Pick(0, 0, 10, 50, 100, rng.Range(1, 99))
		effMax = rt.MaxAttempts
		if effMax == 0 {
			effMax = 3
		}
		if rt.WaitMs > 0 {
			effWaitUs = rt.WaitMs * 1000
		}
	}
	if rng.Bool(0.55) {
		sc.TimeoutUs = int64(rng.Pick(5000, 50000, 200000, 1000000))
	}
	switch rng.Intn(5) {
	case 0:
	case 1:
		sc.FailureCodes = []int{503}
	case 2:
		sc.FailureCodes = []int{404, 500, 503}
	default:
		sc.FailureCodes = []int{500, 503}
	}
	T := sc.TimeoutUs
	okStatuses := []int{}
	for _, s := range []int{200, 201, 404, 500, 503} { // a 5xx that is no failure code is an ordinary answer
		if !c10InCodes(sc.FailureCodes, s) {
			okStatuses = append(okStatuses, s)
		}
	}

	sc.Net = rng.Bool(0.08)
	if rng.Bool(0.2) {
		sc.MaxBody = 64
	}
	// response taken as a stream (serverMaxBodySize -1): the pool hands the backend's body
	// to the client unread
	streamResp := rng.Bool(0.18)
	if streamResp {
		sc.MaxBody = -1
		sc.RespPadK = rng.Pick(0, 0, 6, 40)
	}
	// the limit / stream switch configured on the Proxy instead of the pool
	sc.MaxBodyProxy = rng.Bool(0.3)
	switch os.Getenv("C10_ONLY") { // development knob: restrict the search to one variant
	case "net":
		sc.Net = true
	case "stub":
		sc.Net = false
	}
	sc.CB.On = rng.Bool(0.4) && !sc.Net
	nClients := rng.Pick(1, 1, 2, 3)
	total := rng.Range(1, 8)
	if sc.Net {
		nClients = 1 // see c10net_test.go: one client task in the net variant
		total = rng.Range(1, 5)
	}
	if sc.CB.On {
		total = rng.Range(4, 14)
		if rng.Bool(0.6) {
			nClients = 1
		}
		sc.CB.FailPct = rng.Pick(1, 34, 50, 51, 67, 100, 100, 0)
		sc.CB.Type = rng.PickStr("", "COUNT_BASED", "COUNT_BASED", "TIME_BASED", "TIME_BASED")
		sc.CB.OmitRest = rng.Bool(0.4)
		if nClients == 1 {
			sc.CB.Window = rng.Range(1, 8)
			sc.CB.MinCalls = rng.Range(1, sc.CB.Window)
			if sc.CB.timeBased() {
				// the calls of the last N seconds: N against the gaps between the requests below
				sc.CB.Window = rng.Pick(1, 2, 3, 5, 10, 30)
				sc.CB.MinCalls = rng.Range(1, 5)
			}
		} else {
			sc.CB.Window = 100
			sc.CB.MinCalls = rng.Range(1, 6)
		}
	}
	if tier == "thorough" && rng.Bool(0.3) {
		total *= 2
	}
	scenPf := rng.Pick(20, 50, 80, 100)
	cancelPct := rng.Pick(0, 20, 40, 70)
	if sc.Net {
		cancelPct = 0
	}
	streamPct := rng.Pick(0, 0, 15, 40)
	dlPct := rng.Pick(0, 0, 25, 60) // requests whose context has a deadline of its own
	dense := rng.Bool(0.5)

	sc.Clients = make([]c10Client, nClients)
	for k := 0; k < total; k++ {
		op := c10Op{CancelUs: -1}
		if !dense {
			op.GapUs = int64(rng.Pick(0, 0, 1, 1000, 10000, int(effWaitUs), 1000000))
		}
		if sc.CB.On && sc.CB.timeBased() && rng.Bool(0.6) {
			op.GapUs = int64(rng.Pick(0, 1000, 500000, 1000000, 2500000, 6000000, 12000000, 40000000))
		}
		op.BodyLen = rng.Pick(0, 5, 5, 100)
		op.Method = rng.PickStr("", "", "POST", "PUT", "PATCH", "GET", "DELETE")
		if rng.Intn(100) < streamPct {
			op.Stream = true
			if op.BodyLen == 0 {
				op.BodyLen = 7
			}
		}
		if op.Method == "GET" || op.Method == "DELETE" {
			op.BodyLen = 0 // behind a server in stream mode even a body-less request is a stream request
		}
		willCancel := rng.Intn(100) < cancelPct
		hasDL := rng.Intn(100) < dlPct
		pf := scenPf
		if rng.Bool(0.3) {
			pf = rng.Pick(0, 50, 100)
		}
		var firstLat int64
		for a := 0; a < effMax+1; a++ {
			at := c10Attempt{Kind: "resp"}
			fastLat := func() int64 {
				l := int64(rng.Pick(0, 0, 100, 1000, 10000))
				if T > 0 {
					l = int64(rng.Pick(0, 0, 100, 1000, int(T/2), int(T-1)))
				}
				return l
			}
			if rng.Intn(100) < pf {
				// failing attempt
				x := rng.Intn(100)
				switch {
				case x < 14:
					// the answer's head arrives, its body does not (buffered mode)
					at.Status = rng.Pick(200, 200, 201, 404, 503)
					at.LatUs = fastLat()
					at.BodyK = rng.Pick(0, 1, 5, 20)
					switch y := rng.Intn(10); {
					case y < 4:
						at.Kind = "bodyfail"
					case y < 6 && (T > 0 || willCancel || hasDL):
						at.Kind = "bodyhang"
					case y < 8:
						at.Kind = "toolarge"
					case y < 9:
						at.Kind = "toolarge-unknown"
					default:
						at.Kind = "bodyfail"
					}
					if at.Kind == "toolarge" || at.Kind == "toolarge-unknown" {
						if streamResp {
							at.Kind = "bodyfail" // no limit in stream mode
						} else {
							sc.MaxBody = 64
						}
					}
				case x < 30 && len(sc.FailureCodes) > 0:
					at.Status = sc.FailureCodes[rng.Intn(len(sc.FailureCodes))]
					at.LatUs = fastLat()
				case x >= 30 && x < 36 && !sc.Net:
					// the load balancer has no server to offer (service discovery lists none at
					// this moment): the attempt fails before any backend call
					at.Kind = "noserver"
				case x < 55 || (T == 0 && !willCancel && !hasDL):
					at.Kind = "neterr"
					at.LatUs = fastLat()
				case x < 80 && T > 0:
					at.Status = 200
					at.LatUs = int64(rng.Pick(int(T), int(T+1), int(T+1000), int(3*T)))
				case T > 0 || willCancel || hasDL:
					at.Kind = "hang"
				default:
					at.Kind = "neterr"
				}
			} else {
				at.Status = okStatuses[rng.Intn(len(okStatuses))]
				at.LatUs = fastLat()
			}
			if a == 0 {
				firstLat = at.LatUs
				if at.Kind == "hang" {
					firstLat = T
				}
			}
			op.Attempts = append(op.Attempts, at)
		}
		if willCancel {
			rfw := effWaitUs * int64(100-rt.RFPct) / 100
			op.CancelUs = int64(rng.Pick(0, 500, int(firstLat/2), int(firstLat), int(firstLat+effWaitUs/2), int(firstLat+rfw), int(firstLat+rfw-1), int(firstLat+rfw+1),
				int(firstLat+2*effWaitUs), rng.Range(0, int(2*firstLat+3*effWaitUs)+1)))
			if op.CancelUs < 0 {
				op.CancelUs = 0
			}
		}
		switch {
		case sc.Net && hasDL:
			// net variant: only a deadline far beyond anything the pool may take
			op.DeadlineUs = 9000 * 1000000
		case hasDL && T > 0:
			// earlier than, equal to and later than the pool time-out
			op.DeadlineUs = int64(rng.Pick(int(T/2), int(T-1), int(T), int(T+1), int(2*T), int(T+effWaitUs), int(3*T+2*effWaitUs), 5000000, 60000000, 3600000000))
		case hasDL:
			op.DeadlineUs = int64(rng.Pick(1000, 100000, int(firstLat), int(firstLat+effWaitUs), 1000000, 10000000, 3600000000))
		}
		if hasDL && op.DeadlineUs <= 0 {
			op.DeadlineUs = 1
		}
		c := rng.Intn(nClients)
		sc.Clients[c].Ops = append(sc.Clients[c].Ops, op)
	}
	return sc
}

// ---- reference ----------------------------------------------------------------

type c10Ref struct {
	retryOn     bool
	maxAttempts int
	wait        time.Duration
	exponential bool
	rf          float64
	timeout     time.Duration
}

// minWait is the shortest wait after a failed attempt that the statement allows: "at least the
// configured (randomised, optionally exponentially growing) back-off", i.e. the configured base
// wait less the randomisation, base * (1 - randomizationFactor); an exponential policy may only
// lengthen it (no growth factor is fixed by the statement, and no upper bound on any wait).
func (m *c10Ref) minWait(i int) time.Duration {
	d := time.Duration(float64(m.wait)*(1-m.rf)) - time.Microsecond
	if d < 0 {
		d = 0
	}
	return d
}

// c10Breaker: window of the last `window` outcomes (COUNT_BASED) or of the outcomes of the
// last `window` seconds (TIME_BASED); after an outcome is recorded it opens when at least
// minCalls outcomes are in the window and failures*100 >= failPct*outcomes; stays open
// (waitDurationInOpenState is 24 h). One client task: outcomes are recorded one after another.
//
// TIME_BASED: the harness only knows an interval [lo, hi] for the instant of each record, and
// "the last N seconds" may be counted in whole seconds: an older outcome is certainly in the
// window when it is at most N-1 s old, certainly out when at least N+1 s old, otherwise either.
// The model therefore yields "may be open" / "must be open"; an observed admission or
// short-circuit that is allowed settles the state.
type c10Rec struct {
	failed bool // recorded as a failure ...
	unsure bool // ... or possibly as a non-failure (a request the client had abandoned)
	lo, hi time.Duration
}

func (q c10Rec) fmin() int {
	if q.failed && !q.unsure {
		return 1
	}
	return 0
}

func (q c10Rec) fmax() int {
	if q.failed || q.unsure {
		return 1
	}
	return 0
}

type c10Breaker struct {
	timeBased                 bool
	window, minCalls, failPct int
	res                       []c10Rec
	open                      bool // certainly open
	mayOpen                   bool // possibly open
	ambiguous, evicted        bool
}

func (b *c10Breaker) trips(total, failures int) bool {
	return total >= b.minCalls && failures*100 >= b.failPct*total
}

// record adds exactly one outcome for a client request. unsure: the request failed after the
// client had abandoned it; the statement does not say whether that counts as a failure.
func (b *c10Breaker) record(failed, unsure bool, lo, hi time.Duration) {
	if b.open {
		return
	}
	rec := c10Rec{failed, unsure && failed, lo, hi}
	var sure, amb []c10Rec // certainly in the window / possibly in the window
	if !b.timeBased {
		b.res = append(b.res, rec)
		if len(b.res) > b.window {
			b.res = b.res[len(b.res)-b.window:]
		}
		sure = b.res
	} else {
		w := time.Duration(b.window) * time.Second
		var keep []c10Rec
		for _, q := range b.res {
			switch {
			case lo-q.hi >= w+time.Second:
				b.evicted = true // certainly out, now and later
			case hi-q.lo <= w-time.Second:
				keep = append(keep, q)
				sure = append(sure, q)
			default:
				keep = append(keep, q)
				amb = append(amb, q)
			}
		}
		b.res = append(keep, rec)
		sure = append(sure, rec)
	}
	if len(amb) > 12 {
		b.open, b.mayOpen, b.ambiguous = false, true, true
		return
	}
	total, fmin, fmax := 0, 0, 0
	for _, q := range sure {
		total++
		fmin += q.fmin()
		fmax += q.fmax()
	}
	may, must := false, true
	for mask := 0; mask < 1<<len(amb); mask++ {
		t, lo, hi := total, fmin, fmax
		for i, q := range amb {
			if mask&(1<<i) != 0 {
				t++
				lo += q.fmin()
				hi += q.fmax()
			}
		}
		// trips is monotone in the number of failures
		if b.trips(t, hi) {
			may = true
		}
		if !b.trips(t, lo) {
			must = false
		}
	}
	b.open, b.mayOpen = must, may
	if may != must {
		b.ambiguous = true
	}
}

// observe settles the state by what was observed (after the caller has checked it).
func (b *c10Breaker) observe(short bool) {
	b.open, b.mayOpen = short, short
}

// ---- executor -------------------------------------------------------------------

// c10Build creates the reference parameters, the policies (through the
// production constructor: defaults + validation) and the pool spec.
func c10Build(r *sim.Run, sc *c10Scenario) (*c10Ref, map[string]resilience.Policy, *ServerPoolSpec, bool) {
	rt, cb := sc.Retry, sc.CB
	// --- policies through the production constructor (defaults + validation)
	ref := &c10Ref{retryOn: rt.On, maxAttempts: 1, timeout: time.Duration(sc.TimeoutUs) * time.Microsecond}
	policies := map[string]resilience.Policy{}
	spec := &ServerPoolSpec{Servers: []*Server{{URL: "http://10.1.0.1:8080"}}, FailureCodes: append([]int(nil), sc.FailureCodes...)}
	if sc.TimeoutUs > 0 {
		spec.Timeout = fmt.Sprintf("%dus", sc.TimeoutUs)
	}
	if sc.MaxBody != 0 && !sc.MaxBodyProxy {
		spec.ServerMaxBodySize = sc.MaxBody
	}
	if rt.On {
		raw := map[string]interface{}{"kind": "Retry", "name": "c10retry"}
		ref.maxAttempts, ref.wait = 3, 500*time.Millisecond // documented defaults
		if rt.MaxAttempts > 0 {
			raw["maxAttempts"] = rt.MaxAttempts
			ref.maxAttempts = rt.MaxAttempts
		} else {
			r.Probe("c10.retry.default_max_attempts")
		}
		if rt.WaitMs > 0 {
			raw["waitDuration"] = fmt.Sprintf("%dms", rt.WaitMs)
			ref.wait = time.Duration(rt.WaitMs) * time.Millisecond
		} else {
			r.Probe("c10.retry.default_wait")
		}
		if rt.BackOff != "" {
			raw["backOffPolicy"] = rt.BackOff
		}
		switch rt.BackOff {
		case "", "random":
		case "exponential":
			ref.exponential = true
		default:
			return nil, nil, nil, false // other spellings are not part of the generated space
		}
		if rt.RFPct > 0 {
			raw["randomizationFactor"] = float64(rt.RFPct) / 100
			ref.rf = float64(rt.RFPct) / 100
		}
		p, err := resilience.NewPolicy(raw)
		if err != nil {
			r.Violate("C10.other", "retry policy %v rejected: %v", raw, err)
			return nil, nil, nil, false
		}
		policies["c10retry"] = p
		spec.RetryPolicy = "c10retry"
	}
	if cb.On {
		raw := map[string]interface{}{"kind": "CircuitBreaker", "name": "c10cb", "slidingWindowSize": cb.Window,
			"minimumNumberOfCalls": cb.MinCalls, "slowCallDurationThreshold": "24h", "waitDurationInOpenState": "24h"}
		if cb.Type != "" {
			raw["slidingWindowType"] = cb.Type
		}
		if cb.FailPct > 0 {
			raw["failureRateThreshold"] = cb.FailPct
		}
		if !cb.OmitRest {
			raw["slowCallRateThreshold"] = 100
			raw["permittedNumberOfCallsInHalfOpenState"] = 1
		}
		if cb.Type == "" || cb.FailPct == 0 || cb.OmitRest {
			r.Probe("c10.cb.documented_defaults_used")
		}
		p, err := resilience.NewPolicy(raw)
		if err != nil {
			r.Violate("C10.other", "circuit breaker policy %v rejected: %v", raw, err)
			return nil, nil, nil, false
		}
		policies["c10cb"] = p
		spec.CircuitBreakerPolicy = "c10cb"
	}
	if err := spec.Validate(); err != nil {
		return nil, nil, nil, false
	}

	return ref, policies, spec, true
}

// c10ProxyMaxBody is the Proxy-level serverMaxBodySize of the scenario (documented as the
// fallback of the pool-level option).
func c10ProxyMaxBody(sc *c10Scenario) int64 {
	if sc.MaxBodyProxy {
		return sc.MaxBody
	}
	return 0
}

type c10Att struct {
	entry, end time.Duration
	kind       string // resp | err
	status     int
	ctxErr     string // "" | deadline | canceled
	failed     bool
	tag        string
	sent       string        // bodyerr: the bytes of the failed body that were delivered
	gap        time.Duration // wait observed before this attempt (previous attempt's end -> this entry)
	gapClean   bool          // no scheduler stall fell into that wait: it is exactly what the retry waited
	stEnd      time.Duration // scheduler stall time consumed when the attempt ended
	lower      time.Duration // earliest instant at which the pool can have started this attempt
	hangs      bool          // net variant: the backend never answers this attempt
	cut        bool          // stream response: the backend's body ends early (after `sent`)
	sbody      *c10StreamBody
}

type c10Req struct {
	name        string
	op          c10Op
	method      string
	wantBody    string
	callAt      time.Duration
	callStamp   int
	atts        []*c10Att
	cancelled   bool
	cancelAt    time.Duration
	cancelStamp int
	cancelIn    string // where the cancel landed: attempt | backoff | before
	done        bool
	retStamp    int
	retAt       time.Duration
	deadlineAt  time.Duration // > 0: instant at which the client's own deadline expires
	stalled0    time.Duration // scheduler stall time consumed when the call was made
	stalledRet  time.Duration // ... when it returned
	result      string
	inAttempt   bool
}

var c10ErrNet = errors.New("c10 transport: connection reset by peer")

func c10Exec(r *sim.Run, sci interface{}) {
	sc := sci.(*c10Scenario)
	nOps := 0
	for _, c := range sc.Clients {
		nOps += len(c.Ops)
	}
	if nOps == 0 || sc.TimeoutUs < 0 || sc.MaxBody < -1 || sc.RespPadK < 0 || sc.RespPadK > 256 {
		return
	}
	rt, cb := sc.Retry, sc.CB
	if rt.On && (rt.MaxAttempts < 0 || rt.WaitMs < 0 || rt.RFPct < 0 || rt.RFPct > 100) {
		return
	}
	if cb.On && (cb.Window < 1 || cb.Window > 3600 || cb.MinCalls < 1 || (cb.MinCalls > cb.Window && !cb.timeBased()) || cb.FailPct < 0 || cb.FailPct > 100) {
		return
	}
	switch cb.Type {
	case "", "COUNT_BASED", "TIME_BASED":
	default:
		return
	}

	if sc.Net {
		c10ExecNet(r, sc)
		return
	}
	ref, policies, spec, ok := c10Build(r, sc)
	if !ok {
		return
	}

	saved := fnSendRequest
	defer func() { fnSendRequest = saved }()

	clk := 0
	stamp := func() int { clk++; return clk }
	inflight := map[string]*c10Req{}
	var all []*c10Req
	var hist []string
	note := func(format string, a ...interface{}) {
		s := fmt.Sprintf(format, a...)
		r.Eventf("%s", s)
		if len(hist) < 400 {
			hist = append(hist, fmt.Sprintf("%s@%v", s, r.Now()))
		}
	}
	history := func() string {
		h := hist
		if len(h) > 60 {
			h = h[len(h)-60:]
		}
		return strings.Join(h, " | ")
	}
	describe := func() string {
		return fmt.Sprintf("retry=%+v (reference: maxAttempts=%d wait=%v exponential=%v rf=%.2f) timeout=%v failureCodes=%v cb=%+v", rt, ref.maxAttempts, ref.wait, ref.exponential, ref.rf, ref.timeout, sc.FailureCodes, cb)
	}

	var sawBodyErr, sawBodyErrLast bool
	var sawRetrySuccess, sawExhausted, sawTimeout, sawShort, sawCancelBackoff, sawCancelAttempt, sawExp3 bool

	streamResp := sc.MaxBody < 0
	var sawNoServer, sawRetriedBody, sawStreamRespOK, sawStreamRespCut, sawStreamRespRetried bool

	// clientEnd: the client's request has ended, by its cancel or by its own deadline, and when
	clientEnd := func(st *c10Req) (bool, time.Duration) {
		ended, at := st.cancelled, st.cancelAt
		if st.deadlineAt > 0 && r.Now() >= st.deadlineAt && (!ended || st.deadlineAt < at) {
			ended, at = true, st.deadlineAt
		}
		return ended, at
	}
	// ctxKind names how a context ended: by the client's cancel, by a deadline while the client's
	// own one had not expired (the pool's), or by a deadline when the client's had (either)
	ctxKind := func(st *c10Req, err error) string {
		switch {
		case err != stdcontext.DeadlineExceeded:
			return "canceled"
		case st.deadlineAt > 0 && r.Now() >= st.deadlineAt:
			return "clientdl"
		}
		return "deadline"
	}
	var sawClientDL, sawClientDLLater, sawClientDLExpired, sawPoolTimeoutDespiteLaterClientDL bool

	// begin registers the start of an attempt (at the load balancer for an attempt that finds no
	// server, at the transport otherwise) and checks the rules on when an attempt may start;
	// it returns the earliest instant at which the pool can have started this attempt
	begin := func(st *c10Req) (int, *c10Att, time.Duration) {
		idx := len(st.atts)
		att := &c10Att{entry: r.Now()}
		st.atts = append(st.atts, att)
		note("%s.a%d enter", st.name, idx)
		lower := st.callAt
		if idx >= 1 && !r.Violated() {
			prev := st.atts[idx-1]
			mw := ref.minWait(idx - 1)
			lower = prev.end + mw
			maxA := ref.maxAttempts
			switch {
			case !prev.failed:
				r.Violate("C10.retry-after-success", "request %s: attempt %d made although attempt %d succeeded (status %d)\n%s\nhistory: %s", st.name, idx+1, idx, prev.status, describe(), history())
			case st.op.Stream:
				r.Violate("C10.stream-resent", "request %s has a stream body and reached the transport %d times\n%s\nhistory: %s", st.name, idx+1, describe(), history())
			case idx >= maxA:
				r.Violate("C10.too-many-attempts", "request %s: attempt %d exceeds maxAttempts=%d (retry policy configured: %v)\n%s\nhistory: %s", st.name, idx+1, maxA, rt.On, describe(), history())
			case att.entry-prev.end < mw:
				r.Violate("C10.backoff-too-short", "request %s: attempt %d ended at %v, attempt %d reached the transport at %v: waited %v, documented minimum %v\n%s\nhistory: %s",
					st.name, idx, prev.end, idx+1, att.entry, att.entry-prev.end, mw, describe(), history())
			case func() bool { e, at := clientEnd(st); return e && at < lower }():
				_, endAt := clientEnd(st)
				r.Violate("C10.attempt-after-cancel", "request %s: client cancelled (or its deadline expired) at %v (cancel %v, own deadline %v); attempt %d had ended at %v and the back-off cannot end before %v, yet attempt %d was started (reached the transport at %v)\n%s\nhistory: %s",
					st.name, endAt, st.cancelled, st.deadlineAt, idx, prev.end, lower, idx+1, att.entry, describe(), history())
			}
			att.gap, att.gapClean = att.entry-prev.end, r.StalledFor() == prev.stEnd
			// "optionally exponentially growing": with the exponential policy and no randomisation
			// each wait is longer than the one before (whatever the factor). Only judged when the
			// earlier wait was measured exactly: one client task (no lock hand-overs), no stall.
			if idx >= 2 && ref.exponential && ref.rf == 0 && len(sc.Clients) == 1 && prev.gapClean && !r.Violated() {
				r.Probe("c10.retry.exponential_growth_checked")
				if att.gap <= prev.gap {
					r.Violate("C10.backoff-not-growing", "request %s: exponential back-off without randomisation, yet the wait before attempt %d (%v) is not longer than the wait before attempt %d (%v)\n%s\nhistory: %s",
						st.name, idx+1, att.gap, idx, prev.gap, describe(), history())
				}
			}
			if idx >= 2 && ref.exponential {
				sawExp3 = true
			}
		}
		att.lower = lower
		return idx, att, lower
	}

	fnSendRequest = func(hr *http.Request, _ *http.Client) (*http.Response, error) {
		st := inflight[hr.URL.Path]
		if st == nil {
			r.Violate("C10.other", "transport called for unknown request %s", hr.URL.String())
			return nil, c10ErrNet
		}
		// gate first: several requests may leave their back-off at the same instant
		r.Yield("c10.transport.enter")
		idx, att, lower := begin(st)
		st.inAttempt = true
		ctx := hr.Context()
		// every attempt is an attempt of the client's request: same method, same body
		var sentBody []byte
		if hr.Body != nil {
			sentBody, _ = io.ReadAll(io.LimitReader(hr.Body, 1<<17))
		}
		if !r.Violated() && (hr.Method != st.method || string(sentBody) != st.wantBody) {
			r.Violate("C10.attempt-request-altered", "request %s (%s, %d body bytes): attempt %d reached the transport as %s with %d body bytes %q\n%s\nhistory: %s",
				st.name, st.method, len(st.wantBody), idx+1, hr.Method, len(sentBody), c10Clip(string(sentBody), 40), describe(), history())
		}
		if idx >= 1 && len(st.wantBody) > 0 {
			sawRetriedBody = true
		}

		dl, hasDL := ctx.Deadline()
		if ref.timeout > 0 && !r.Violated() {
			if !hasDL {
				r.Violate("C10.timeout-not-applied", "request %s attempt %d: pool timeout is %v but the transport got a context without deadline\n%s", st.name, idx+1, ref.timeout, describe())
			} else if lim := time.Now().Add(ref.timeout); dl.After(lim) {
				r.Violate("C10.timeout-not-applied", "request %s attempt %d: pool timeout is %v but the context deadline is %v after the transport was entered\n%s", st.name, idx+1, ref.timeout, dl.Sub(time.Now()), describe())
			}
		}

		// scripted behaviour
		script := c10Attempt{Kind: "neterr"}
		if idx < len(st.op.Attempts) {
			script = st.op.Attempts[idx]
		}
		if script.Kind == "hang" && ref.timeout == 0 && st.op.CancelUs < 0 && st.deadlineAt == 0 {
			script = c10Attempt{Kind: "neterr", LatUs: 1000000}
		}
		if script.LatUs < 0 {
			script.LatUs = 0
		}
		hung, answered := false, false
		stalledAtEntry := r.StalledFor()
		if !r.Violated() && !r.Aborted() {
			switch {
			case script.Kind == "hang":
				tm := time.NewTimer(3 * time.Hour)
				select {
				case <-ctx.Done():
				case <-tm.C:
					hung = true
				}
				tm.Stop()
			case script.LatUs > 0:
				tm := time.NewTimer(time.Duration(script.LatUs) * time.Microsecond)
				select {
				case <-ctx.Done():
				case <-tm.C:
					answered = true
				}
				tm.Stop()
			}
			// answer and time-out due at the same instant: the time-out wins
			if hasDL && !time.Now().Before(dl) {
				if answered {
					r.Probe("c10.timeout.latency_equals_deadline")
				}
				<-ctx.Done()
			}
		}
		woke := r.Now()
		wokeErr := ctx.Err()
		r.Yield("c10.transport.leave")
		if hung && !r.Violated() {
			if ref.timeout > 0 {
				r.Violate("C10.timeout-hang", "request %s attempt %d: backend never answers, pool timeout %v, attempt still blocked after 3 h\n%s", st.name, idx+1, ref.timeout, describe())
			} else {
				r.Violate("C10.other", "harness: hanging attempt without timeout and without cancellation (request %s)", st.name)
			}
		}
		// time limit: whatever deadline the client's own context has, an attempt that the backend
		// does not answer ends within the pool time-out of reaching the transport (slack: what
		// scheduler stalls consumed meanwhile + 1 ms)
		if ref.timeout > 0 && !r.Violated() && !r.Aborted() {
			if slack := r.StalledFor() - stalledAtEntry + time.Millisecond; woke-att.entry > ref.timeout+slack {
				r.Violate("C10.timeout-exceeded", "request %s attempt %d: reached the transport at %v, pool timeout %v, but the attempt was only released at %v (%v later; context error %v; the client's own deadline is at %v)\n%s\nhistory: %s",
					st.name, idx+1, att.entry, ref.timeout, woke, woke-att.entry, wokeErr, st.deadlineAt, describe(), history())
			}
			if (script.Kind == "hang" || time.Duration(script.LatUs)*time.Microsecond > ref.timeout) && wokeErr == stdcontext.DeadlineExceeded && st.deadlineAt > att.entry+ref.timeout {
				sawPoolTimeoutDespiteLaterClientDL = true
			}
		}
		if wokeErr == stdcontext.DeadlineExceeded && !r.Violated() && !(st.deadlineAt > 0 && woke >= st.deadlineAt) {
			if ref.timeout == 0 || woke < lower+ref.timeout {
				r.Violate("C10.timeout-premature", "request %s attempt %d: context reported DeadlineExceeded at %v; the attempt cannot have started before %v and the pool timeout is %v\n%s\nhistory: %s",
					st.name, idx+1, woke, lower, ref.timeout, describe(), history())
			}
		}
		if ctx.Err() == stdcontext.Canceled && !st.cancelled && !r.Violated() {
			r.Violate("C10.spurious-cancel", "request %s attempt %d: the context handed to the transport is cancelled at %v although the client never cancelled and no time-out expired\n%s\nhistory: %s", st.name, idx+1, r.Now(), describe(), history())
		}
		att.end, att.stEnd = r.Now(), r.StalledFor()
		st.inAttempt = false
		att.tag = fmt.Sprintf("%s-attempt-%d", st.name, idx+1)
		if err := ctx.Err(); err != nil {
			att.kind, att.failed = "err", true
			att.ctxErr = ctxKind(st, err)
			switch att.ctxErr {
			case "deadline":
				sawTimeout = true
			case "clientdl":
				sawClientDLExpired = true
			}
			note("%s.a%d ctx-%s", st.name, idx, att.ctxErr)
			return nil, fmt.Errorf("c10 transport: %w", err)
		}
		switch script.Kind {
		case "resp", "bodyfail", "bodyhang", "toolarge", "toolarge-unknown":
		default:
			att.kind, att.failed = "err", true
			note("%s.a%d neterr", st.name, idx)
			return nil, c10ErrNet
		}
		if script.Kind == "bodyhang" && ref.timeout == 0 && st.op.CancelUs < 0 && st.deadlineAt == 0 {
			script.Kind = "bodyfail"
		}
		if (script.Kind == "toolarge" || script.Kind == "toolarge-unknown") && sc.MaxBody <= 0 {
			script.Kind = "bodyfail"
		}
		if script.Kind != "resp" {
			// an answer whose body cannot be read completely: the attempt fails
			status := script.Status
			if status < 200 || status > 599 {
				status = 200
			}
			full := att.tag + "-" + strings.Repeat("x", 80)
			resp := &http.Response{StatusCode: status, Proto: "HTTP/1.1", ProtoMajor: 1, ProtoMinor: 1,
				Header: http.Header{"X-C10-Attempt": []string{att.tag}}, ContentLength: int64(len(full))}
			if streamResp {
				// the pool does not read a stream body: the attempt's outcome is its status, the
				// client finds out about the body
				k := script.BodyK
				if k < 0 {
					k = 0
				}
				if k >= len(full) {
					k = len(full) - 1
				}
				att.kind, att.status, att.cut, att.sent = "resp", status, true, full[:k]
				att.failed = c10InCodes(sc.FailureCodes, status)
				att.sbody = &c10StreamBody{r: r, ctx: ctx, data: full[:k], fail: true, hang: script.Kind == "bodyhang"}
				resp.Body = att.sbody
				note("%s.a%d status %d, stream body %s after %d bytes", st.name, idx, status, script.Kind, k)
				return resp, nil
			}
			att.kind, att.status, att.failed = "bodyerr", status, true
			switch script.Kind {
			case "toolarge":
				att.sent = full
				resp.Body = io.NopCloser(strings.NewReader(full))
			case "toolarge-unknown":
				att.sent = full
				resp.ContentLength = -1
				resp.Body = io.NopCloser(strings.NewReader(full))
			default:
				k := script.BodyK
				if k < 0 {
					k = 0
				}
				if k >= len(full) {
					k = len(full) - 1
				}
				att.sent = full[:k]
				resp.Body = &c10FailBody{r: r, ctx: ctx, data: full[:k], hang: script.Kind == "bodyhang", att: att, kind: func(e error) string { return ctxKind(st, e) },
					done: func(how string) { note("%s.a%d body read %s after %d bytes", st.name, idx, how, k) }}
			}
			sawBodyErr = true
			note("%s.a%d status %d, body %s", st.name, idx, status, script.Kind)
			return resp, nil
		}
		status := script.Status
		if status < 200 || status > 599 {
			status = 200
		}
		att.kind, att.status = "resp", status
		att.failed = c10InCodes(sc.FailureCodes, status)
		note("%s.a%d status %d", st.name, idx, status)
		var rbody io.ReadCloser = io.NopCloser(strings.NewReader(att.tag))
		if streamResp {
			att.sbody = &c10StreamBody{r: r, ctx: ctx, data: att.tag}
			rbody = att.sbody
		}
		return &http.Response{StatusCode: status, Proto: "HTTP/1.1", ProtoMajor: 1, ProtoMinor: 1,
			Header:        http.Header{"X-C10-Attempt": []string{att.tag}},
			ContentLength: int64(len(att.tag)), Body: rbody}, nil
	}

	px := &Proxy{spec: &Spec{ServerMaxBodySize: c10ProxyMaxBody(sc)}}
	sp := NewServerPool(px, spec, "c10pool")
	sp.InjectResiliencePolicy(policies)
	// scripted load balancer (as after a service-discovery update): offers the pool's server,
	// or none for an attempt scripted "noserver"
	if len(spec.Servers) == 0 {
		return
	}
	svr := spec.Servers[0]
	var zeroPool ServerPool
	sp.loadBalancer = zeroPool.loadBalancer
	sp.loadBalancer.Store(LoadBalancer(&c10LB{choose: func(req *httpprot.Request) *Server {
		st := inflight[req.Path()]
		if st == nil || r.Violated() || r.Aborted() {
			return svr
		}
		if idx := len(st.atts); idx < len(st.op.Attempts) && st.op.Attempts[idx].Kind == "noserver" {
			r.Yield("c10.lb.noserver")
			_, att, _ := begin(st)
			att.kind, att.failed, att.end, att.stEnd = "noserver", true, r.Now(), r.StalledFor()
			att.tag = fmt.Sprintf("%s-attempt-%d", st.name, idx+1)
			note("%s.a%d no server available", st.name, idx)
			r.Fault("no-server-available")
			sawNoServer = true
			return nil
		}
		return svr
	}}))

	exactCB := cb.On && len(sc.Clients) == 1
	model := &c10Breaker{timeBased: cb.timeBased(), window: cb.Window, minCalls: cb.MinCalls, failPct: cb.failPct()}
	shadow := &c10Breaker{timeBased: cb.timeBased(), window: cb.Window, minCalls: cb.MinCalls, failPct: cb.failPct()} // one record per attempt (what must NOT happen)
	firstShortRet := 0
	maxOpen, open := 0, 0

	finish := func(st *c10Req, result string, status int, body string, rerr error, cancelledAtRead bool, readAt time.Duration, hasResp bool, pnc interface{}, stack string) {
		n := len(st.atts)
		note("%s return result=%q status=%d attempts=%d", st.name, result, status, n)
		if pnc != nil {
			r.Violate("C10.panic", "request %s: ServerPool.handle panicked: %v\n%s\n%s\nhistory: %s", st.name, pnc, stack, describe(), history())
			return
		}
		if r.Violated() {
			return
		}
		short := result == "shortCircuited"
		// ---- circuit breaker rules
		if short {
			sawShort = true
			switch {
			case n > 0:
				r.Violate("C10.other", "request %s reported shortCircuited but the transport was called %d time(s) (shape of a short-circuited call: see sub-harness C08P)\n%s\nhistory: %s", st.name, n, describe(), history())
			case !hasResp || status != http.StatusServiceUnavailable:
				r.Violate("C10.other", "request %s reported shortCircuited with status %d (response present: %v), expected 503 (shape of a short-circuited call: see sub-harness C08P)\n%s", st.name, status, hasResp, describe())
			case !cb.On:
				r.Violate("C10.cb-shortcircuit-while-closed", "request %s short-circuited but the pool has no circuit breaker\n%s", st.name, describe())
			}
			if r.Violated() {
				return
			}
		}
		if cb.On && exactCB {
			switch {
			case model.open && !short:
				r.Violate("C10.cb-admitted-while-open", "request %s was admitted (attempts=%d, result %q) although one record per client request has opened the breaker: recorded outcomes {failed, earliest, latest instant of the record} %v, window %d (%s), minCalls %d, failureRate %d%%\n%s\nhistory: %s",
					st.name, n, result, model.res, cb.Window, cb.Type, cb.MinCalls, cb.failPct(), describe(), history())
			case !model.mayOpen && short:
				r.Violate("C10.cb-shortcircuit-while-closed", "request %s was short-circuited although one record per client request leaves the breaker closed: recorded outcomes {failed, earliest, latest instant of the record} %v, window %d (%s), minCalls %d, failureRate %d%%\n%s\nhistory: %s",
					st.name, model.res, cb.Window, cb.Type, cb.MinCalls, cb.failPct(), describe(), history())
			}
			if r.Violated() {
				return
			}
			model.observe(short)
			if !short {
				lo := st.callAt
				if n > 0 {
					lo = st.atts[n-1].end
				}
				// a request that failed after its client had abandoned it (cancel or own deadline)
				// is one record as well, but the statement does not say of which kind
				abandoned := result != "" && ((st.cancelled && st.cancelStamp < st.retStamp) || (st.deadlineAt > 0 && st.retAt >= st.deadlineAt))
				if abandoned {
					r.Probe("c10.cb.abandoned_request_outcome_either")
				}
				model.record(result != "", abandoned, lo, st.retAt)
				for _, a := range st.atts {
					shadow.record(a.failed, false, a.end, st.retAt)
				}
				if model.timeBased {
					r.Probe("c10.cb.time_based.request_recorded")
					if model.ambiguous {
						r.Probe("c10.cb.time_based.verdict_ambiguous")
					}
				} else if model.ambiguous {
					r.Probe("c10.cb.count_based.verdict_ambiguous")
				}
				if model.timeBased {
					if model.evicted {
						r.Probe("c10.cb.time_based.outcome_aged_out")
					}
					if model.open {
						r.Probe("c10.cb.time_based.opened")
					}
				}
				if n >= 2 {
					r.Probe("c10.cb.retried_request_recorded")
				}
				if model.open != shadow.open {
					r.Probe("c10.cb.per_attempt_recording_would_differ")
				}
				if model.open {
					r.Probe("c10.cb.opened")
				}
			}
		} else if cb.On {
			if short {
				// enough failed client requests must exist to explain an open breaker
				k, f := 0, 0
				for _, q := range all {
					if q == st || len(q.atts) == 0 {
						continue
					}
					last := q.atts[len(q.atts)-1]
					if q.inAttempt {
						if len(q.atts) < 2 {
							continue
						}
						last = q.atts[len(q.atts)-2]
					}
					k++
					if (q.done && q.result != "") || (!q.done && last.failed) {
						f++
					}
				}
				needF := (cb.failPct()*cb.MinCalls + 99) / 100
				if needF < 1 {
					needF = 1
				}
				if k < cb.MinCalls || f < needF {
					r.Violate("C10.cb-shortcircuit-while-closed", "request %s was short-circuited, but only %d client request(s) can have been recorded, %d of them failed; opening needs >= %d records with >= %d failures\n%s\nhistory: %s",
						st.name, k, f, cb.MinCalls, needF, describe(), history())
					return
				}
				if firstShortRet == 0 {
					firstShortRet = st.retStamp
				}
			} else if firstShortRet != 0 && firstShortRet < st.callStamp {
				r.Violate("C10.cb-admitted-while-open", "request %s was admitted although an earlier request had already been short-circuited and waitDurationInOpenState is 24h\n%s\nhistory: %s", st.name, describe(), history())
				return
			}
		}
		if short {
			return
		}

		// ---- retry / time-limit rules
		if n == 0 {
			if (st.cancelled && st.cancelStamp < st.retStamp) || (st.deadlineAt > 0 && st.retAt >= st.deadlineAt) {
				return // cancelled before the first attempt: statement silent
			}
			r.Violate("C10.other", "request %s returned result %q status %d without any transport call\n%s", st.name, result, status, describe())
			return
		}
		last := st.atts[n-1]
		cancelledBeforeReturn := (st.cancelled && st.cancelStamp < st.retStamp) || (st.deadlineAt > 0 && st.retAt >= st.deadlineAt)
		// time limit for the whole call: every attempt (head and body) is bounded by the pool
		// time-out; the waits between attempts are what was observed (the statement puts no upper
		// bound on a back-off); after a failed last attempt one more back-off of unknown length may
		// be waited, so the call as a whole is only bounded when the last attempt succeeded
		// (slack: scheduler stalls + 1 s for lock hand-overs)
		if ref.timeout > 0 && !r.Aborted() {
			slack := st.stalledRet - st.stalled0 + time.Second
			var inAttempts, waits time.Duration
			for _, a := range st.atts {
				inAttempts += a.end - a.entry
				waits += a.gap
			}
			lim := time.Duration(n)*ref.timeout + slack
			switch {
			case inAttempts > lim:
				r.Violate("C10.call-exceeds-time-limit", "request %s: its %d attempt(s) took %v in total; the pool timeout %v allows at most %v (client's own deadline at %v)\n%s\nhistory: %s",
					st.name, n, inAttempts, ref.timeout, lim, st.deadlineAt, describe(), history())
			case !last.failed && st.retAt-st.callAt-waits > lim:
				r.Violate("C10.call-exceeds-time-limit", "request %s: called at %v, returned at %v (%v) with %d attempt(s), the last one successful, %v of it observed waits between attempts; the pool timeout %v allows at most %v besides the waits (client's own deadline at %v)\n%s\nhistory: %s",
					st.name, st.callAt, st.retAt, st.retAt-st.callAt, n, waits, ref.timeout, lim, st.deadlineAt, describe(), history())
			}
			if r.Violated() {
				return
			}
		}
		maxA := ref.maxAttempts
		if st.op.Stream || !rt.On {
			maxA = 1
		}
		// a failing BACKEND call (failure code, network error, time-out) is attempted again until
		// success or maxAttempts, unless the client went away meanwhile (a back-off may be of any
		// length, so a cancellation before the return always explains the missing attempts). A
		// failure produced by the gateway itself (an answer that cannot be converted: unreadable or
		// oversized body; no server to call) may or may not be retried: "at most maxAttempts".
		if last.failed && n < maxA {
			switch {
			case last.kind == "bodyerr" || last.kind == "noserver":
				r.Probe("c10.retry.stopped_after_gateway_internal_failure")
			case !cancelledBeforeReturn:
				r.Violate("C10.too-few-attempts", "request %s: %d attempt(s), the last one a failed backend call (%s %d %s), client did not cancel, maxAttempts=%d\n%s\nhistory: %s", st.name, n, last.kind, last.status, last.ctxErr, maxA, describe(), history())
				return
			}
		} else if last.failed && (last.kind == "bodyerr" || last.kind == "noserver") && n >= 2 {
			r.Probe("c10.retry.retried_up_to_gateway_internal_failure")
		}
		// the body that belongs to the last attempt's answer: the complete one; of a stream
		// response whose backend body ends early, any prefix of what the backend delivered
		bodyOK := body == last.tag
		if streamResp && last.kind == "resp" {
			switch {
			case last.cut:
				bodyOK = strings.HasPrefix(last.sent, body)
				sawStreamRespCut = true
			case cancelledAtRead:
				// the client's own cancellation may cut the stream
				bodyOK = strings.HasPrefix(last.tag, body)
			case ref.timeout > 0 && readAt >= last.lower+ref.timeout && !errors.Is(rerr, stdcontext.Canceled):
				// the pool time-out has elapsed since the attempt may have begun (e.g. a back-off
				// was waited after it): whether it still governs the stream is not stated
				bodyOK = strings.HasPrefix(last.tag, body)
				r.Probe("c10.streamresp.read_after_timeout_elapsed")
			default:
				bodyOK = body == last.tag && rerr == nil
				if !bodyOK && hasResp && status == last.status && errors.Is(rerr, stdcontext.Canceled) {
					want := map[bool]string{true: "failureCode", false: ""}[last.failed]
					if result == want {
						r.Violate("C10.spurious-cancel.stream-body", "request %s: last attempt (%d) answered status %d with a stream body of %d bytes; ServerPool.handle returned result %q status %d, the client did not cancel and no time passed since, yet reading the response stream fails after %d bytes with %q: the context of the backend call was cancelled by the pool itself\n%s\nhistory: %s",
							st.name, n, last.status, len(last.tag), result, status, len(body), rerr, describe(), history())
						return
					}
				}
				if bodyOK {
					sawStreamRespOK = true
					if n >= 2 {
						sawStreamRespRetried = true
					}
				}
			}
		}
		// the client sees the outcome of the last attempt
		switch {
		case last.kind == "noserver":
			// no backend call was possible: a failure (statement and documentation do not say which)
			if result == "" || !hasResp || status < 400 || status > 599 {
				r.Violate("C10.final-outcome", "request %s: last attempt (%d) found no server, client got result %q status %d (expected a failure result with an error status)\n%s\nhistory: %s", st.name, n, result, status, describe(), history())
			}
		case last.kind == "resp" && !last.failed:
			if result != "" || !hasResp || status != last.status || !bodyOK {
				r.Violate("C10.final-outcome", "request %s: last attempt (%d) succeeded with status %d body %q, client got result %q status %d body %q (read error: %v)\n%s\nhistory: %s", st.name, n, last.status, last.tag, result, status, body, rerr, describe(), history())
			}
			if n >= 2 {
				sawRetrySuccess = true
			}
		case last.kind == "bodyerr":
			// the head of the answer arrived, its body did not: the attempt failed; the client must
			// get a failure (5xx; 408/timeout if the pool time-out expired in the body; free after a
			// client cancel), never the backend's status with a partial body
			sawBodyErrLast = true
			leak := body != "" && (strings.Contains(body, st.name+"-attempt-") || strings.HasPrefix(last.tag+"-"+strings.Repeat("x", 80), body))
			okStatus := status >= 500 || (last.ctxErr == "deadline" && status == http.StatusRequestTimeout) || ((last.ctxErr == "canceled" || last.ctxErr == "clientdl") && status >= 400)
			switch {
			case leak || (hasResp && status == last.status && status < 500):
				r.Violate("C10.failed-body-published", "request %s: the body of the last attempt (%d, status %d) failed after %d bytes, yet the client is given status %d with body %q (result %q): the response of a failed attempt was published\n%s\nhistory: %s",
					st.name, n, last.status, len(last.sent), status, body, result, describe(), history())
			case result == "" || !hasResp || !okStatus:
				r.Violate("C10.final-outcome", "request %s: the body of the last attempt (%d, status %d) could not be read (%d bytes delivered), client got result %q status %d body %q (expected a failure result with a 5xx status)\n%s\nhistory: %s",
					st.name, n, last.status, len(last.sent), result, status, body, describe(), history())
			}
		case last.kind == "resp":
			if result != "failureCode" || !hasResp || status != last.status || !bodyOK {
				r.Violate("C10.final-outcome", "request %s: last attempt (%d) answered failure code %d body %q, client got result %q status %d body %q\n%s\nhistory: %s", st.name, n, last.status, last.tag, result, status, body, describe(), history())
			}
		case last.ctxErr == "deadline":
			if result != "timeout" || !hasResp || status != http.StatusRequestTimeout {
				r.Violate("C10.timeout-not-408", "request %s: last attempt (%d) ran into the pool timeout %v, client got result %q status %d (expected timeout / 408)\n%s\nhistory: %s", st.name, n, ref.timeout, result, status, describe(), history())
			}
		case last.ctxErr == "clientdl":
			// the client's own deadline expired inside the attempt: a time-out or the client's
			// going away, the statement does not say which
			if (result != "timeout" && result != "clientError") || !hasResp {
				r.Violate("C10.final-outcome", "request %s: last attempt (%d) was ended by the client's own deadline (%v), client got result %q status %d (expected timeout or clientError)\n%s\nhistory: %s", st.name, n, st.deadlineAt, result, status, describe(), history())
			}
		case last.ctxErr == "canceled":
			if result != "clientError" || !hasResp {
				r.Violate("C10.final-outcome", "request %s: last attempt (%d) was aborted by the client's cancellation, client got result %q status %d (expected clientError)\n%s\nhistory: %s", st.name, n, result, status, describe(), history())
			}
		default:
			// documented: result serverError ("Server-side network error"); no document names a
			// status for it: any gateway-generated 5xx
			if result != "serverError" || !hasResp || status < 500 || status > 599 {
				r.Violate("C10.final-outcome", "request %s: last attempt (%d) failed with a network error, client got result %q status %d (expected serverError with a 5xx status)\n%s\nhistory: %s", st.name, n, result, status, describe(), history())
			}
		}
		if last.failed && n == maxA && n >= 2 {
			sawExhausted = true
		}
		if st.op.Stream && rt.On && last.failed && ref.maxAttempts > 1 {
			r.Probe("c10.stream.failed_once_with_retry_policy")
		}
		switch st.cancelIn {
		case "backoff":
			sawCancelBackoff = true
		case "attempt":
			sawCancelAttempt = true
		}
	}

	for ci := range sc.Clients {
		ci := ci
		ops := sc.Clients[ci].Ops
		r.Go(fmt.Sprintf("client%d", ci), func() {
			for oi, op := range ops {
				if r.Violated() || r.Aborted() {
					return
				}
				if op.GapUs < 0 {
					op.GapUs = 0
				}
				r.Sleep(time.Duration(op.GapUs) * time.Microsecond)
				if r.Violated() || r.Aborted() {
					return
				}
				name := fmt.Sprintf("c%d.%d", ci, oi)
				path := fmt.Sprintf("/c%d/%d", ci, oi)
				if op.BodyLen < 0 || op.BodyLen > 1<<16 {
					op.BodyLen = 0
				}
				cctx, cancel := stdcontext.WithCancel(stdcontext.Background())
				deadlineBase := r.Now()
				if op.DeadlineUs > 0 {
					var cancelDL stdcontext.CancelFunc
					cctx, cancelDL = stdcontext.WithTimeout(cctx, time.Duration(op.DeadlineUs)*time.Microsecond)
					cancelReq := cancel
					cancel = func() { cancelDL(); cancelReq() }
				}
				var bodyRd io.Reader
				if op.BodyLen > 0 {
					bodyRd = strings.NewReader(strings.Repeat("b", op.BodyLen))
				}
				method := op.Method
				switch method {
				case "":
					method = http.MethodPost
				case "POST", "PUT", "PATCH", "GET", "DELETE":
				default:
					cancel()
					return
				}
				stdr, err := http.NewRequestWithContext(cctx, method, "http://gateway.example.com"+path, bodyRd)
				if err != nil {
					cancel()
					return
				}
				stdr.RemoteAddr = "203.0.113.9:40000"
				if stdr.Body == nil {
					stdr.Body = http.NoBody // as on a server-side request (a shrunk scenario may have a stream with no bytes)
				}
				req, err := httpprot.NewRequest(stdr)
				if err != nil {
					cancel()
					return
				}
				if op.Stream {
					err = req.FetchPayload(-1)
				} else {
					err = req.FetchPayload(0)
				}
				if err != nil {
					cancel()
					return
				}
				ctx := egctx.New(tracing.NoopSpan)
				ctx.SetRequest(egctx.DefaultNamespace, req)

				st := &c10Req{name: name, op: op, method: method, wantBody: strings.Repeat("b", op.BodyLen)}
				inflight[path] = st
				all = append(all, st)
				open++
				if open > maxOpen {
					maxOpen = open
				}
				st.callAt = r.Now()
				st.stalled0 = r.StalledFor()
				if op.DeadlineUs > 0 {
					st.deadlineAt = deadlineBase + time.Duration(op.DeadlineUs)*time.Microsecond
					sawClientDL = true
					if ref.timeout > 0 && time.Duration(op.DeadlineUs)*time.Microsecond > ref.timeout {
						sawClientDLLater = true
					}
				}
				st.callStamp = stamp()
				note("%s call stream=%v cancel_us=%d", name, op.Stream, op.CancelUs)
				if op.CancelUs >= 0 {
					r.Go("cancel-"+name, func() {
						r.Sleep(time.Duration(op.CancelUs) * time.Microsecond)
						if st.done {
							return
						}
						st.cancelled = true
						st.cancelAt = r.Now()
						st.cancelStamp = stamp()
						switch {
						case st.inAttempt:
							st.cancelIn = "attempt"
						case len(st.atts) > 0:
							st.cancelIn = "backoff"
						default:
							st.cancelIn = "before"
						}
						note("%s cancel(%s)", name, st.cancelIn)
						r.Fault("client-cancel")
						cancel()
					})
				}
				var result string
				var pnc interface{}
				var stack string
				func() {
					defer func() {
						if p := recover(); p != nil {
							pnc = p
							stack = c10Stack()
						}
					}()
					result = sp.handle(ctx, false)
				}()
				st.retAt, st.stalledRet = r.Now(), r.StalledFor()
				// a stream response is consumed as the HTTP server does it: copy the payload to the
				// client right after the pipeline returned (no gate, no simulated time in between),
				// then finish the context (which closes the response)
				status, body, hasResp := 0, "", false
				var rerr error
				if pnc == nil {
					if resp, ok := ctx.GetOutputResponse().(*httpprot.Response); ok && resp != nil {
						hasResp = true
						status = resp.StatusCode()
						if !resp.IsStream() {
							body = string(resp.RawPayload())
						} else {
							var b []byte
							b, rerr = io.ReadAll(io.LimitReader(resp.GetPayload(), 1<<20))
							body = string(b)
						}
					}
				}
				cancelledAtRead, readAt := st.cancelled || (st.deadlineAt > 0 && r.Now() >= st.deadlineAt), r.Now()
				if streamResp && pnc == nil {
					func() {
						defer func() {
							if p := recover(); p != nil {
								pnc = p
								stack = c10Stack()
							}
						}()
						ctx.Finish()
					}()
					for i, a := range st.atts {
						if a.sbody != nil && i < len(st.atts)-1 {
							if a.sbody.closed {
								r.Probe("c10.streamresp.abandoned_attempt_body_closed")
							} else {
								r.Probe("c10.streamresp.abandoned_attempt_body_left_open")
							}
						}
					}
				}
				// gate: requests whose last back-off ends at the same instant return together
				r.Yield("c10.returned")
				st.done = true
				st.result = result
				st.retStamp = stamp()
				open--
				delete(inflight, path)
				finish(st, result, status, body, rerr, cancelledAtRead, readAt, hasResp, pnc, stack)
				cancel()
			}
		})
	}
	r.WaitTasks()
	if r.Violated() || r.Aborted() {
		return
	}

	probe := func(b bool, name string) {
		if b {
			r.Probe(name)
		}
	}
	probe(sawBodyErr, "c10.body.attempt_with_unreadable_body")
	probe(sawBodyErrLast, "c10.body.last_attempt_body_unreadable")
	probe(sawRetrySuccess, "c10.retry.success_after_failed_attempt")
	probe(sawExhausted, "c10.retry.all_attempts_failed")
	probe(sawTimeout, "c10.timeout.fired")
	probe(sawShort, "c10.cb.short_circuited")
	probe(sawCancelBackoff, "c10.cancel.during_backoff")
	probe(sawCancelAttempt, "c10.cancel.during_attempt")
	probe(sawExp3, "c10.retry.exponential_third_attempt")
	probe(sawClientDL, "c10.clientdeadline.request_with_own_deadline")
	probe(sawClientDLLater, "c10.clientdeadline.later_than_pool_timeout")
	probe(sawClientDLExpired, "c10.clientdeadline.expired_inside_attempt")
	probe(sawPoolTimeoutDespiteLaterClientDL, "c10.clientdeadline.pool_timeout_fired_before_later_client_deadline")
	probe(sawNoServer, "c10.attempt.no_server_available")
	probe(sawRetriedBody, "c10.retry.request_body_sent_again")
	probe(streamResp, "c10.streamresp.runs")
	probe(streamResp && ref.timeout > 0, "c10.streamresp.with_pool_timeout")
	probe(sawStreamRespOK, "c10.streamresp.complete_body_read")
	probe(sawStreamRespRetried, "c10.streamresp.complete_body_after_retry")
	probe(sawStreamRespCut, "c10.streamresp.backend_body_cut")
	probe(sc.MaxBodyProxy && sc.MaxBody != 0, "c10.maxbody.configured_on_proxy")
	probe(maxOpen >= 2, "c10.concurrent_requests")
	probe(rt.On && ref.rf > 0, "c10.retry.randomized")
	if sawRetrySuccess || sawExhausted || sawTimeout || sawShort || sawCancelBackoff || sawCancelAttempt {
		r.Nontrivial()
	}
	var sig strings.Builder
	fmt.Fprintf(&sig, "%d/%v/%d|%v|%v|%v|", ref.maxAttempts, ref.exponential, rt.RFPct, sc.TimeoutUs > 0, cb, streamResp)
	for _, q := range all {
		fmt.Fprintf(&sig, "%s:", q.name)
		for _, a := range q.atts {
			fmt.Fprintf(&sig, "%s%d%s,", a.kind, a.status, a.ctxErr)
		}
		fmt.Fprintf(&sig, "%s/%s;", q.cancelIn, q.result)
	}
	r.SetSig(sig.String())
}

// c10FailBody delivers data, then fails (connection reset) or blocks until the
// request context ends.
type c10FailBody struct {
	r      *sim.Run
	ctx    stdcontext.Context
	data   string
	pos    int
	hang   bool
	kind   func(error) string
	att    *c10Att
	err    error
	done   func(how string)
	closed bool
}

func (b *c10FailBody) Read(p []byte) (int, error) {
	if len(p) == 0 {
		return 0, nil
	}
	if b.pos < len(b.data) {
		n := copy(p, b.data[b.pos:])
		b.pos += n
		return n, nil
	}
	if b.err != nil {
		return 0, b.err
	}
	how := "reset"
	b.err = c10ErrNet
	if b.hang && !b.closed && !b.r.Violated() && !b.r.Aborted() {
		tm := time.NewTimer(3 * time.Hour)
		select {
		case <-b.ctx.Done():
		case <-tm.C:
		}
		tm.Stop()
		b.r.Yield("c10.body")
		how = "stalled-3h"
		if e := b.ctx.Err(); e != nil {
			b.err = e
			b.att.ctxErr = b.kind(e)
			how = "ctx-" + b.att.ctxErr
		}
	}
	b.att.end, b.att.stEnd = b.r.Now(), b.r.StalledFor()
	b.done(how)
	return 0, b.err
}

func (b *c10FailBody) Close() error { b.closed = true; return nil }

// c10StreamBody is the body of an answer in stream-response mode. As with net/http
// ("the context controls the entire lifetime of a request and its response: ... reading the
// response headers and body") its bytes can only be read while the context of the backend
// request is alive. After data it ends (EOF), fails (connection reset) or blocks until the
// context ends.
type c10StreamBody struct {
	r          *sim.Run
	ctx        stdcontext.Context
	data       string
	pos        int
	fail, hang bool
	err        error
	closed     bool
}

func (b *c10StreamBody) Read(p []byte) (int, error) {
	if len(p) == 0 {
		return 0, nil
	}
	if b.closed {
		return 0, errors.New("c10 transport: read on closed response body")
	}
	if b.err != nil {
		return 0, b.err
	}
	if e := b.ctx.Err(); e != nil {
		b.err = e
		return 0, e
	}
	if b.pos < len(b.data) {
		n := copy(p, b.data[b.pos:])
		b.pos += n
		return n, nil
	}
	switch {
	case b.hang && !b.r.Violated() && !b.r.Aborted():
		tm := time.NewTimer(3 * time.Hour)
		select {
		case <-b.ctx.Done():
		case <-tm.C:
		}
		tm.Stop()
		b.r.Yield("c10.streambody")
		b.err = c10ErrNet
		if e := b.ctx.Err(); e != nil {
			b.err = e
		} else {
			b.r.Probe("c10.streamresp.body_stall_outlived_3h")
		}
	case b.fail:
		b.err = c10ErrNet
	default:
		b.err = io.EOF
	}
	return 0, b.err
}

func (b *c10StreamBody) Close() error { b.closed = true; return nil }

// c10LB is the scripted load balancer.
type c10LB struct {
	choose func(req *httpprot.Request) *Server
}

func (l *c10LB) ChooseServer(req *httpprot.Request) *Server { return l.choose(req) }

func c10Clip(s string, n int) string {
	if len(s) > n {
		return s[:n] + "..."
	}
	return s
}

func c10Stack() string {
	buf := make([]byte, 8<<10)
	n := runtime.Stack(buf, false)
	lines := strings.Split(string(buf[:n]), "\n")
	var out []string
	for _, l := range lines {
		if strings.Contains(l, "easegress/pkg/") {
			out = append(out, strings.TrimSpace(l))
		}
		if len(out) >= 14 {
			break
		}
	}
	return "stack: " + strings.Join(out, " | ")
}

func TestVerifC10(t *testing.T) {
	logger.InitNop()
	hdrv.Main(t, &hdrv.Harness{
		ID:       "C10",
		Gen:      c10Gen,
		New:      func() interface{} { return &c10Scenario{} },
		Exec:     c10Exec,
		MaxSteps: 30000,
		Rule: "scenario = drawn retry policy (maxAttempts omitted/1-5, waitDuration omitted/1ms-2s, random/exponential, randomizationFactor 0-1) or none, pool timeout none/5ms-1s, failureCodes, serverMaxBodySize omitted/64/-1 (stream response) on the pool or on the Proxy, optional COUNT_BASED breaker sized 1-8 (one record flips it) or TIME_BASED breaker over 1-30 s against request gaps of 0-40 s, " +
			"1-3 client tasks with 1-14 requests, each with a method, a per-attempt backend script (status, failure code, network error, no server available, answer slower than the timeout, never answers, body cut/stalled/over the limit), buffered or stream body, an optional client cancellation at a drawn instant and an optional deadline of the client's own context (T/2 ... 1h); " +
			"non-trivial = a retry succeeded after a failed attempt, all attempts failed, the pool timeout fired, a request was short-circuited, or a cancellation landed inside an attempt or a back-off; " +
			"distinct = distinct (policy shape, per-request attempt outcomes, cancel position, result) signatures",
		Real: []string{"pkg/filters/proxy ServerPool (NewServerPool, InjectResiliencePolicy, handle, doHandle, prepareRequest, buildResponse, buildFailureResponse, collectMetrics)",
			"pkg/resilience (NewPolicy, RetryPolicy.CreateWrapper/Wrap, CircuitBreakerPolicy.CreateWrapper, circuitBreakerWrapper.Wrap)", "pkg/util/circuitbreaker", "pkg/context, pkg/protocols/httpprot request/response objects"},
		Stub: []string{"transport: fnSendRequest replaced by a scripted backend honouring the request context (stream-response bodies are readable only while that context is alive, as with net/http)",
			"load balancer: the pool's balancer is replaced by a scripted one offering the pool's single server or, for an attempt scripted so, none", "clients and cancellers are harness tasks", "sync/atomic -> simatomic, sync.Mutex -> simsync, math/rand -> simrand (same semantics + gates / taped draws)"},
		Assumptions: []string{
			"back-off is bounded from below only: every wait >= waitDuration*(1-randomizationFactor) - 1us; exponential policy: waits grow (checked without a factor when rf=0, one client, no stall); no upper bound on any wait; an extra wait after the final failed attempt is accepted",
			"retrying is required after a failed backend call (failure code, network error, time-out) unless the client went away before the return; after a gateway-internal failure (unconvertible answer, no server) stopping or retrying are both accepted",
			"a failed request the client had abandoned is exactly one breaker record of either kind (reference computes may/must be open)",
			"a cancellation at or after the earliest possible end of a back-off does not forbid the next attempt; a cancel before the first attempt may or may not suppress it; after a client cancel only result clientError is required (status free)",
			"pool timeout is checked per attempt: deadline <= transport entry + timeout, DeadlineExceeded not before earliest attempt start + timeout; answer and time-out at the same instant count as time-out",
			"backOffPolicy only omitted/random/exponential, maxAttempts >= 1 or omitted (3), waitDuration omitted (500ms) or 1ms..2s; client cancellation is a context cancel and/or a deadline of the client's own request context (its expiry = cancellation at that instant; result timeout or clientError accepted then)",
			"time limit: with pool timeout T an unanswered attempt is released within T + scheduler stalls + 1ms of reaching the transport all attempts of a call take at most attempts*T and a successful call at most attempts*T besides the observed waits (+ stalls + 1s), whatever later deadline the client's context has",
			"breaker COUNT_BASED or TIME_BASED with 24h open wait and 24h slow-call threshold, optional fields omitted (documented defaults); exact prediction with one client task (TIME_BASED: an outcome N-1..N+1 s old may or may not count), bounds with several",
			"stream response: the complete backend body must be readable right after handle returned unless the backend cut it, the client cancelled, or the pool time-out has elapsed since the last attempt's earliest start; a failing backend body is no attempt failure in stream mode",
			"an attempt without available server is a failed attempt (counts, back-off follows, as last attempt: failure result + error status); every attempt must carry the client's method and body bytes",
		},
	})
}
