//go:build go1.21

package proxy

// C10, second variant (scenario.net = true): the pool uses the Proxy's real
// http.Client / http.Transport (built by Proxy.reload) over the simulated
// network; the backend is a real net/http server on a simnet listener whose
// handler follows the per-attempt script: answer after a latency, reset the
// connection, or never answer (stall until the peer goes away, 3 h at most).
//
// What the backend sees is only a lower bound of what the pool did (an attempt
// can time out before its request reaches the handler), so this variant asserts
// the coarse rules only:
//
//   C10.net-timeout-hang      an attempt the backend never answers was not given up within the pool timeout
//                             + 1500 s (allowance for scheduler stalls), or a call that ended with a success
//                             returned later than one attempt's time + 1500 s after its last attempt reached
//                             the backend (no upper bound is assumed for a back-off)
//   C10.timeout-not-408       no attempt seen by the backend got an answer (stalled backend), but
//                             the client does not get result timeout / 408
//   C10.final-outcome         without a pool timeout: the client's result/status/body is not the
//                             outcome of the last attempt the backend saw; with one: it is neither
//                             the outcome of any answered attempt nor timeout / 408 (a timed-out
//                             attempt's request may reach the backend after a later attempt's)
//   C10.failed-body-published the client is given bytes of an answer whose body was cut by the backend
//                             (reset / stall after k of n declared bytes, or larger than serverMaxBodySize)
//   C10.too-many-attempts, C10.stream-resent, C10.retry-after-success (the latter only without
//   a pool timeout, when a sent answer is certain to have been received)
//
// No cancellation, no circuit breaker and a single client task in this variant
// (the backend's connection goroutines and the Transport's goroutines still run
// concurrently with it).

import (
	stdcontext "context"
	"fmt"
	"io"
	"net/http"
	"strings"
	"time"

	egctx "github.com/megaease/easegress/pkg/context"
	"github.com/megaease/easegress/pkg/protocols/httpprot"
	"github.com/megaease/easegress/pkg/tracing"
	"verif/simkit/sim"
	"verif/simkit/simnet"
)

func c10ExecNet(r *sim.Run, sc *c10Scenario) {
	if sc.CB.On {
		return
	}
	ref, policies, spec, ok := c10Build(r, sc)
	if !ok {
		return
	}
	rt := sc.Retry
	nw := simnet.New()
	simnet.SetDefault(nw)
	defer func() {
		nw.Shutdown()
		simnet.SetDefault(nil)
	}()
	ln, err := nw.Listen("tcp", "10.1.0.1:8080")
	if err != nil {
		r.Violate("C10.other", "harness: listen: %v", err)
		return
	}

	inflight := map[string]*c10Req{}
	var all []*c10Req
	var hist []string
	note := func(format string, a ...interface{}) {
		s := fmt.Sprintf(format, a...)
		r.Eventf("%s", s)
		if len(hist) < 300 {
			hist = append(hist, fmt.Sprintf("%s@%v", s, r.Now()))
		}
	}
	history := func() string { return strings.Join(hist, " | ") }
	describe := func() string {
		return fmt.Sprintf("[real transport over simnet] retry=%+v (reference: maxAttempts=%d wait=%v exponential=%v rf=%.2f) timeout=%v failureCodes=%v", rt, ref.maxAttempts, ref.wait, ref.exponential, ref.rf, ref.timeout, sc.FailureCodes)
	}
	streamResp := sc.MaxBody < 0
	maxAOf := func(st *c10Req) int {
		if st.op.Stream || !rt.On {
			return 1
		}
		return ref.maxAttempts
	}

	srv := &http.Server{Handler: http.HandlerFunc(func(w http.ResponseWriter, hr *http.Request) {
		st := inflight[hr.URL.Path]
		if st == nil {
			w.WriteHeader(599)
			return
		}
		io.Copy(io.Discard, hr.Body)
		// first gate of this connection goroutine while it is the only one running: its
		// canonical name (an ordinal) is assigned here, not after a timer wake-up
		r.Yield("c10.backend.enter")
		idx := len(st.atts)
		att := &c10Att{entry: r.Now(), kind: "pending"}
		st.atts = append(st.atts, att)
		att.tag = fmt.Sprintf("%s-attempt-%d", st.name, idx+1)
		note("%s.a%d backend-got", st.name, idx)
		if idx >= 1 && !r.Violated() {
			prev := st.atts[idx-1]
			switch {
			case st.op.Stream:
				r.Violate("C10.stream-resent", "request %s has a stream body and reached the backend %d times\n%s\nhistory: %s", st.name, idx+1, describe(), history())
			case idx >= maxAOf(st):
				r.Violate("C10.too-many-attempts", "request %s: attempt %d exceeds maxAttempts=%d (retry policy configured: %v)\n%s\nhistory: %s", st.name, idx+1, maxAOf(st), rt.On, describe(), history())
			case prev.kind == "resp" && !prev.failed && ref.timeout == 0:
				r.Violate("C10.retry-after-success", "request %s: attempt %d made although attempt %d was answered with status %d and the pool has no timeout\n%s\nhistory: %s", st.name, idx+1, idx, prev.status, describe(), history())
			}
		}
		script := c10Attempt{Kind: "neterr"}
		if idx < len(st.op.Attempts) {
			script = st.op.Attempts[idx]
		}
		if script.Kind == "hang" && ref.timeout == 0 {
			script = c10Attempt{Kind: "neterr", LatUs: 1000}
		}
		if script.Kind == "noserver" { // stub variant only
			script.Kind = "neterr"
		}
		wait := func(d time.Duration) bool { // false: the peer went away
			if d > 0 {
				tm := time.NewTimer(d)
				select {
				case <-hr.Context().Done():
				case <-tm.C:
				}
				tm.Stop()
			}
			r.Yield("c10.backend")
			return hr.Context().Err() == nil
		}
		if r.Violated() || r.Aborted() {
			return
		}
		switch script.Kind {
		case "hang":
			r.Fault("backend-stall")
			att.hangs = true
			ok := wait(3 * time.Hour)
			att.end = r.Now()
			if ok {
				att.kind = "hung-3h"
				note("%s.a%d backend stalled for 3h, peer still there", st.name, idx)
				return
			}
			att.kind = "hang"
			note("%s.a%d backend stalled, peer gone", st.name, idx)
		case "neterr":
			if !wait(time.Duration(script.LatUs) * time.Microsecond) {
				att.kind = "aborted"
				note("%s.a%d peer gone before reset", st.name, idx)
				return
			}
			hj, ok := w.(http.Hijacker)
			if !ok {
				return
			}
			conn, _, err := hj.Hijack()
			if err != nil {
				return
			}
			att.kind, att.failed = "err", true
			note("%s.a%d backend resets connection", st.name, idx)
			r.Fault("backend-reset")
			if c, ok := conn.(*simnet.Conn); ok {
				c.Reset()
			}
			conn.Close()
		case "bodyfail", "bodyhang", "toolarge", "toolarge-unknown":
			// head + k bytes of a longer declared body, then reset (or stall until the peer
			// gives up); "toolarge": a complete body longer than serverMaxBodySize
			if !wait(time.Duration(script.LatUs) * time.Microsecond) {
				att.kind = "aborted"
				note("%s.a%d peer gone before answer", st.name, idx)
				return
			}
			status := script.Status
			if status < 200 || status > 599 {
				status = 200
			}
			full := att.tag + "-" + strings.Repeat("x", 80)
			k := script.BodyK
			if k < 0 {
				k = 0
			}
			if k >= len(full) {
				k = len(full) - 1
			}
			if strings.HasPrefix(script.Kind, "toolarge") && sc.MaxBody > 0 {
				k = len(full)
			}
			hj, ok := w.(http.Hijacker)
			if !ok {
				return
			}
			conn, buf, err := hj.Hijack()
			if err != nil {
				return
			}
			att.kind, att.status, att.failed, att.sent = "bodyerr", status, true, full[:k]
			note("%s.a%d backend answers %d and %d of %d body bytes (%s)", st.name, idx, status, k, len(full), script.Kind)
			fmt.Fprintf(buf, "HTTP/1.1 %d %s\r\nContent-Length: %d\r\nX-C10-Attempt: %s\r\n\r\n%s", status, http.StatusText(status), len(full), att.tag, full[:k])
			buf.Flush()
			if k < len(full) {
				r.Fault("backend-body-cut")
				if script.Kind == "bodyhang" && ref.timeout > 0 {
					wait(3 * time.Hour)
				} else {
					wait(time.Millisecond) // let the bytes travel, then abort
				}
				if c, ok := conn.(*simnet.Conn); ok {
					c.Reset()
				}
			}
			conn.Close()
		default:
			if script.LatUs < 0 {
				script.LatUs = 0
			}
			if !wait(time.Duration(script.LatUs) * time.Microsecond) {
				att.kind = "aborted"
				note("%s.a%d peer gone before answer", st.name, idx)
				return
			}
			status := script.Status
			if status < 200 || status > 599 {
				status = 200
			}
			att.kind, att.status = "resp", status
			att.failed = c10InCodes(sc.FailureCodes, status)
			att.sent = att.tag
			if streamResp && sc.RespPadK > 0 {
				// a body that does not fit into the transport's read buffer together with the head
				att.sent = att.tag + "-" + strings.Repeat("y", sc.RespPadK<<10)
			}
			note("%s.a%d backend answers %d (%d body bytes)", st.name, idx, status, len(att.sent))
			w.Header().Set("X-C10-Attempt", att.tag)
			w.Header().Set("Content-Length", fmt.Sprint(len(att.sent)))
			w.WriteHeader(status)
			io.WriteString(w, att.sent)
		}
	})}
	go srv.Serve(ln)

	// The transport is the real one; the pass-through only adds a scheduler gate after
	// client.Do returns: requests whose time-outs expire at the same instant would otherwise
	// draw their (taped) back-off randomisation in an irreproducible order.
	savedSend := fnSendRequest
	defer func() { fnSendRequest = savedSend }()
	fnSendRequest = func(hr *http.Request, c *http.Client) (*http.Response, error) {
		resp, err := c.Do(hr)
		r.Yield("c10.net.transport.leave")
		return resp, err
	}

	px := &Proxy{spec: &Spec{Pools: []*ServerPoolSpec{spec}, ServerMaxBodySize: c10ProxyMaxBody(sc)}}
	px.reload()
	px.InjectResiliencePolicy(policies)
	sp := px.mainPool
	defer func() {
		srv.Close()
		px.client.CloseIdleConnections()
		px.Close()
	}()

	var sawTimeout408, sawReset5xx, sawRetrySuccess, sawBodyCut, sawStreamOK, sawStreamBig, sawStreamCutByBackend bool

	finish := func(st *c10Req, result string, status int, body string, rerr error, hasResp bool, dur time.Duration, pnc interface{}, stack string) {
		n := len(st.atts)
		note("%s return result=%q status=%d backend-attempts=%d after %v", st.name, result, status, n, dur)
		if pnc != nil {
			r.Violate("C10.panic", "request %s: ServerPool.handle panicked: %v\n%s\n%s\nhistory: %s", st.name, pnc, stack, describe(), history())
			return
		}
		if r.Violated() {
			return
		}
		T := ref.timeout
		// Bounded liveness (allowance 1500 s for scheduler stalls). The statement puts no upper
		// bound on a back-off, so the waits are taken as observed at the backend:
		//  - an attempt the backend never answers is given up by the pool within the time-out;
		//  - a call whose outcome is a success (no back-off after it) returns within one attempt's
		//    time after its last attempt reached the backend.
		allow := 1500 * time.Second
		var lastEntry time.Duration
		for i, a := range st.atts {
			if a.entry > lastEntry {
				lastEntry = a.entry
			}
			if a.hangs && T > 0 {
				rel := a.end
				if rel == 0 {
					rel = r.Now() // the backend has not even noticed yet that the peer has gone
				}
				if rel-a.entry > T+allow {
					r.Violate("C10.net-timeout-hang", "request %s attempt %d: reached the backend at %v, which never answers; the pool (timeout %v) held on to it until %v\n%s\nhistory: %s", st.name, i+1, a.entry, T, rel, describe(), history())
					return
				}
			}
		}
		if result == "" && n > 0 {
			one := T
			if T == 0 {
				one = time.Second
				for _, a := range st.op.Attempts {
					if d := time.Second + time.Duration(a.LatUs)*time.Microsecond; d > one {
						one = d
					}
				}
			}
			if bound := lastEntry - st.callAt + one + allow; dur > bound {
				r.Violate("C10.net-timeout-hang", "request %s: ServerPool.handle returned a success after %v of simulated time; its last attempt reached the backend %v after the call, bound %v (timeout=%v)\n%s\nhistory: %s", st.name, dur, lastEntry-st.callAt, bound, T, describe(), history())
				return
			}
		}
		leak := strings.Contains(body, "-attempt-") && !streamResp // a stream response is handed on as it comes
		timeoutOK := T > 0 && result == "timeout" && hasResp && status == http.StatusRequestTimeout && !leak
		if leak {
			explained := false
			for _, a := range st.atts {
				if a.kind == "resp" && a.tag == body && a.status == status {
					explained = true
				}
			}
			if !explained {
				r.Violate("C10.failed-body-published", "request %s: the client is given status %d with body %q (result %q), which is not the complete answer of any attempt: bytes of a failed attempt's body were published\n%s\nhistory: %s",
					st.name, status, body, result, describe(), history())
				return
			}
		}
		if n == 0 {
			if !timeoutOK {
				r.Violate("C10.other", "request %s never reached the backend and the client got result %q status %d\n%s\nhistory: %s", st.name, result, status, describe(), history())
			}
			return
		}
		// With a pool timeout the order in which attempts reach the backend is not the
		// order in which the pool made them (a timed-out attempt's request can be delivered
		// after a later attempt's): any attempt the backend answered may be the last one.
		cands := st.atts[n-1:]
		if T > 0 {
			cands = st.atts
		}
		answered := 0
		var headOnly *c10Att // stream response: status and result are an attempt's, the body is not (completely)
		for _, a := range cands {
			want := ""
			if c10InCodes(sc.FailureCodes, a.status) {
				want = "failureCode"
			}
			if streamResp && (a.kind == "resp" || a.kind == "bodyerr") && result == want && hasResp && status == a.status {
				switch {
				case a.kind == "bodyerr" && strings.HasPrefix(a.sent, body):
					// the backend cut its body: the client gets a prefix of what was sent
					sawStreamCutByBackend = true
					return
				case a.kind == "resp" && body == a.sent && rerr == nil:
					sawStreamOK = true
					if len(a.sent) > 4096 {
						sawStreamBig = true
					}
					if n >= 2 && !a.failed {
						sawRetrySuccess = true
					}
					return
				case a.kind == "resp" && strings.HasPrefix(a.sent, body) && rerr != nil && (headOnly == nil || len(body) > 0):
					headOnly = a
				}
			}
			if streamResp && a.kind == "resp" {
				answered++
				continue
			}
			switch a.kind {
			case "err":
				answered++
				if result == "serverError" && hasResp && status >= 500 && status <= 599 && !leak { // no document names the status
					sawReset5xx = true
					return
				}
			case "bodyerr":
				// head (and part of the body) sent, then cut: a failure with a 5xx status, whichever
				// result (the cut may also hit before the head was parsed)
				answered++
				if result != "" && hasResp && status >= 500 && !leak && !(status == a.status && result != "failureCode" && status < 500) {
					sawBodyCut = true
					return
				}
			case "resp":
				answered++
				want := ""
				if a.failed {
					want = "failureCode"
				}
				if result == want && hasResp && status == a.status && body == a.tag {
					if n >= 2 && !a.failed {
						sawRetrySuccess = true
					}
					return
				}
			}
		}
		if timeoutOK {
			if answered == 0 {
				sawTimeout408 = true
			}
			return
		}
		if headOnly != nil {
			// The answer's head was accepted as the request's outcome, then the stream broke
			// although the backend sent the complete body. With a pool time-out that is only
			// explicable once the time-out has elapsed since the call.
			if T > 0 && r.Now()-st.callAt >= T {
				r.Probe("c10.net.streamresp.cut_after_timeout_elapsed")
				return
			}
			if rerr != nil && strings.Contains(rerr.Error(), "context canceled") {
				r.Violate("C10.spurious-cancel.stream-body", "request %s: the backend answered status %d with a complete body of %d bytes; ServerPool.handle returned result %q status %d after %v, the client did not cancel and the pool time-out (%v) has not elapsed, yet reading the response stream fails after %d bytes with %q: the context of the backend call was cancelled by the pool itself\n%s\nhistory: %s",
					st.name, headOnly.status, len(headOnly.sent), result, status, dur, T, len(body), rerr, describe(), history())
				return
			}
			r.Violate("C10.final-outcome", "request %s: the backend answered status %d with a complete body of %d bytes, the client got result %q status %d and %d body bytes, then the read error %v\n%s\nhistory: %s",
				st.name, headOnly.status, len(headOnly.sent), result, status, len(body), rerr, describe(), history())
			return
		}
		var seen []string
		for _, a := range st.atts {
			seen = append(seen, fmt.Sprintf("%s/%d", a.kind, a.status))
		}
		switch {
		case answered == 0 && T > 0:
			r.Violate("C10.timeout-not-408", "request %s: no attempt got an answer from the backend (%v), pool timeout %v, client got result %q status %d (expected timeout / 408)\n%s\nhistory: %s",
				st.name, seen, T, result, status, describe(), history())
		case answered == 0:
			r.Violate("C10.other", "request %s: attempts %v without a pool timeout (result %q status %d)\n%s\nhistory: %s", st.name, seen, result, status, describe(), history())
		default:
			r.Violate("C10.final-outcome", "request %s: backend attempts %v (kind/status, bodies <request>-attempt-<n>), client got result %q status %d body %q: not the outcome of %s\n%s\nhistory: %s",
				st.name, seen, result, status, c10Clip(body, 60), map[bool]string{true: "any answered attempt nor timeout / 408", false: "the last attempt"}[T > 0], describe(), history())
		}
	}

	// One client task only: with two, requests whose time-outs expire at the same instant wake up
	// inside net/http in an irreproducible order, and which of them spawns the Transport's next
	// dial goroutine (hence its canonical name) would not replay.
	for ci := range sc.Clients[:1] {
		ci := ci
		ops := sc.Clients[ci].Ops
		r.Go(fmt.Sprintf("client%d", ci), func() {
			for oi, op := range ops {
				if r.Violated() || r.Aborted() {
					return
				}
				if op.GapUs < 0 {
					op.GapUs = 0
				}
				r.Sleep(time.Duration(op.GapUs) * time.Microsecond)
				if r.Violated() || r.Aborted() {
					return
				}
				name := fmt.Sprintf("c%d.%d", ci, oi)
				path := fmt.Sprintf("/c%d/%d", ci, oi)
				if op.BodyLen < 0 || op.BodyLen > 1<<16 {
					op.BodyLen = 0
				}
				var bodyRd io.Reader
				if op.BodyLen > 0 {
					bodyRd = strings.NewReader(strings.Repeat("b", op.BodyLen))
				}
				// optionally a request deadline of the client's own, far beyond anything the pool may
				// take (2.5 h): it must never be what ends an attempt
				cctx, cancelDL := stdcontext.Background(), func() {}
				if op.DeadlineUs > 0 {
					cctx, cancelDL = stdcontext.WithTimeout(cctx, 9000*time.Second)
					r.Probe("c10.net.clientdeadline.request_with_later_deadline")
				}
				stdr, err := http.NewRequestWithContext(cctx, http.MethodPost, "http://gateway.example.com"+path, bodyRd)
				if err != nil {
					cancelDL()
					return
				}
				stdr.RemoteAddr = "203.0.113.9:40000"
				if stdr.Body == nil {
					stdr.Body = http.NoBody // as on a server-side request (a shrunk scenario may have a stream with no bytes)
				}
				req, err := httpprot.NewRequest(stdr)
				if err != nil {
					return
				}
				if op.Stream {
					err = req.FetchPayload(-1)
				} else {
					err = req.FetchPayload(0)
				}
				if err != nil {
					return
				}
				ctx := egctx.New(tracing.NoopSpan)
				ctx.SetRequest(egctx.DefaultNamespace, req)
				st := &c10Req{name: name, op: op}
				inflight[path] = st
				all = append(all, st)
				st.callAt = r.Now()
				note("%s call stream=%v", name, op.Stream)
				var result string
				var pnc interface{}
				var stack string
				func() {
					defer func() {
						if p := recover(); p != nil {
							pnc = p
							stack = c10Stack()
						}
					}()
					result = sp.handle(ctx, false)
				}()
				dur := r.Now() - st.callAt
				r.Yield("c10.returned")
				st.done = true
				st.result = result
				status, body, hasResp := 0, "", false
				var rerr error
				if pnc == nil {
					if resp, ok := ctx.GetOutputResponse().(*httpprot.Response); ok && resp != nil {
						hasResp = true
						status = resp.StatusCode()
						if !resp.IsStream() {
							body = string(resp.RawPayload())
						} else {
							// as the HTTP server does: copy the stream to the client
							var b []byte
							b, rerr = io.ReadAll(io.LimitReader(resp.GetPayload(), 1<<20))
							body = string(b)
						}
					}
				}
				finish(st, result, status, body, rerr, hasResp, dur, pnc, stack)
				ctx.Finish()
				cancelDL()
			}
		})
	}
	r.WaitTasks()
	if r.Violated() || r.Aborted() {
		return
	}
	r.Probe("c10.net.runs")
	if sawTimeout408 {
		r.Probe("c10.net.stalled_backend_408")
	}
	if sawReset5xx {
		r.Probe("c10.net.reset_serverError_5xx")
	}
	if sawRetrySuccess {
		r.Probe("c10.net.retry_success")
	}
	if sawBodyCut {
		r.Probe("c10.net.body_cut_5xx")
	}
	if streamResp {
		r.Probe("c10.net.streamresp.runs")
	}
	if sawStreamOK {
		r.Probe("c10.net.streamresp.complete_body_read")
	}
	if sawStreamBig {
		r.Probe("c10.net.streamresp.complete_big_body_read")
	}
	if sawStreamCutByBackend {
		r.Probe("c10.net.streamresp.backend_body_cut")
	}
	if sawTimeout408 || sawReset5xx || sawRetrySuccess || sawBodyCut || (sawStreamOK && ref.timeout > 0) {
		r.Nontrivial()
	}
	var sig strings.Builder
	fmt.Fprintf(&sig, "net|%d/%v/%d|%v|%v|", ref.maxAttempts, ref.exponential, rt.RFPct, sc.TimeoutUs > 0, streamResp)
	for _, q := range all {
		fmt.Fprintf(&sig, "%s:", q.name)
		for _, a := range q.atts {
			fmt.Fprintf(&sig, "%s%d,", a.kind, a.status)
		}
		fmt.Fprintf(&sig, "/%s;", q.result)
	}
	r.SetSig(sig.String())
}
