//go:debug asynctimerchan=0
//go:build go1.21

package mqttproxy

// C15 — MQTT delivery: every eligible subscriber gets each message; QoS1 at
// least once.
//
// System under test (all real): one Broker created with newBroker (listener on
// the simulated network through netshim), its accept loop, handleConn,
// Client.readLoop / writeLoop, SessionManager, Session (pending queue, resend
// ticker of backgroundResendPending on the virtual clock), TopicManager, the
// publish limiter and Broker.httpTopicsPublishHandler, which the publisher
// tasks call in-process with an httptest recorder. storage = the repo's
// mockStorage behind a recording wrapper (c15Store), publish pipeline = a
// recording context.Handler behind a MuxMapper. Map ranges of the package (subscriber enumeration in
// sendMsgToClient, trie walk in findSubscribers) iterate in a run-determined
// order (check.json map_ranges).
//
// Workload: 2-6 raw MQTT 3.1.1 clients (paho packet codec over simnet
// connections, keep-alive 0, clean session) with drawn, overlapping
// subscription sets of mixed QoS; 1-2 publisher tasks issuing QoS0/QoS1
// messages through the HTTP handler, single or in bursts (up to 120, a
// scheduling gate between the calls); per client a cyclic list of
// PUBACK behaviours (prompt / ignore the first k copies / delay by d / send
// twice, optionally followed by PINGREQ), an optional window in which the
// client stops reading, late re-subscriptions, and client PUBLISH QoS0/1
// towards the recording pipeline (optionally with a publish limiter and a
// pipeline that drops some topics).
//
// Ordinary options and input shapes (c15GenOptions, each drawn independently;
// none of them changes an expectation): spec.topicCacheSize 1-5,
// maxAllowedConnection (one slot per connection of the scenario) and a
// generous connectionLimit (request rate, byte rate or both, time period) that
// never have a reason to refuse, clientPublishLimit with bytesRate/timePeriod,
// pass-through pipelines for Connect/Disconnect/Subscribe/Unsubscribe packets,
// CONNECT with user name/password, keep-alive of 1-18 h (never expires in a
// run), MQTT 3.1 (MQIsdp/3), wills (handed to the pipeline by the broker, not
// judged), client ids with '/', blanks, non-ASCII, yaml-special and 120-byte
// shapes, topic levels that are empty (leading/trailing/doubled '/'), contain
// blanks or non-ASCII, topics 3-7 levels deep, SUBSCRIBEs asking for QoS 2,
// UNSUBSCRIBEs with several filters, client PUBLISH with RETAIN, payloads of
// 150-6000 bytes (multi-byte remaining length, beyond the socket buffer; only on
// links that stay much faster than the resend rate), and a loss of the session
// storage's delete watch (fault store.delete_watch_lost: the broker gets the nil
// event, re-establishes the watch, lists the stored sessions and closes the
// connections that have none; connections that are not connected with a stored
// session at that instant are not judged any more, all others must go on
// receiving).
// The SUBACK return codes are the granted QoS of the reference model
// (c15CheckSubackCodes, ON; class C15.suback-return-code). One further range is
// behind a switch that stays OFF: c15EmptyClientIDs (two clients with a
// zero-length client id; owner's decision: outside the statement).
//
// Cluster view (about a third of the scenarios): the broker's member look-up
// (memberURL, made for every message that is published as not yet distributed)
// follows a cyclic plan: no peers, error with an empty or nil list (cluster store
// error, unparsable member status, member without peer URL), empty list, one or
// several peers of which 10.2.0.10 accepts the transferred publish and the
// others refuse the connection (http.DefaultClient.Transport is a harness stub
// for the run). The first sentence of the statement does not depend on peers:
// every expectation towards the local subscribers stays as it is
// (C15.local-delivery-lost-on-member-lookup-failure).
//
// Client-side QoS1 retries (about 30% of the scenarios): with a publish limiter
// (1-3/s) and/or a pipeline that drops the n-th packet handed to it, a client
// sends 1-3 QoS1 PUBLISHes, re-sends the latest one with DUP=1 and the same
// packet id while fewer PUBACKs than transmissions arrived (op "repub", after
// 0.3-2.1 s), and publishes a new message under that packet id once every
// transmission was acknowledged (op "reuse").
//
// Population dynamics (about half of the scenarios): UNSUBSCRIBE steps, clients
// that end their connection (DISCONNECT, close, reset), new client ids joining
// late, and client ids that connect again: after the old connection has ended
// (reconnect) or while it is still open (take-over; the superseded connection
// then ends later by close/reset/DISCONNECT/PINGREQ or never), over nested
// topics so that one client's filter is a strict level-prefix of another's.
// Obligations under dynamics: a connection is judged from its own CONNACK /
// SUBACK / UNSUBACK on and only while it stays connected; it is no longer
// judged once it ends itself, once another connection with its id starts to
// dial, or if it connects while a delete-watch echo of an earlier clean
// session of its id may be pending (known C16 findings). A
// connection that stays connected and subscribed must get every message
// whatever the others do (C15.delivery-lost-after-subscriber-churn).
//
// Persistent sessions on a re-used client id (cleanSession=0 on the 2nd/3rd
// connection of an id): after the predecessor has ended (DISCONNECT, close,
// reset) and the broker has torn it down completely, the session exists only
// in the session storage; the reconnect decodes it from there (fresh Session
// object: empty pending queue, its own resend ticker), the broker re-subscribes
// the stored filters, and the connection may live on those restored
// subscriptions alone (no SUBSCRIBE of its own). A recipe drawn in ~30% of
// the scenarios then publishes QoS1 messages to the restored connection only
// after it is back (c15Pub.After) while it withholds PUBACKs or does not read
// during a burst longer than its outbound queue: redelivery until the PUBACK
// is required on the restored session exactly as on any other. If the
// reconnect comes before the broker noticed the end of the old connection, or
// takes over an open one, the session object is inherited in memory instead.
// The storage is the repo's mockStorage behind a recording wrapper
// (c15Store); which of the two happened, and which subscriptions a restored
// session brought along, is read off that stub: the session look-up during the
// handshake and the value it was answered with.
// A broker lock that cannot be read-locked during 21 polls is reported as
// C15.broker-deadlock.
//
// Reference model (from the property statement, MQTT 3.1.1 §4.7 for filter
// matching; nothing is copied from the implementation):
//   * a client's subscription state is what it had acknowledged by SUBACK; while
//     a SUBSCRIBE is outstanding both the old and the new state are possible.
//     For a message issued at instant i the client MUST receive it iff it is
//     eligible (some matching filter with QoS >= q) in every state it had from i
//     on, MUST NOT receive it iff it has no matching filter in any such state.
//   * the run ends at quiescence: all scripts done and 21 consecutive polls of
//     300 ms of virtual time without any observable event (HARNESS_GUIDE: at
//     most 20 scheduler stalls per run, so at least one of those intervals ran
//     without a stall and in it every runnable goroutine and every timer of at
//     most 300 ms - the resend ticker - came to rest); or earlier when every
//     obligation is already met (3 idle polls).
//
// Oracle classes:
//   C15.fanout-stops-at-lower-qos-subscriber  eligible client missed a QoS1
//        message while another subscriber of the topic holds a lower QoS
//   C15.overlap-lower-qos-filter-shadows      eligible client missed it while
//        one of its own other matching filters has a lower QoS
//   C15.fanout-blocked-by-unresponsive-subscriber  (only in scenarios with a
//        client that stops reading for good) another client missed a message
//   C15.missing-delivery                      any other missed QoS1 message
//   C15.qos0-lost-queue-not-full              a QoS0 copy missed although the
//        client's outbound queue cannot have been full (see below)
//   C15.unsubscribed-delivery / C15.qos-above-subscription / C15.qos-downgraded
//   C15.wrong-qos / C15.wrong-topic / C15.payload-corrupt
//   C15.retransmission-stopped-before-ack     a QoS1 copy the client has not
//        acknowledged yet is no longer retransmitted at quiescence
//   C15.resend-after-ack                      a copy arrives after the broker
//        demonstrably processed the PUBACK (a PINGRESP for a PINGREQ sent after
//        the PUBACK was received: the connection and the outbound queue are FIFO)
//   C15.resend-changed-packet-id / C15.packet-id-reused
//   C15.client-publish-not-forwarded   without a limiter, a QoS1 PUBLISH (each
//        transmission, DUP=1 retries included) was not handed to the pipeline
//   C15.client-publish-acked-not-forwarded   a QoS1 PUBLISH got a PUBACK although
//        none of its transmissions was ever handed to the pipeline
//   C15.client-publish-not-acked       fewer PUBACKs than hand-overs the pipeline
//        did not drop
//   C15.backend-duplicate              handed over more often than transmitted
//   C15.puback-unexpected-id
//   C15.unacked-message-not-retransmitted-after-takeover   a connection that
//        took its client id over with cleanSession=0 and inherited the session
//        object in memory never got a QoS1 message that the client had received
//        on the old connection but never acknowledged
//   C15.acknowledged-subscription-lost-in-session-store   a message missed a
//        client whose session was restored from a stored session that lacked
//        acknowledged subscriptions although the session store was at rest (21
//        polls of 300 ms without a put) before the client left: a session
//        snapshot was dropped, not late (late = the known store lag of C16)
//   C15.suback-return-code             a SUBACK grants a filter more than the
//        SUBSCRIBE asked for, or has another number of return codes than filters
//   C15.local-delivery-lost-on-member-lookup-failure   a message published as not
//        yet distributed missed an eligible local subscriber and its member
//        look-up failed (or the look-up was not even made while the publish
//        handler ran and look-ups failed in the run)
//   C15.unexpected-disconnect / C15.suback-missing / C15.http-publish-rejected
//
// Oracle decisions (statement silent / two readings):
//   * QoS0 loss: "queue full" is judged from outside. For client c let occ(t) =
//     number of packets c received after instant t that were requested at or
//     before t (a superset of what its outbound queue held at t). A QoS0 copy
//     issued at i may be missing iff max over t>=i of occ(t) >= capacity of that
//     client's queue (read from the live object, cap(writeCh)). Everything else
//     is a violation. Bursts longer than the queue therefore tolerate QoS0 loss.
//   * a client whose matching filters all have a lower QoS than the message may
//     receive a downgraded copy or nothing; receiving it at the message's QoS
//     is a violation (it would exceed the granted QoS).
//   * duplicate QoS0 copies are not judged; duplicate QoS1 copies are legal.
//   * the retransmission interval is not asserted, only that retransmission
//     goes on until the PUBACK and ends after it; copies between the client's
//     PUBACK and the broker's proof of having processed it are legal.
//   * with a publish limiter configured, "passed the limiter" is read off the
//     recording pipeline (the limiter arithmetic belongs to C09/C10); without a
//     limiter every client PUBLISH must reach the pipeline. PUBACK for a QoS1
//     PUBLISH the pipeline dropped: both answers accepted.
//   * a cleanSession=0 connection of a re-used id holds, from its CONNACK on,
//     the subscriptions its session brought along: those of the stored session
//     it was answered with (restored) or the predecessor's acknowledged ones
//     (inherited in memory); its own SUBACK/UNSUBACKs change them from there.
//     Where a restored session differs from what the predecessor had
//     acknowledged (known C16 findings: the session store lags behind the
//     SUBACK) the filters concerned are "in flux" for that connection until it
//     re-subscribes or unsubscribes them itself: both outcomes accepted (probe
//     mqtt.restored_session_differs_from_acknowledged_subscriptions). Before it
//     ends, a persistent connection that will come back waits up to 40 ms for the
//     stored session to catch up with its acknowledged subscriptions.
//   * a PUBACK sent on an earlier, superseded connection of the same client id
//     that shares the session object (inherited in memory) for the same message
//     and packet id is an acknowledgement by that client: the copy the successor
//     received need not be retransmitted any further (probe
//     mqtt.inherited_session.acknowledged_through_superseded_connection).
//   * QoS1 copies a persistent client had not acknowledged when it ended its
//     connection: the statement speaks of connected clients and does not say
//     whether they must be redelivered after the client's return. Not judged;
//     probes mqtt.unacked_qos1_of_ended_connection_(not_)redelivered_on_
//     {restored,inherited}_session record what easegress does (the pending
//     queue is not part of the stored session: never redelivered on a restored
//     session, redelivered on one inherited in memory).
//   * client PUBLISH retries: every transmission is "a QoS1 PUBLISH from a
//     client"; without a limiter each must be handed to the pipeline, with a
//     limiter those it refused cannot be told from outside (probe). A message
//     that was handed over at least once and got more PUBACKs than hand-overs
//     (a broker answering the retry of a message it already took over without
//     handing it over again) is accepted (probe
//     mqtt.client_publish_more_pubacks_than_handovers); a PUBACK for a message
//     that was never handed over is a violation. The HTTP status of a publish
//     whose member look-up failed is asserted to stay 200 like for any other.
//   * not generated: QoS2, invalid filters, '$' topics, empty levels, retained
//     messages, wills, keep-alive expiry (keep-alive 0, see HARNESS_GUIDE on
//     scheduler stalls), storage latency and storage errors (C16).
//   * clients that stop reading for good are generated in the thorough tier (in
//     the quick tier only when c15HangScenarios is true); their own deliveries
//     are not judged.

import (
	"bytes"
	gocontext "context"
	"encoding/base64"
	"encoding/json"
	"fmt"
	"net"
	"net/http"
	"net/http/httptest"
	"sort"
	"strings"
	"testing"
	"time"

	"github.com/eclipse/paho.mqtt.golang/packets"
	"gopkg.in/yaml.v2"

	"github.com/megaease/easegress/pkg/context"
	"github.com/megaease/easegress/pkg/logger"
	"github.com/megaease/easegress/pkg/protocols/mqttprot"
	"verif/simkit/hdrv"
	"verif/simkit/sim"
	"verif/simkit/simnet"
)

// c15HangScenarios switches the generation of clients that stop reading for
// good while staying connected (DESIGN.md §5.6: explored as a separately
// classified behaviour) in the quick tier; the thorough tier always generates
// them (in 5% of the clients). Replay files containing such a client execute
// in every tier.
const c15HangScenarios = false

// c15EmptyClientIDs switches the generation of two different clients that both
// connect with a zero-length client id and cleanSession=1 (MQTT-3.1.3-6: the
// server must treat each as a client of its own). OFF for good: easegress treats
// them as one client id (the second connection takes the first over); the owner
// decided that this is MQTT conformance outside the statement of C15 and
// recorded it as an observation.
const c15EmptyClientIDs = false

// c15CheckSubackCodes switches the use of the SUBACK return codes: the granted
// QoS becomes the subscription QoS of the reference model, and a SUBACK that
// grants more than was requested or has another number of return codes than
// the SUBSCRIBE had filters is C15.suback-return-code. Found: every SUBACK
// granted QoS 1 (repaired in /repo by 1ae1445; the repair grants at most QoS 1,
// the broker does not deliver at QoS 2: a request for QoS 2 is granted 1, which
// is a lower grant and legal).
const c15CheckSubackCodes = true

// ---- scenario ---------------------------------------------------------------

type c15Sub struct {
	F string `json:"f"`
	Q int    `json:"q"`
}

type c15SubPkt struct {
	Subs []c15Sub `json:"subs"`
}

type c15Ack struct {
	Omit    int  `json:"omit,omitempty"`
	DelayMs int  `json:"delay_ms,omitempty"`
	Dup     bool `json:"dup,omitempty"`
	Ping    bool `json:"ping,omitempty"`
}

type c15COp struct {
	K     string   `json:"k"` // pub | sub | unsub | repub (re-send the connection's latest QoS1 PUBLISH with DUP=1 and the same id if a PUBACK is outstanding) | reuse (a new PUBLISH under the packet id of the latest QoS1 PUBLISH once that is acknowledged)
	GapMs int      `json:"gap_ms,omitempty"`
	ID    string   `json:"id,omitempty"`
	T     string   `json:"t,omitempty"`
	Q     int      `json:"q,omitempty"`
	Pad   int      `json:"pad,omitempty"` // pub: bytes appended to the payload
	Ret   bool     `json:"ret,omitempty"` // pub: RETAIN flag set
	Subs  []c15Sub `json:"subs,omitempty"`
}

type c15Client struct {
	ID         string      `json:"id"`
	Init       []c15SubPkt `json:"init"`
	Ops        []c15COp    `json:"ops,omitempty"`
	Acks       []c15Ack    `json:"acks,omitempty"`
	StallAfter int         `json:"stall_after,omitempty"` // stop reading once this many PUBLISH packets were received ...
	StallMs    int         `json:"stall_ms,omitempty"`    // ... for this long (-1: for good)
	// population dynamics: several entries may carry the same id (successive
	// connections of one client id; the predecessor of an entry is the nearest
	// earlier entry with the same id).
	User     string `json:"user,omitempty"`       // CONNECT user name / password
	Pass     string `json:"pass,omitempty"`
	KeepS    int    `json:"keep_s,omitempty"`     // CONNECT keep-alive in seconds (far beyond the run's length)
	V31      bool   `json:"v31,omitempty"`        // MQTT 3.1 (MQIsdp/3) instead of 3.1.1
	WillT    string `json:"will_t,omitempty"`     // will topic (QoS WillQ, message "will:<id>")
	WillQ    int    `json:"will_q,omitempty"`
	Persist  bool   `json:"persist,omitempty"`    // cleanSession=0 (on a re-used id: the session of the predecessor is inherited in memory or restored from the storage)
	StartMs  int    `json:"start_ms,omitempty"`   // delay before dialling (after the After condition)
	After    string `json:"after,omitempty"`      // "" | ready (predecessor still connected: take-over) | gone (predecessor ended)
	End      string `json:"end,omitempty"`        // "" stays | disconnect | close | reset | ping (PINGREQ, only useful when superseded)
	EndWhen  string `json:"end_when,omitempty"`   // "" after the script | superseded (after a successor was accepted)
	EndGapMs int    `json:"end_gap_ms,omitempty"` // delay before the end
}

type c15Pub struct {
	ID    string `json:"id"`
	GapMs int    `json:"gap_ms,omitempty"`
	T     string `json:"t"`
	Q     int    `json:"q"`
	Burst int    `json:"burst,omitempty"`
	B64   bool   `json:"b64,omitempty"`
	Dist  bool   `json:"dist,omitempty"`
	Pad   int    `json:"pad,omitempty"`   // bytes appended to the payload
	First bool   `json:"first,omitempty"` // After refers to the first connection of that id instead of the last
	After string `json:"after,omitempty"` // client id: issue only once the last connection of that id has finished its initial subscribes
}

type c15Publisher struct {
	Pubs []c15Pub `json:"pubs"`
}

type c15Scenario struct {
	Clients    []c15Client    `json:"clients"`
	Publishers []c15Publisher `json:"publishers"`
	WaitReady  bool           `json:"wait_ready"`
	Limit      int            `json:"limit,omitempty"`
	DropTopics []string       `json:"drop_topics,omitempty"`
	DropNth    []int          `json:"drop_nth,omitempty"` // the publish pipeline drops the n-th packet handed to it (1-based)
	TopicCache int            `json:"topic_cache,omitempty"` // spec.topicCacheSize (0: default)
	MaxConn    int            `json:"max_conn,omitempty"`    // n>0: spec.maxAllowedConnection = number of connections of the scenario + n-1 (never a reason to refuse)
	ConnLimit  [3]int         `json:"conn_limit"`            // spec.connectionLimit requestRate, bytesRate, timePeriod (generous: never a reason to refuse)
	LimitBytes int            `json:"limit_bytes,omitempty"` // spec.clientPublishLimit.bytesRate
	LimitPer   int            `json:"limit_per,omitempty"`   // spec.clientPublishLimit.timePeriod (0: 1 s with a request rate, default otherwise)
	Pipes      []string       `json:"pipes,omitempty"`       // packet types with a pass-through pipeline: Connect | Disconnect | Subscribe | Unsubscribe
	WatchBrk   int            `json:"watch_brk,omitempty"`   // n>0: the storage's delete watch breaks n ms after the initial population is ready and is re-established by the broker
	Members    []string       `json:"members,omitempty"`  // cyclic plan of the cluster member look-ups: "" no peers | err | errnil | empty | peer | peer-down | peers2
	PipeYield  bool           `json:"pipe_yield,omitempty"`
	NetBuf     int            `json:"net_buf,omitempty"`
	Seg        [2]int         `json:"seg"`
	DelayUs    [2]int         `json:"delay_us"`
}

func c15Gen(rng *sim.Rand, tier string) interface{} {
	sc := &c15Scenario{}
	lv := []string{"a", "b", "c"}
	if rng.Bool(0.25) {
		// level names real deployments use: empty levels (leading, trailing and
		// doubled '/'), blanks, non-ASCII (MQTT 3.1.1 4.7.3: all legal)
		switch rng.Intn(5) {
		case 0:
			lv = []string{"", "a", "b"}
		case 1:
			lv = []string{"a", "", "é ü"}
		case 2:
			lv = []string{"dev ice", "b", ""}
		case 3:
			lv = []string{"温度", "b", "c d"}
		default:
			lv = []string{"", "", "a"}
		}
	}
	deep := rng.Bool(0.15)
	nT := rng.Range(1, 4)
	var topics []string
	for i := 0; i < nT; i++ {
		d := rng.Range(1, 3)
		if deep {
			d = rng.Range(3, 7)
		}
		var l []string
		for j := 0; j < d; j++ {
			l = append(l, lv[rng.Intn(len(lv))])
		}
		topics = append(topics, strings.Join(l, "/"))
	}
	// population dynamics (unsubscribe, disconnects, reconnects, take-overs,
	// late joiners) in about half of the scenarios, over nested topics so that
	// one client's filter is a strict level-prefix of another's
	dyn := rng.Bool(0.55)
	nestBase, nestChild := "", ""
	if dyn {
		nestBase = lv[rng.Intn(3)]
		if rng.Bool(0.6) {
			nestBase += "/" + lv[rng.Intn(3)]
		}
		nestChild = nestBase + "/" + lv[rng.Intn(3)]
		topics = append(topics, nestBase, nestChild)
	}
	topic := func() string {
		if rng.Bool(0.08) {
			return lv[rng.Intn(3)] + "/" + lv[rng.Intn(3)]
		}
		return topics[rng.Intn(len(topics))]
	}
	filterFor := func(t string) string {
		l := strings.Split(t, "/")
		switch rng.Intn(8) {
		case 0, 1:
			return t
		case 7:
			// a strict level-prefix of the topic
			if len(l) > 1 {
				return strings.Join(l[:rng.Range(1, len(l)-1)], "/")
			}
			return t
		case 2:
			l[rng.Intn(len(l))] = "+"
			return strings.Join(l, "/")
		case 3:
			for i := range l {
				l[i] = "+"
			}
			return strings.Join(l, "/")
		case 4:
			i := rng.Intn(len(l))
			return strings.Join(append(append([]string{}, l[:i]...), "#"), "/")
		case 5:
			return t + "/#"
		default:
			return "#"
		}
	}
	q1 := rng.Pick(25, 50, 50, 75)
	qos := func() int {
		if rng.Intn(100) < q1 {
			return 1
		}
		return 0
	}
	nC := rng.Range(2, 6)
	big := rng.Bool(0.25) // scenario with long bursts
	mkClient := func(id string) c15Client {
		cl := c15Client{ID: id}
		nf := rng.Pick(1, 1, 2, 2, 3, 4)
		var subs []c15Sub
		for j := 0; j < nf; j++ {
			subs = append(subs, c15Sub{F: filterFor(topic()), Q: qos()})
		}
		if dyn && rng.Bool(0.6) {
			subs = append(subs, c15Sub{F: rng.PickStr(nestBase, nestBase, nestChild, nestBase+"/#", nestBase+"/+", nestChild+"/#"), Q: qos()})
		}
		if rng.Bool(0.35) {
			// overlapping filters of one client with different QoS
			t := topic()
			subs = append(subs, c15Sub{F: filterFor(t), Q: 1}, c15Sub{F: filterFor(t), Q: 0})
		}
		p := rng.Perm(len(subs))
		cut := len(subs)
		if rng.Bool(0.4) {
			cut = rng.Range(1, len(subs))
		}
		var a, b []c15Sub
		for k, ix := range p {
			if k < cut {
				a = append(a, subs[ix])
			} else {
				b = append(b, subs[ix])
			}
		}
		cl.Init = append(cl.Init, c15SubPkt{Subs: a})
		if len(b) > 0 {
			cl.Init = append(cl.Init, c15SubPkt{Subs: b})
		}
		na := rng.Range(1, 4)
		for j := 0; j < na; j++ {
			ak := c15Ack{Ping: rng.Bool(0.7)}
			switch rng.Intn(10) {
			case 0, 1, 2, 3:
			case 4, 5, 6:
				ak.Omit = rng.Range(1, 3)
			case 7, 8:
				ak.DelayMs = rng.Pick(1, 150, 250, 450)
			default:
				ak.Dup = true
			}
			cl.Acks = append(cl.Acks, ak)
		}
		if rng.Bool(0.25) {
			cl.StallAfter = rng.Range(1, 30)
			cl.StallMs = rng.Pick(50, 300, 1000, 3000)
			if (c15HangScenarios || tier == "thorough") && rng.Bool(0.2) {
				cl.StallMs = -1
			}
		}
		nOps := rng.Pick(0, 0, 1, 2, 5)
		if dyn {
			nOps = rng.Pick(0, 1, 2, 3, 5)
		}
		for j := 0; j < nOps; j++ {
			op := c15COp{GapMs: rng.Pick(0, 0, 1, 30, 250)}
			if dyn && rng.Bool(0.35) {
				op.K = "unsub"
				if rng.Bool(0.8) {
					op.Subs = []c15Sub{{F: subs[rng.Intn(len(subs))].F}}
				} else {
					op.Subs = []c15Sub{{F: filterFor(topic())}}
				}
			} else if rng.Bool(0.2) {
				op.K = "sub"
				if rng.Bool(0.5) && len(subs) > 0 {
					s := subs[rng.Intn(len(subs))]
					op.Subs = []c15Sub{{F: s.F, Q: 1 - s.Q}}
				} else {
					op.Subs = []c15Sub{{F: filterFor(topic()), Q: qos()}}
				}
			} else {
				op.K = "pub"
				op.ID = fmt.Sprintf("p%d", j)
				op.T = topic()
				op.Q = rng.Pick(0, 1, 1)
			}
			cl.Ops = append(cl.Ops, op)
		}
		return cl
	}
	for i := 0; i < nC; i++ {
		cl := mkClient(fmt.Sprintf("k%d", i))
		if dyn && rng.Bool(0.3) {
			cl.End = rng.PickStr("disconnect", "close", "reset")
			cl.EndGapMs = rng.Pick(0, 1, 50, 300)
			cl.Persist = rng.Bool(0.6)
		}
		sc.Clients = append(sc.Clients, cl)
	}
	if dyn {
		nX := rng.Pick(1, 1, 2, 3)
		taken := map[int]bool{}
		for x := 0; x < nX && len(sc.Clients) < 9; x++ {
			switch rng.Intn(5) {
			case 0: // a new client id joins late
				cl := mkClient(fmt.Sprintf("j%d", x))
				cl.StartMs = rng.Pick(1, 50, 300, 700)
				sc.Clients = append(sc.Clients, cl)
			case 1, 2: // the same id reconnects after its connection has ended
				i := rng.Intn(nC)
				if taken[i] {
					continue
				}
				taken[i] = true
				pr := &sc.Clients[i]
				if pr.End == "" {
					pr.End = rng.PickStr("disconnect", "close", "reset")
					pr.EndGapMs = rng.Pick(0, 1, 50, 300)
				}
				pr.EndWhen = ""
				pr.Persist = rng.Bool(0.75) // a clean predecessor leaves a delete-watch echo behind (successor not judged)
				cl := mkClient(pr.ID)
				cl.After = "gone"
				cl.StartMs = rng.Pick(0, 0, 1, 50, 300)
				// cleanSession=0 on the re-used id: the session comes back from the
				// storage (or, if the broker has not torn the old connection down
				// yet, is inherited in memory)
				cl.Persist = rng.Bool(0.6)
				if cl.Persist && rng.Bool(0.4) {
					cl.Init = nil // lives on the restored subscriptions alone
				}
				third := cl.Persist && rng.Bool(0.3) && len(sc.Clients) < 8
				if third {
					cl.End = rng.PickStr("disconnect", "close", "reset")
					cl.EndGapMs = rng.Pick(0, 1, 50, 300)
				}
				sc.Clients = append(sc.Clients, cl)
				if third {
					// ... and once more: what the restored session acquired must
					// have been stored as well
					c3 := mkClient(pr.ID)
					c3.After = "gone"
					c3.StartMs = rng.Pick(0, 1, 50, 300)
					c3.Persist = true
					if rng.Bool(0.5) {
						c3.Init = nil
					}
					sc.Clients = append(sc.Clients, c3)
				}
			default: // the same id connects again while its connection is still open
				i := rng.Intn(nC)
				if taken[i] {
					continue
				}
				taken[i] = true
				pr := &sc.Clients[i]
				pr.End = rng.PickStr("", "close", "reset", "disconnect", "ping", "close", "reset")
				pr.EndWhen = "superseded"
				pr.EndGapMs = rng.Pick(0, 1, 50, 300)
				pr.StallAfter, pr.StallMs = 0, 0
				cl := mkClient(pr.ID)
				cl.After = "ready"
				cl.StartMs = rng.Pick(0, 1, 100, 400)
				if rng.Bool(0.35) {
					// both persistent: the take-over inherits the session in memory
					pr.Persist, cl.Persist = true, true
				}
				sc.Clients = append(sc.Clients, cl)
			}
		}
	}
	nP := rng.Pick(1, 1, 2)
	total := 0
	for i := 0; i < nP; i++ {
		var pb c15Publisher
		n := rng.Range(1, 8)
		for j := 0; j < n; j++ {
			p := c15Pub{ID: fmt.Sprintf("%d.%d", i, j), GapMs: rng.Pick(0, 0, 0, 1, 50, 250), T: topic(), Q: qos(),
				B64: rng.Bool(0.15), Dist: rng.Bool(0.5)}
			p.Burst = rng.Pick(1, 1, 1, 1, 2, 5)
			if big {
				p.Burst = rng.Pick(1, 2, 20, 60, 120)
			}
			if total+p.Burst > 260 {
				p.Burst = 1
			}
			total += p.Burst
			pb.Pubs = append(pb.Pubs, p)
		}
		if dyn && i == 0 {
			// publishes that span the population changes
			for j := 0; j < rng.Range(2, 5); j++ {
				p := c15Pub{ID: fmt.Sprintf("%d.l%d", i, j), GapMs: rng.Pick(100, 300, 600, 1200), T: rng.PickStr(topic(), nestBase, nestChild), Q: qos(), Dist: true, Burst: rng.Pick(1, 1, 3, 8)}
				total += p.Burst
				pb.Pubs = append(pb.Pubs, p)
			}
		}
		sc.Publishers = append(sc.Publishers, pb)
	}
	// restored-session recipe (on top of whatever was drawn above): a persistent
	// client with a QoS1 subscription ends its connection, the broker tears it
	// down completely, the client comes back with cleanSession=0 (session and
	// subscriptions restored from the storage), and only then QoS1 messages are
	// published to it whose first transmission is lost: PUBACK withheld, or a
	// burst longer than its outbound queue while it does not read.
	overflow := false
	if rng.Bool(0.3) && len(sc.Clients) <= 8 && len(sc.Publishers) > 0 {
		id := "r0"
		t := topic()
		pr := mkClient(id)
		pr.Persist = true
		tf := c15SubPkt{Subs: []c15Sub{{F: rng.PickStr(t, t, filterFor(t)), Q: 1}}}
		if rng.Bool(0.5) {
			pr.Init = append([]c15SubPkt{tf}, pr.Init...)
			if len(pr.Init) > 2 {
				pr.Init = pr.Init[:2]
			}
		} else {
			// the filter the later publishes aim at comes with the last SUBSCRIBE:
			// it is in the last snapshot of the session only
			if len(pr.Init) > 1 {
				pr.Init = pr.Init[:1]
			}
			pr.Init = append(pr.Init, tf)
			// ... while other clients re-subscribe filters they hold already:
			// session snapshots of several clients on their way to the storage at
			// the same time
			for x := 0; x < rng.Range(1, 4); x++ {
				o := &sc.Clients[rng.Intn(len(sc.Clients))]
				if len(o.Init) == 0 || len(o.Init[0].Subs) == 0 || len(o.Ops) > 6 {
					continue
				}
				sb := o.Init[0].Subs[rng.Intn(len(o.Init[0].Subs))]
				o.Ops = append([]c15COp{{K: "sub", GapMs: rng.Pick(0, 0, 1, 5), Subs: []c15Sub{sb}}}, o.Ops...)
			}
		}
		pr.End = rng.PickStr("disconnect", "close", "reset")
		pr.EndGapMs = rng.Pick(0, 1, 50, 300)
		pr.StallAfter, pr.StallMs = 0, 0
		if len(pr.Ops) > 2 {
			pr.Ops = pr.Ops[:2]
		}
		su := mkClient(id)
		su.After = "gone"
		su.Persist = true
		su.StartMs = rng.Pick(0, 1, 5, 50, 300, 700)
		if rng.Bool(0.6) {
			su.Init = nil
		}
		su.StallAfter, su.StallMs = 0, 0
		overflow = rng.Bool(0.35)
		if overflow {
			su.StallAfter = rng.Range(1, 3)
			su.StallMs = rng.Pick(300, 1000, 3000)
		} else if len(su.Acks) > 0 && rng.Bool(0.8) {
			su.Acks[0].Omit, su.Acks[0].DelayMs, su.Acks[0].Dup = rng.Range(1, 3), 0, false
		}
		sc.Clients = append(sc.Clients, pr, su)
		pb := &sc.Publishers[rng.Intn(len(sc.Publishers))]
		for j := 0; j < rng.Range(1, 3); j++ {
			p := c15Pub{ID: fmt.Sprintf("r.%d", j), GapMs: rng.Pick(0, 1, 50, 250), T: t, Q: 1, Dist: true, After: id, Burst: rng.Pick(1, 1, 2, 5)}
			if overflow && j == 0 {
				p.Burst = rng.Pick(56, 64, 80)
			}
			if j > 0 && rng.Bool(0.3) {
				p.Q, p.T = qos(), topic()
			}
			total += p.Burst
			pb.Pubs = append(pb.Pubs, p)
		}
	}
	// every persistent client that comes back for its stored session gets a
	// publish of its own, after its return, on a topic that matches a filter of
	// its predecessor's last SUBSCRIBE (the one only the session's last snapshot
	// holds)
	if len(sc.Publishers) > 0 {
		for i := range sc.Clients {
			su := &sc.Clients[i]
			if su.After != "gone" || !su.Persist || !rng.Bool(0.7) {
				continue
			}
			var pr *c15Client
			for j := 0; j < i; j++ {
				if sc.Clients[j].ID == su.ID {
					pr = &sc.Clients[j]
				}
			}
			if pr == nil || !pr.Persist || len(pr.Init) == 0 || len(pr.Init[len(pr.Init)-1].Subs) == 0 {
				continue
			}
			lastSubs := pr.Init[len(pr.Init)-1].Subs
			f := lastSubs[rng.Intn(len(lastSubs))]
			var l []string
			for _, x := range strings.Split(f.F, "/") {
				switch x {
				case "+":
					l = append(l, lv[rng.Intn(3)])
				case "#":
					if rng.Bool(0.7) || len(l) == 0 {
						l = append(l, lv[rng.Intn(3)])
					}
				default:
					l = append(l, x)
				}
			}
			q := f.Q
			if q > 1 {
				q = 1
			}
			p := c15Pub{ID: fmt.Sprintf("g.%d", i), GapMs: rng.Pick(0, 1, 50), T: strings.Join(l, "/"), Q: q, Dist: true, After: su.ID, Burst: 1}
			total++
			pb := &sc.Publishers[rng.Intn(len(sc.Publishers))]
			pb.Pubs = append(pb.Pubs, p)
		}
	}
	// take-over recipe: a persistent QoS1 subscriber holds an unacknowledged
	// message (PUBACK withheld or late) when a new connection with its client id
	// and cleanSession=0 takes over while the old one is still registered: the
	// session object is inherited in memory, and the pending message must be
	// retransmitted to the new connection although nothing else is published
	if rng.Bool(0.12) && len(sc.Clients) <= 8 && len(sc.Publishers) > 0 {
		id := "t0"
		t := topic()
		pr := mkClient(id)
		pr.Persist = true
		pr.Init = []c15SubPkt{{Subs: []c15Sub{{F: rng.PickStr(t, t, filterFor(t)), Q: 1}}}}
		pr.Ops = nil
		pr.StallAfter, pr.StallMs = 0, 0
		pr.Acks = []c15Ack{{Omit: 3}}
		if rng.Bool(0.4) {
			pr.Acks = []c15Ack{{DelayMs: 450, Ping: rng.Bool(0.5)}}
		}
		pr.End = rng.PickStr("", "close", "reset", "ping")
		pr.EndWhen = "superseded"
		pr.EndGapMs = rng.Pick(0, 1, 50, 300)
		su := mkClient(id)
		su.After = "ready"
		su.Persist = true
		su.StartMs = rng.Pick(20, 100, 300, 700)
		su.Init = nil
		if rng.Bool(0.3) {
			su.Ops = nil
		}
		su.StallAfter, su.StallMs = 0, 0
		sc.Clients = append(sc.Clients, pr, su)
		pb := &sc.Publishers[rng.Intn(len(sc.Publishers))]
		p := c15Pub{ID: "t.0", GapMs: rng.Pick(0, 1, 10), T: t, Q: 1, Dist: true, After: id, First: true, Burst: rng.Pick(1, 1, 2)}
		total += p.Burst
		pb.Pubs = append([]c15Pub{p}, pb.Pubs...)
	}
	sc.WaitReady = rng.Bool(0.8)
	if rng.Bool(0.15) {
		sc.Limit = rng.Pick(1, 3, 10)
	}
	if rng.Bool(0.15) {
		sc.DropTopics = []string{topic()}
	}
	// client-side QoS1 retries: a publish limiter and/or a pipeline that drops
	// single packets leave a PUBLISH without PUBACK; the client sends it again
	// with DUP=1 and the same packet id (MQTT 3.1.1 4.4), and later uses that
	// id, once acknowledged, for a new message
	if rng.Bool(0.3) {
		switch rng.Intn(10) {
		case 0, 1, 2, 3:
			sc.Limit = rng.Pick(1, 1, 2, 3)
		case 4, 5, 6:
			sc.Limit = 0
			for j := 0; j < rng.Range(1, 3); j++ {
				sc.DropNth = append(sc.DropNth, rng.Range(1, 6))
			}
		case 7, 8:
			sc.Limit = rng.Pick(1, 2, 3)
			sc.DropNth = append(sc.DropNth, rng.Range(1, 5))
		}
		var cand []int
		for i := range sc.Clients {
			if sc.Clients[i].End == "" && sc.Clients[i].EndWhen == "" && sc.Clients[i].StallMs >= 0 {
				cand = append(cand, i)
			}
		}
		if len(cand) == 0 {
			cand = append(cand, rng.Intn(len(sc.Clients)))
		}
		for x := 0; x < rng.Pick(1, 1, 2); x++ {
			cl := &sc.Clients[cand[rng.Intn(len(cand))]]
			nx := len(cl.Ops)
			for j := 0; j < rng.Range(1, 3); j++ {
				cl.Ops = append(cl.Ops, c15COp{K: "pub", ID: fmt.Sprintf("x%d", nx+j), GapMs: rng.Pick(0, 0, 30), T: topic(), Q: 1})
			}
			for j := 0; j < rng.Range(1, 2); j++ {
				cl.Ops = append(cl.Ops, c15COp{K: "repub", GapMs: rng.Pick(300, 1100, 2100)})
			}
			if rng.Bool(0.6) {
				cl.Ops = append(cl.Ops, c15COp{K: "reuse", ID: fmt.Sprintf("x%d", nx+5), GapMs: rng.Pick(0, 50, 1100), T: topic(), Q: 1})
				if rng.Bool(0.5) {
					cl.Ops = append(cl.Ops, c15COp{K: "repub", GapMs: rng.Pick(300, 1100)})
				}
			}
		}
	}
	// cluster member look-ups that fail or name peers while messages that are
	// not yet distributed are published
	if rng.Bool(0.35) {
		for j := 0; j < rng.Range(1, 4); j++ {
			sc.Members = append(sc.Members, rng.PickStr("", "err", "err", "errnil", "empty", "peer", "peer-down", "peers2"))
		}
		for i := range sc.Publishers {
			for j := range sc.Publishers[i].Pubs {
				if rng.Bool(0.7) {
					sc.Publishers[i].Pubs[j].Dist = false
				}
			}
		}
	}
	sc.PipeYield = rng.Bool(0.3)
	sc.NetBuf = rng.Pick(0, 0, 4096, 512, 128)
	if overflow && (sc.NetBuf == 0 || sc.NetBuf > 512) {
		// the broker's write loop must get stuck on the socket for the queue to
		// fill up
		sc.NetBuf = rng.Pick(128, 512)
	}
	for i := 0; i < 2; i++ {
		sc.Seg[i] = rng.Pick(0, 0, 0, 16, 3, 1)
		if total > 40 && sc.Seg[i] > 0 && sc.Seg[i] < 16 {
			sc.Seg[i] = 16
		}
		sc.DelayUs[i] = rng.Pick(0, 0, 100, 1000, 20000)
		if total > 40 && sc.DelayUs[i] > 1000 {
			sc.DelayUs[i] = 1000
		}
		// keep the link much faster than the retransmission rate: a link that
		// is slower keeps the outbound queue full for ever, and the simulated
		// mutex (no starvation freedom, unlike sync.Mutex) then lets the resend
		// ticker starve the PUBACK handler of the session lock.
		if sc.Seg[i] > 0 && sc.Seg[i] < 16 && sc.DelayUs[i] > 1000 {
			sc.DelayUs[i] = 1000
		}
	}
	c15GenOptions(rng, sc)
	return sc
}

// c15GenOptions draws the options of the spec and of CONNECT that leave the
// expectations as they are: topic cache size, connection cap and connection
// limiter that never have a reason to refuse, byte-rate publish limiter,
// pass-through pipelines for the other packet types, credentials, keep-alive
// far beyond the run, MQTT 3.1, wills, unusual client ids, bigger payloads.
func c15GenOptions(rng *sim.Rand, sc *c15Scenario) {
	if rng.Bool(0.25) {
		sc.TopicCache = rng.Pick(1, 1, 2, 5)
	}
	if rng.Bool(0.2) {
		sc.WatchBrk = rng.Pick(1, 50, 300, 800)
	}
	// SUBSCRIBEs that ask for QoS 2 (what many client libraries do by default;
	// messages have QoS 0/1, so such a subscription is eligible for all of
	// them), UNSUBSCRIBEs with several filters, client PUBLISH with RETAIN
	q2 := rng.Bool(0.2)
	for i := range sc.Clients {
		c := &sc.Clients[i]
		var mine []string
		for j := range c.Init {
			for k := range c.Init[j].Subs {
				mine = append(mine, c.Init[j].Subs[k].F)
				if q2 && rng.Bool(0.25) {
					c.Init[j].Subs[k].Q = 2
				}
			}
		}
		for j := range c.Ops {
			o := &c.Ops[j]
			switch o.K {
			case "sub":
				for k := range o.Subs {
					if q2 && rng.Bool(0.25) {
						o.Subs[k].Q = 2
					}
				}
			case "unsub":
				if len(mine) > 0 && rng.Bool(0.3) {
					o.Subs = append(o.Subs, c15Sub{F: mine[rng.Intn(len(mine))]})
					if rng.Bool(0.3) {
						o.Subs = append(o.Subs, c15Sub{F: mine[rng.Intn(len(mine))]})
					}
				}
			case "pub", "reuse":
				o.Ret = rng.Bool(0.1)
			}
		}
	}
	if rng.Bool(0.3) {
		sc.MaxConn = rng.Pick(1, 1, 2, 4)
	}
	if rng.Bool(0.3) {
		sc.ConnLimit = [3]int{rng.Pick(0, 50, 1000), rng.Pick(0, 10000, 1000000), rng.Pick(0, 1, 2, 10)}
		if sc.ConnLimit[0] == 0 && sc.ConnLimit[1] == 0 {
			sc.ConnLimit[0] = 100
		}
	}
	if sc.Limit > 0 && rng.Bool(0.4) {
		sc.LimitBytes = rng.Pick(40, 100, 400, 5000)
		sc.LimitPer = rng.Pick(0, 1, 2, 5)
		if rng.Bool(0.5) {
			sc.Limit = 0
		}
	}
	if rng.Bool(0.4) {
		for _, pt := range []string{"Connect", "Disconnect", "Subscribe", "Unsubscribe"} {
			if rng.Bool(0.6) {
				sc.Pipes = append(sc.Pipes, pt)
			}
		}
	}
	// only on links that stay much faster than the retransmission rate (every
	// segment or buffer-full of a payload takes one link delay)
	small := (sc.Seg[0] == 0 || sc.Seg[0] == 16) && (sc.Seg[1] == 0 || sc.Seg[1] == 16) && sc.DelayUs[0] <= 1000 && sc.DelayUs[1] <= 1000
	if small && rng.Bool(0.3) {
		// payloads beyond 127 bytes (multi-byte remaining length) and beyond the
		// socket buffer
		for i := range sc.Publishers {
			for j := range sc.Publishers[i].Pubs {
				if p := &sc.Publishers[i].Pubs[j]; p.Burst <= 5 && rng.Bool(0.4) {
					p.Pad = rng.Pick(150, 150, 1500, 6000)
					if sc.Seg[0] == 16 || sc.Seg[1] == 16 || (sc.NetBuf > 0 && sc.NetBuf <= 512) {
						// (a payload costs one scheduling step per segment or buffer-full and subscriber)
						p.Pad = rng.Pick(150, 700)
					}
				}
			}
		}
		for i := range sc.Clients {
			for j := range sc.Clients[i].Ops {
				if o := &sc.Clients[i].Ops[j]; (o.K == "pub" || o.K == "reuse") && rng.Bool(0.4) {
					o.Pad = rng.Pick(150, 700, 3000)
					if sc.NetBuf > 0 && sc.NetBuf <= 512 {
						o.Pad = rng.Pick(150, 700)
					}
				}
			}
		}
	}
	ids := []string{}
	seen := map[string]bool{}
	for i := range sc.Clients {
		c := &sc.Clients[i]
		if !seen[c.ID] {
			seen[c.ID] = true
			ids = append(ids, c.ID)
		}
		if rng.Bool(0.3) {
			c.User = rng.PickStr("u", "user@example.org", "ü ser")
			if rng.Bool(0.7) {
				c.Pass = rng.PickStr("p", "pässword with blanks")
			}
		}
		if rng.Bool(0.3) {
			c.KeepS = rng.Pick(3600, 65535)
		}
		c.V31 = rng.Bool(0.15)
		if rng.Bool(0.2) && len(sc.Publishers) > 0 && len(sc.Publishers[0].Pubs) > 0 {
			c.WillT = sc.Publishers[0].Pubs[rng.Intn(len(sc.Publishers[0].Pubs))].T
			c.WillQ = rng.Intn(2)
		}
	}
	if rng.Bool(0.25) {
		shapes := []string{"a/b", "x y", "dev:1", "üñí-✓", "123", "null", "~", "#", "+/x", "%s%d", strings.Repeat("L", 120), "k0 ", "K0", "true", "- x", "{a: b}", "'q'", "\"dq\"", "/mqtt/sessionMgr/clientID/k1", "k1/"}
		perm := rng.Perm(len(shapes))
		ren := map[string]string{}
		for i, id := range ids {
			if rng.Bool(0.6) && i < len(perm) && !seen[shapes[perm[i]]] {
				ren[id] = shapes[perm[i]]
			}
		}
		c15Rename(sc, ren)
	}
	if c15EmptyClientIDs && rng.Bool(0.15) {
		// two different clients that both leave the client id empty
		ren := map[string]string{}
		for _, id := range ids {
			ok := true
			for i := range sc.Clients {
				if sc.Clients[i].ID == id && sc.Clients[i].Persist {
					ok = false
				}
			}
			if ok && len(ren) < 2 {
				ren[id] = fmt.Sprintf("<empty%d>", len(ren))
			}
		}
		if len(ren) == 2 {
			c15Rename(sc, ren)
		}
	}
}

func c15Rename(sc *c15Scenario, ren map[string]string) {
	for i := range sc.Clients {
		if n, ok := ren[sc.Clients[i].ID]; ok {
			sc.Clients[i].ID = n
		}
	}
	for i := range sc.Publishers {
		for j := range sc.Publishers[i].Pubs {
			if n, ok := ren[sc.Publishers[i].Pubs[j].After]; ok {
				sc.Publishers[i].Pubs[j].After = n
			}
		}
	}
}

// c15Shrink proposes scenarios with one scalar knob reset to its plainest value.
func c15Shrink(sci interface{}) []interface{} {
	sc, ok := sci.(*c15Scenario)
	if !ok {
		return nil
	}
	raw, err := json.Marshal(sc)
	if err != nil {
		return nil
	}
	var out []interface{}
	variant := func(edit func(c *c15Scenario) bool) {
		c := &c15Scenario{}
		if json.Unmarshal(raw, c) != nil {
			return
		}
		if edit(c) {
			out = append(out, c)
		}
	}
	variant(func(c *c15Scenario) bool {
		ch := c.NetBuf != 0 || c.Seg != [2]int{} || c.DelayUs != [2]int{}
		c.NetBuf, c.Seg, c.DelayUs = 0, [2]int{}, [2]int{}
		return ch
	})
	variant(func(c *c15Scenario) bool { ch := c.Limit != 0 || c.PipeYield; c.Limit, c.PipeYield = 0, false; return ch })
	variant(func(c *c15Scenario) bool { ch := !c.WaitReady; c.WaitReady = true; return ch })
	for i := range sc.Clients {
		i := i
		variant(func(c *c15Scenario) bool {
			ch := c.Clients[i].StallAfter != 0 || c.Clients[i].StallMs != 0
			c.Clients[i].StallAfter, c.Clients[i].StallMs = 0, 0
			return ch
		})
		variant(func(c *c15Scenario) bool {
			ch := c.Clients[i].End != "" || c.Clients[i].EndGapMs != 0
			c.Clients[i].End, c.Clients[i].EndWhen, c.Clients[i].EndGapMs = "", "", 0
			return ch
		})
		variant(func(c *c15Scenario) bool {
			ch := c.Clients[i].EndGapMs != 0 || c.Clients[i].StartMs != 0 || c.Clients[i].Persist
			c.Clients[i].EndGapMs, c.Clients[i].StartMs, c.Clients[i].Persist = 0, 0, false
			return ch
		})
		for j := range sc.Clients[i].Acks {
			j := j
			variant(func(c *c15Scenario) bool {
				a := &c.Clients[i].Acks[j]
				ch := *a != c15Ack{}
				*a = c15Ack{}
				return ch
			})
		}
		for j := range sc.Clients[i].Ops {
			j := j
			variant(func(c *c15Scenario) bool {
				o := &c.Clients[i].Ops[j]
				ch := o.GapMs != 0
				o.GapMs = 0
				return ch
			})
		}
	}
	for i := range sc.Publishers {
		for j := range sc.Publishers[i].Pubs {
			i, j := i, j
			variant(func(c *c15Scenario) bool {
				p := &c.Publishers[i].Pubs[j]
				ch := p.Burst > 1
				p.Burst = 1
				return ch
			})
			variant(func(c *c15Scenario) bool {
				p := &c.Publishers[i].Pubs[j]
				ch := p.Burst > 3
				p.Burst = p.Burst / 2
				return ch
			})
			variant(func(c *c15Scenario) bool {
				p := &c.Publishers[i].Pubs[j]
				ch := p.GapMs != 0 || p.B64 || !p.Dist
				p.GapMs, p.B64, p.Dist = 0, false, true
				return ch
			})
			variant(func(c *c15Scenario) bool {
				p := &c.Publishers[i].Pubs[j]
				ch := p.After != ""
				p.After = ""
				return ch
			})
		}
	}
	return out
}

// ---- reference: MQTT 3.1.1 §4.7 filter matching -----------------------------

func c15Match(filter, topic string) bool {
	fl := strings.Split(filter, "/")
	tl := strings.Split(topic, "/")
	for i, f := range fl {
		if f == "#" {
			return i == len(fl)-1
		}
		if i >= len(tl) {
			return false
		}
		if f != "+" && f != tl[i] {
			return false
		}
	}
	return len(fl) == len(tl)
}

func c15ValidFilter(f string) bool {
	if f == "" || strings.HasPrefix(f, "$") {
		return false
	}
	l := strings.Split(f, "/")
	for i, x := range l {
		if strings.Contains(x, "#") && (x != "#" || i != len(l)-1) {
			return false
		}
		if strings.Contains(x, "+") && x != "+" {
			return false
		}
	}
	return true
}

func c15ValidTopic(t string) bool {
	return c15ValidFilter(t) && !strings.ContainsAny(t, "+#")
}

const (
	c15None = iota // no matching filter
	c15Low         // matching filters, all with a QoS below the message's
	c15May         // state in flux: both outcomes accepted
	c15Must        // some matching filter with QoS >= q in every possible state
)

type c15Exp struct {
	kind   int
	maxLow int  // highest matching QoS (kind c15Low)
	lower  bool // some matching filter with a QoS below the message's existed
}

func c15Elig(subs map[string]int, topic string, q int) c15Exp {
	e := c15Exp{kind: c15None, maxLow: -1}
	for f, sq := range subs {
		if !c15Match(f, topic) {
			continue
		}
		if sq >= q {
			e.kind = c15Must
		} else {
			e.lower = true
			if sq > e.maxLow {
				e.maxLow = sq
			}
			if e.kind == c15None {
				e.kind = c15Low
			}
		}
	}
	return e
}

func c15Merge(a, b c15Exp) c15Exp {
	out := a
	out.lower = a.lower || b.lower
	if b.maxLow > out.maxLow {
		out.maxLow = b.maxLow
	}
	if a.kind == b.kind {
		return out
	}
	if (a.kind == c15None || a.kind == c15Low) && (b.kind == c15None || b.kind == c15Low) {
		out.kind = c15Low
		return out
	}
	out.kind = c15May
	return out
}

// ---- run state ----------------------------------------------------------------

type c15Msg struct {
	mfault  string // the member look-up made while this message was being published failed this way
	looked  bool   // a member look-up was made while the publish handler was running for this message
	local   bool   // published as not yet distributed: the broker looks its peers up
	key     string
	topic   string
	q       int
	payload []byte
	tick    int
	exp     []c15Exp // per client index
}

type c15Rx struct {
	key       string
	count     int
	mid       uint16
	qos1      bool
	pol       c15Ack
	ackQueued bool
	ackSeq    int
	delaying  bool
	stray     bool // copy that may stem from the predecessor connection's session
}

type c15Pkt struct{ issued, recv int }

type c15CPub struct {
	id       string
	topic    string
	q        int
	mid      uint16
	payload  string
	tick     int
	queued   int // transmissions handed to the connection's writer (the first one and DUP=1 retries)
	sent     int // transmissions written to the connection
	acks     int
	seen     int // times the pipeline was handed this payload
	seenDrop int // ... and dropped it
}

type c15Out struct {
	pkt  packets.ControlPacket
	kind string // sub | pub | puback | ping
	rx   *c15Rx
	cp   *c15CPub
}

type c15Cl struct {
	spec      *c15Client
	idx       int
	name      string  // unique: id.index
	wid       string  // client id on the wire ("<empty...>" stands for the zero-length id)
	pred      *c15Cl  // nearest earlier connection with the same client id
	succ      []*c15Cl
	clean     bool
	connTick  int
	initial   bool          // part of the population publishers wait for
	readyCh   chan struct{} // closed once the initial subscribes are acknowledged (or the connection failed)
	deadCh    chan struct{} // closed when the connection is over on the harness side
	dead      bool
	ending    bool // the harness itself is ending this connection
	supCh     chan struct{} // closed when a successor with the same id was accepted (CONNACK read)
	supOK     bool
	lostOK    bool   // the connection was lost when nothing was owed to it any more
	unjudged  bool   // delivery obligations towards this connection have ceased
	whyUnj    string
	tainted   bool // connected while a delete-watch echo for its id may be pending (known C16 finding)
	unsubbed  bool
	pendUnsub bool
	conn      net.Conn
	connected bool
	lost      string
	confirmed map[string]int
	pendMid   uint16
	pend      []c15Sub
	pendTick  int
	subAckCh  chan struct{}
	hungCh    chan struct{}
	hung      bool
	stalled   bool
	ready     bool
	outbox    []c15Out
	wake      chan struct{}
	rx        map[string]*c15Rx
	rxOrder   []string
	byMid     map[uint16]string
	nQ1       int
	nPub      int
	pkts      []c15Pkt
	ackSeq    int
	confSeq   int
	pingMarks []int
	pingTicks []int
	pingsRecv int
	pubs      map[uint16]*c15CPub // latest PUBLISH of this connection under a packet id
	pubList   []*c15CPub
	nextMid   uint16
	qcap      int
	subFail   bool
	// session of a re-used client id with cleanSession=0
	gets0    int             // session look-ups of the id in the storage before this connection dialled
	restored bool            // the session was decoded from the storage
	inMemory bool            // the predecessor's session object was inherited
	flux     map[string]bool // filters whose state in the inherited session is uncertain (known C16 store lag): both outcomes accepted
	inhF     map[string]bool // filters this connection holds only because its session was inherited
	nInhRx   int
	storeLost bool // when this connection ended, the stored session differed from its acknowledged subscriptions although the session store had come to rest: a snapshot was dropped, not late
	lostSnap  bool // this connection restored such a session
}

// ---- session storage: the repo's mockStorage behind a recording wrapper --------

type c15Get struct {
	hit    bool
	bad    bool
	clean  bool
	topics map[string]int
}

type c15Store struct {
	stop    chan struct{} // closed at the end of the run
	brk     chan struct{} // closing it breaks the current delete watch (the broker sees a closed watch and re-establishes it)
	nWatch  int
	listing bool // the broker has listed the stored sessions after the last break
	in   storage
	gets map[string][]c15Get // per client id: what the broker was handed when it looked a session up
	last map[string]string   // per client id: the stored session as of now
	nPut int
}

var _ storage = (*c15Store)(nil)

func c15StoreID(key string) string { return strings.TrimPrefix(key, sessionStoreKey("")) }

func c15DecodeSession(v string) (c15Get, bool) {
	info := &SessionInfo{}
	if err := yaml.Unmarshal([]byte(v), info); err != nil {
		return c15Get{hit: true, bad: true}, false
	}
	g := c15Get{hit: true, clean: info.CleanFlag, topics: map[string]int{}}
	for f, q := range info.Topics {
		if q > 1 {
			q = 1 // granted QoS (a request for QoS 2 is granted 1); messages have QoS 0/1
		}
		g.topics[f] = q
	}
	return g, true
}

func (s *c15Store) get(key string) (*string, error) {
	v, err := s.in.get(key)
	g := c15Get{}
	if err == nil && v != nil {
		g, _ = c15DecodeSession(*v)
	}
	id := c15StoreID(key)
	s.gets[id] = append(s.gets[id], g)
	return v, err
}

func (s *c15Store) getPrefix(prefix string, keysOnly bool) (map[string]string, error) {
	s.listing = true
	return s.in.getPrefix(prefix, keysOnly)
}

func (s *c15Store) put(key, value string) error {
	s.nPut++
	// (the inner store's lock is a scheduling point: the value counts as stored
	// only once the inner put has returned)
	err := s.in.put(key, value)
	if err == nil {
		s.last[c15StoreID(key)] = value
	}
	return err
}

func (s *c15Store) delete(key string) error {
	delete(s.last, c15StoreID(key))
	return s.in.delete(key)
}

func (s *c15Store) watchDelete(prefix string) (<-chan map[string]*string, func(), error) {
	in, cancel, err := s.in.watchDelete(prefix)
	if err != nil || in == nil || s.stop == nil {
		return in, cancel, err
	}
	s.nWatch++
	out := make(chan map[string]*string)
	brk := make(chan struct{})
	s.brk = brk
	go func() {
		for {
			var m map[string]*string
			select {
			case <-s.stop:
				return
			case <-brk:
				// what etcd clients see when the watch is lost: a nil event
				select {
				case out <- nil:
				case <-s.stop:
				}
				return
			case m = <-in:
			}
			select {
			case out <- m:
			case <-s.stop:
				return
			}
		}
	}()
	return out, cancel, err
}

func c15SameSubs(a, b map[string]int) bool {
	if len(a) != len(b) {
		return false
	}
	for f, q := range a {
		if bq, ok := b[f]; !ok || bq != q {
			return false
		}
	}
	return true
}

type c15PipeRec struct {
	cid     string
	topic   string
	payload string
	qos     int
	mid     uint16
	dup     bool
	dropped bool
}

type c15H struct {
	r        *sim.Run
	sc       *c15Scenario
	net      *simnet.Net
	broker   *Broker
	store    *c15Store
	clients  []*c15Cl
	msgs     map[string]*c15Msg
	msgList  []*c15Msg
	tick     int
	progress int
	pending  int
	stopping bool
	stopCh   chan struct{}
	readyCh  chan struct{}
	nReady   int
	pipeSeen []c15PipeRec
	drop     map[string]bool
	once     map[string]bool
	anyHung  bool
	resends  int
	omitted  int
	nInitial int
	echo     map[string]bool // client ids for which a delete-watch echo may be pending
	churn    bool            // some connection ended, was superseded or unsubscribed
	qcap     int
	probeOut int // polls the current broker-lock probe has been outstanding
	dropNth  map[int]bool
	nMember  int    // cluster member look-ups so far
	mFaults  int    // ... that were answered with an error or an odd list
	curIssue *c15Msg // message whose HTTP publish is being handled right now (the handler is called synchronously)
	probeRun bool
	locked   bool
}

// violate reports each class at most once per run.
func (h *c15H) violate(class, format string, a ...interface{}) {
	if h.once[class] {
		return
	}
	h.once[class] = true
	h.r.Violate(class, format, a...)
}

// memberURL is the broker's view of the cluster: the URLs of the publish
// endpoints of the other members. The scenario's plan makes look-ups fail the
// ways the real one (memberURLFunc) can: error from the cluster store or an
// unparsable member status (empty list + error), a member without peer URL
// (nil + error), or it names peers that are reachable or not.
func (h *c15H) memberURL(egName, name string) ([]string, error) {
	mode := ""
	if n := len(h.sc.Members); n > 0 {
		mode = h.sc.Members[h.nMember%n]
	}
	h.nMember++
	peer := func(i int) string {
		return fmt.Sprintf("http://10.2.0.%d:2381/apis/v1/mqttproxy/%s/topics/publish", 10+i, name)
	}
	if h.curIssue != nil {
		h.curIssue.looked = true
	}
	if mode != "" {
		if h.curIssue != nil {
			h.curIssue.mfault = mode
		}
		h.r.Eventf("member look-up #%d: %s", h.nMember, mode)
	}
	switch mode {
	case "err":
		h.mFaults++
		h.r.Fault("cluster.member_lookup_error")
		return []string{}, fmt.Errorf("c15: cluster get member list failed")
	case "errnil":
		h.mFaults++
		h.r.Fault("cluster.member_without_peer_url")
		return nil, fmt.Errorf("c15: easegress m2 has empty ClusterInitialAdvertisePeerURLs []")
	case "empty":
		h.r.Fault("cluster.member_list_empty")
		return []string{}, nil
	case "peer":
		return []string{peer(0)}, nil
	case "peer-down":
		return []string{peer(1)}, nil
	case "peers2":
		return []string{peer(1), peer(0), peer(1)}, nil
	}
	return nil, nil
}

// c15Peers stands for the other members' admin APIs: 10.2.0.10 accepts the
// transferred publish, every other address is unreachable.
type c15Peers struct{ h *c15H }

func (p c15Peers) RoundTrip(req *http.Request) (*http.Response, error) {
	h := p.h
	if req.Body != nil {
		req.Body.Close()
	}
	if h.stopping {
		return nil, fmt.Errorf("c15: run is over")
	}
	h.r.Yield("c15.peer")
	if req.URL.Hostname() != "10.2.0.10" {
		h.r.Fault("cluster.peer_unreachable")
		return nil, fmt.Errorf("dial tcp %s: connect: connection refused", req.URL.Host)
	}
	h.r.Probe("mqtt.publish_transferred_to_peer")
	return &http.Response{StatusCode: http.StatusOK, Status: "200 OK", Proto: "HTTP/1.1", ProtoMajor: 1, ProtoMinor: 1,
		Header: http.Header{}, Body: http.NoBody, Request: req}, nil
}

// GetHandler implements context.MuxMapper: the only pipeline is the recording
// publish pipeline.
func (h *c15H) GetHandler(name string) (context.Handler, bool) {
	if name == "c15-publish" {
		return h, true
	}
	if name == "c15-any" {
		return c15Any{h}, true
	}
	return nil, false
}

// c15Any is the pass-through pipeline for CONNECT, DISCONNECT, SUBSCRIBE and
// UNSUBSCRIBE packets: it lets everything pass.
type c15Any struct{ h *c15H }

func (a c15Any) Handle(ctx *context.Context) string {
	if req, ok := ctx.GetInputRequest().(*mqttprot.Request); ok {
		a.h.r.Probe(fmt.Sprintf("mqtt.pass_through_pipeline.%s", map[mqttprot.PacketType]string{mqttprot.ConnectType: "connect", mqttprot.DisconnectType: "disconnect",
			mqttprot.SubscribeType: "subscribe", mqttprot.UnsubscribeType: "unsubscribe", mqttprot.PublishType: "publish"}[req.PacketType()]))
	}
	if a.h.sc.PipeYield && !a.h.stopping {
		a.h.r.Yield("c15.anypipe")
	}
	return ""
}

// Handle is the recording backend pipeline.
func (h *c15H) Handle(ctx *context.Context) string {
	req, ok := ctx.GetInputRequest().(*mqttprot.Request)
	if !ok || req.PacketType() != mqttprot.PublishType {
		return ""
	}
	p := req.PublishPacket()
	rec := c15PipeRec{cid: req.Client().ClientID(), topic: p.TopicName, payload: string(p.Payload), qos: int(p.Qos), mid: p.MessageID, dup: p.Dup}
	rec.dropped = h.drop[p.TopicName]
	if h.dropNth[len(h.pipeSeen)+1] {
		rec.dropped = true
		h.r.Fault("pipeline.drops_nth_packet")
	}
	h.pipeSeen = append(h.pipeSeen, rec)
	for _, cl := range h.clients {
		if cl.wid == rec.cid || cl.wid == "" { // (a zero-length id is replaced by one the broker chooses; payloads carry the connection's name)
			for _, cp := range cl.pubList {
				if cp.payload == rec.payload {
					cp.seen++
					if rec.dropped {
						cp.seenDrop++
					}
				}
			}
		}
	}
	h.progress++
	if strings.HasPrefix(rec.payload, "will:") {
		h.r.Probe("mqtt.will_handed_to_pipeline")
	}
	shown := "<assigned by the broker>"
	for _, cl := range h.clients {
		if cl.wid == rec.cid {
			shown = rec.cid
		}
	}
	h.r.Eventf("pipeline %s %s q%d id%d dup=%v drop=%v %q", shown, rec.topic, rec.qos, rec.mid, rec.dup, rec.dropped, c15Short(rec.payload))
	if rec.dropped {
		if resp, ok := ctx.GetOutputResponse().(*mqttprot.Response); ok {
			resp.SetDrop()
		}
	}
	if h.sc.PipeYield {
		h.r.Yield("c15.pipeline")
	}
	return ""
}

func (h *c15H) state2(cl *c15Cl) map[string]int {
	if cl.pend == nil {
		return cl.confirmed
	}
	m := map[string]int{}
	for f, q := range cl.confirmed {
		m[f] = q
	}
	for _, s := range cl.pend {
		if cl.pendUnsub {
			delete(m, s.F)
		} else {
			m[s.F] = s.Q
		}
	}
	return m
}

func (h *c15H) expFor(cl *c15Cl, m *c15Msg) c15Exp {
	if cl.pred != nil && (!cl.connected || m.tick < cl.connTick) {
		// issued before this connection of a re-used client id was accepted: a
		// fan-out that still saw the predecessor's filters may end up here
		e := c15Elig(cl.confirmed, m.topic, m.q)
		e.kind = c15May
		return e
	}
	a := c15Elig(cl.settled(cl.confirmed), m.topic, m.q)
	if cl.pend != nil {
		a = c15Merge(a, c15Elig(cl.settled(h.state2(cl)), m.topic, m.q))
	}
	if a.kind != c15Must {
		for f := range cl.flux {
			if c15Match(f, m.topic) {
				// the inherited session may or may not hold this filter
				a.kind = c15May
				break
			}
		}
	}
	return a
}

// settled returns the subscriptions without the filters whose state in an
// inherited session is uncertain.
func (cl *c15Cl) settled(m map[string]int) map[string]int {
	if len(cl.flux) == 0 {
		return m
	}
	out := map[string]int{}
	for f, q := range m {
		if !cl.flux[f] {
			out[f] = q
		}
	}
	return out
}

// accepted returns the nearest earlier connection of the same client id that
// the broker accepted.
func (cl *c15Cl) accepted() *c15Cl {
	for p := cl.pred; p != nil; p = p.pred {
		if p.connected {
			return p
		}
	}
	return nil
}

// inheritSession works out, at the CONNACK of a cleanSession=0 connection of a
// re-used client id, which subscriptions its session brings along. The source
// of the session is read off the storage stub: a look-up during the handshake
// that was answered with a stored persistent session means "restored from the
// storage" (the subscriptions are those of the stored session), no look-up
// means the broker still had a session in memory (the predecessor's).
func (h *c15H) inheritSession(cl *c15Cl) {
	r := h.r
	if cl.clean || cl.pred == nil {
		return
	}
	all := h.store.gets[cl.wid]
	if cl.gets0 > len(all) {
		cl.gets0 = len(all)
	}
	gets := all[cl.gets0:]
	pr := cl.accepted()
	want, wantFlux := map[string]int{}, map[string]bool{}
	if pr != nil && !pr.clean {
		want, wantFlux = pr.confirmed, pr.flux
	}
	adopt := func(have map[string]int) {
		for f, q := range have {
			cl.confirmed[f] = q
			cl.inhF[f] = true
		}
		for f := range wantFlux {
			cl.flux[f] = true
		}
	}
	switch {
	case len(gets) > 1:
		h.unjudge(cl, "several session look-ups during its handshake")
		r.Probe("mqtt.persistent_reconnect_ambiguous_lookup")
	case len(gets) == 1 && gets[0].hit && !gets[0].bad && !gets[0].clean:
		cl.restored = true
		r.Probe("mqtt.session_restored_from_storage")
		r.Fault("session.dropped_from_memory_then_restored")
		if len(gets[0].topics) > 0 {
			r.Probe("mqtt.session_restored_from_storage_with_subscriptions")
		}
		adopt(gets[0].topics)
		if pr != nil && !pr.clean && pr.pend == nil && pr.storeLost && !c15SameSubs(gets[0].topics, want) {
			// the session store was at rest when the predecessor left and still
			// lacked what had been acknowledged: not the known store lag. The
			// client holds what its SUBACKs/UNSUBACKs said.
			for f := range cl.confirmed {
				delete(cl.confirmed, f)
				delete(cl.inhF, f)
			}
			adopt(want)
			cl.lostSnap = true
			r.Probe("mqtt.restored_session_lost_acknowledged_state")
			r.Eventf("client %s: session restored from storage %s but acknowledged %s (snapshot never stored)", cl.name, c15Subs(gets[0].topics), c15Subs(want))
			break
		}
		lag := false
		for f, q := range gets[0].topics {
			if wq, ok := want[f]; !ok || wq != q {
				cl.flux[f], lag = true, true
			}
		}
		for f := range want {
			if _, ok := gets[0].topics[f]; !ok {
				cl.flux[f], lag = true, true
			}
		}
		if pr == nil || pr.clean || pr.pend != nil {
			for f := range gets[0].topics {
				cl.flux[f] = true
			}
			if pr != nil {
				for _, s := range pr.pend {
					cl.flux[s.F] = true
				}
			}
		}
		if lag {
			// known C16 findings (store lag): not judged here
			r.Probe("mqtt.restored_session_differs_from_acknowledged_subscriptions")
		}
		r.Eventf("client %s: session restored from storage %s flux=%d", cl.name, c15Subs(gets[0].topics), len(cl.flux))
	case len(gets) == 1:
		r.Probe("mqtt.persistent_reconnect_without_stored_session")
	default:
		// the broker found a session in its memory
		switch {
		case pr == nil || pr.pend != nil:
			h.unjudge(cl, "inherited a session of unknown content")
			r.Probe("mqtt.persistent_reconnect_unknown_session")
		case pr.clean:
			r.Probe("mqtt.persistent_reconnect_discards_clean_session")
		default:
			cl.inMemory = true
			adopt(pr.confirmed)
			r.Probe("mqtt.session_inherited_in_memory")
			r.Eventf("client %s: session inherited in memory %s", cl.name, c15Subs(pr.confirmed))
		}
	}
}

// subChanged weakens the expectations of all messages already issued: from now
// on the client has been in one more state since they were issued.
func (h *c15H) subChanged(cl *c15Cl) {
	for _, m := range h.msgList {
		m.exp[cl.idx] = c15Merge(m.exp[cl.idx], h.expFor(cl, m))
	}
}

func (h *c15H) enqueue(cl *c15Cl, o c15Out) {
	cl.outbox = append(cl.outbox, o)
	select {
	case cl.wake <- struct{}{}:
	default:
	}
}

func (h *c15H) markReady(cl *c15Cl) {
	if cl.ready {
		return
	}
	cl.ready = true
	close(cl.readyCh)
	if cl.initial {
		h.nReady++
		if h.nReady == h.nInitial {
			close(h.readyCh)
		}
	}
}

func (h *c15H) markDead(cl *c15Cl) {
	if !cl.dead {
		cl.dead = true
		close(cl.deadCh)
	}
}

// unjudge ends the delivery obligations towards a connection.
func (h *c15H) unjudge(cl *c15Cl, why string) {
	if !cl.unjudged {
		cl.unjudged = true
		cl.whyUnj = why
	}
}

// ---- client tasks -------------------------------------------------------------

func (h *c15H) runClient(cl *c15Cl) {
	r := h.r
	fail := func(format string, a ...interface{}) {
		if !h.stopping {
			cl.lost = fmt.Sprintf(format, a...)
			cl.lostOK = cl.unjudged || h.echo[cl.spec.ID]
			r.Eventf("client %s: %s", cl.name, cl.lost)
		}
		h.markReady(cl)
		h.markDead(cl)
		h.pending--
		h.progress++
	}
	// start condition: waiting for the predecessor is not harness activity
	if cl.pred != nil && (cl.spec.After == "ready" || cl.spec.After == "gone") {
		h.pending--
		ch := cl.pred.readyCh
		if cl.spec.After == "gone" {
			ch = cl.pred.deadCh
		}
		select {
		case <-ch:
		case <-h.stopCh:
			h.markReady(cl)
			h.markDead(cl)
			return
		}
		h.pending++
		h.progress++
	}
	// connect at pairwise distinct instants: the resend tickers of the sessions
	// then never fire at the same instant (goroutines woken by timers at the
	// same instant run in an irreproducible order).
	r.Sleep(time.Duration(cl.spec.StartMs)*time.Millisecond + time.Duration(313+2889*cl.idx)*time.Microsecond)
	if h.stopping {
		fail("stopped")
		return
	}
	for p := cl.pred; p != nil; p = p.pred {
		if !p.dead {
			// from now on the broker may close the older connection at any time
			h.unjudge(p, "superseded by "+cl.name)
			h.churn = true
			r.Probe("mqtt.takeover_of_open_connection")
		} else {
			r.Probe("mqtt.reconnect_after_end")
		}
	}
	cl.gets0 = len(h.store.gets[cl.wid])
	conn, err := h.net.Dial(gocontext.Background(), "tcp", "10.2.0.1:1883")
	if err != nil {
		fail("dial: %v", err)
		return
	}
	cl.conn = conn
	cp := packets.NewControlPacket(packets.Connect).(*packets.ConnectPacket)
	cp.ProtocolName, cp.ProtocolVersion = "MQTT", 4
	if cl.spec.V31 {
		cp.ProtocolName, cp.ProtocolVersion = "MQIsdp", 3
		r.Probe("mqtt.connect_mqtt31")
	}
	cp.ClientIdentifier = cl.wid
	cp.CleanSession = cl.clean
	cp.Keepalive = 0
	if cl.spec.KeepS >= 3600 {
		// far beyond the run's length including scheduler stalls (20 x 60 s)
		cp.Keepalive = uint16(cl.spec.KeepS)
		r.Probe("mqtt.connect_with_keepalive")
	}
	if cl.spec.User != "" {
		cp.UsernameFlag, cp.Username = true, cl.spec.User
		if cl.spec.Pass != "" {
			cp.PasswordFlag, cp.Password = true, []byte(cl.spec.Pass)
		}
		r.Probe("mqtt.connect_with_credentials")
	}
	if c15ValidTopic(cl.spec.WillT) && (cl.spec.WillQ == 0 || cl.spec.WillQ == 1) {
		cp.WillFlag, cp.WillTopic, cp.WillQos, cp.WillMessage = true, cl.spec.WillT, byte(cl.spec.WillQ), []byte("will:"+cl.name)
		r.Probe("mqtt.connect_with_will")
	}
	if err := cp.Write(conn); err != nil {
		fail("write CONNECT: %v", err)
		return
	}
	pk, err := packets.ReadPacket(conn)
	if err != nil {
		fail("read CONNACK: %v", err)
		return
	}
	ack, ok := pk.(*packets.ConnackPacket)
	if !ok || ack.ReturnCode != packets.Accepted {
		fail("CONNECT answered by %v", pk)
		return
	}
	cl.connected = true
	h.tick++
	cl.connTick = h.tick
	cl.qcap = h.qcap
	for p := cl.pred; p != nil; p = p.pred {
		if !p.supOK {
			p.supOK = true
			close(p.supCh)
		}
	}
	if h.echo[cl.spec.ID] {
		// known C16 finding: the delete-watch echo of an earlier clean session
		// of this id may disconnect this connection at any time
		cl.tainted = true
		h.unjudge(cl, "a delete-watch echo for its client id may be pending")
		r.Probe("mqtt.connection_exposed_to_delete_echo")
	}
	if cl.pred != nil {
		h.inheritSession(cl)
		h.subChanged(cl)
	}
	r.Eventf("client %s connected (clean=%v)", cl.name, cl.clean)
	h.progress++
	r.Go("w."+cl.name, func() { h.runWriter(cl) })
	r.Go("s."+cl.name, func() { h.runScript(cl) })
	defer h.markDead(cl)
	for {
		pk, err := packets.ReadPacket(conn)
		if err != nil {
			if !h.stopping && !cl.ending && cl.lost == "" {
				cl.lost = fmt.Sprintf("read: %v", err)
				cl.lostOK = cl.unjudged
				r.Eventf("client %s lost its connection: %v", cl.name, err)
				h.progress++
			}
			return
		}
		if h.stopping {
			return
		}
		h.progress++
		switch p := pk.(type) {
		case *packets.SubackPacket:
			h.tick++
			if cl.pend != nil && !cl.pendUnsub && p.MessageID == cl.pendMid {
				cl.pkts = append(cl.pkts, c15Pkt{cl.pendTick, h.tick})
				for i, s := range cl.pend {
					cl.confirmed[s.F] = s.Q
					delete(cl.flux, s.F)
					delete(cl.inhF, s.F)
					if !c15CheckSubackCodes {
						continue
					}
					// the SUBACK tells the client which QoS its subscription has
					switch {
					case len(p.ReturnCodes) != len(cl.pend):
						h.violate("C15.suback-return-code", "client %s: SUBACK %d carries %d return codes for a SUBSCRIBE with %d filters %s", cl.name, p.MessageID, len(p.ReturnCodes), len(cl.pend), c15SubList(cl.pend))
					case p.ReturnCodes[i] == 0x80:
						cl.flux[s.F] = true
						r.Probe("mqtt.suback_failure_code")
					case int(p.ReturnCodes[i]) > s.Q:
						h.violate("C15.suback-return-code", "client %s: SUBACK %d grants QoS %d for filter %q which was requested with QoS %d (return codes %v for %s): the client is told it holds a subscription it does not have", cl.name, p.MessageID, p.ReturnCodes[i], s.F, s.Q, p.ReturnCodes, c15SubList(cl.pend))
					default:
						cl.confirmed[s.F] = int(p.ReturnCodes[i])
					}
				}
				cl.pend = nil
				h.subChanged(cl)
				r.Eventf("client %s SUBACK %d", cl.name, p.MessageID)
				select {
				case cl.subAckCh <- struct{}{}:
				default:
				}
			} else {
				h.violate("C15.other", "client %s: SUBACK with id %d without such a SUBSCRIBE outstanding", cl.name, p.MessageID)
			}
		case *packets.UnsubackPacket:
			h.tick++
			if cl.pend != nil && cl.pendUnsub && p.MessageID == cl.pendMid {
				cl.pkts = append(cl.pkts, c15Pkt{cl.pendTick, h.tick})
				for _, s := range cl.pend {
					delete(cl.confirmed, s.F)
					delete(cl.flux, s.F)
					delete(cl.inhF, s.F)
				}
				cl.pend, cl.pendUnsub = nil, false
				h.subChanged(cl)
				r.Eventf("client %s UNSUBACK %d", cl.name, p.MessageID)
				select {
				case cl.subAckCh <- struct{}{}:
				default:
				}
			} else {
				h.violate("C15.other", "client %s: UNSUBACK with id %d without such an UNSUBSCRIBE outstanding", cl.name, p.MessageID)
			}
		case *packets.PublishPacket:
			h.onPublish(cl, p)
			if cl.hung {
				<-h.stopCh
				return
			}
		case *packets.PubackPacket:
			h.tick++
			cp := cl.pubs[p.MessageID]
			r.Eventf("client %s PUBACK %d", cl.name, p.MessageID)
			if cp == nil || cp.q != 1 {
				h.violate("C15.puback-unexpected-id", "client %s received PUBACK with packet id %d but sent no QoS1 PUBLISH with that id (sent: %s)", cl.name, p.MessageID, h.pubIDs(cl))
			} else {
				cp.acks++
				cl.pkts = append(cl.pkts, c15Pkt{cp.tick, h.tick})
				if cp.acks > 1 {
					r.Probe("mqtt.client_publish_acked_twice")
				}
			}
		case *packets.PingrespPacket:
			h.tick++
			cl.pingsRecv++
			if cl.pingsRecv <= len(cl.pingMarks) {
				cl.confSeq = cl.pingMarks[cl.pingsRecv-1]
				cl.pkts = append(cl.pkts, c15Pkt{cl.pingTicks[cl.pingsRecv-1], h.tick})
			} else {
				h.violate("C15.other", "client %s: PINGRESP without PINGREQ", cl.name)
			}
		default:
			h.violate("C15.other", "client %s received unexpected packet %s", cl.name, pk.String())
		}
	}
}

func (h *c15H) pubIDs(cl *c15Cl) string {
	var s []string
	for _, cp := range cl.pubList {
		s = append(s, fmt.Sprintf("%d(q%d)", cp.mid, cp.q))
	}
	return strings.Join(s, ",")
}

func (h *c15H) onPublish(cl *c15Cl, p *packets.PublishPacket) {
	r := h.r
	h.tick++
	now := h.tick
	key := string(p.Payload)
	m := h.msgs[key]
	r.Eventf("client %s <- PUBLISH %s q%d id%d %q", cl.name, p.TopicName, p.Qos, p.MessageID, c15Short(key))
	if m == nil {
		h.violate("C15.payload-corrupt", "client %s received PUBLISH topic %q qos %d with payload %q that no publisher issued", cl.name, p.TopicName, p.Qos, key)
		return
	}
	cl.pkts = append(cl.pkts, c15Pkt{m.tick, now})
	if p.TopicName != m.topic {
		h.violate("C15.wrong-topic", "client %s received message %q on topic %q, it was published on %q", cl.name, c15Short(key), p.TopicName, m.topic)
	}
	e := m.exp[cl.idx]
	switch e.kind {
	case c15None:
		h.violate("C15.unsubscribed-delivery", "client %s received message %q (topic %q, qos %d) but none of its filters %s matches the topic", cl.name, c15Short(key), m.topic, m.q, c15Subs(h.state2(cl)))
	case c15Low:
		if int(p.Qos) > e.maxLow {
			h.violate("C15.qos-above-subscription", "client %s received message %q at QoS %d; its matching filters grant at most QoS %d (message QoS %d, filters %s)", cl.name, c15Short(key), p.Qos, e.maxLow, m.q, c15Subs(h.state2(cl)))
		} else {
			r.Probe("mqtt.downgraded_copy_to_lower_qos_subscriber")
		}
	}
	if cl.restored && e.kind == c15Must && m.tick >= cl.connTick {
		own := false
		for f, q := range cl.confirmed {
			if !cl.inhF[f] && q >= m.q && c15Match(f, m.topic) {
				own = true
			}
		}
		if !own {
			cl.nInhRx++
			r.Probe("mqtt.restored_session.delivery_on_restored_subscription")
		}
	}
	rx := cl.rx[key]
	first := rx == nil
	if first {
		rx = &c15Rx{key: key}
		cl.rx[key] = rx
		cl.rxOrder = append(cl.rxOrder, key)
	}
	rx.count++
	cl.nPub++
	defer h.maybeStall(cl)
	if p.Qos == 0 {
		if m.q == 1 && e.kind == c15Must {
			h.violate("C15.qos-downgraded", "client %s (eligible: filters %s) received QoS1 message %q as QoS0", cl.name, c15Subs(h.state2(cl)), c15Short(key))
		}
		if !first {
			r.Probe("mqtt.qos0_duplicate")
		}
		return
	}
	if m.q == 0 {
		h.violate("C15.wrong-qos", "client %s received QoS0 message %q as QoS%d", cl.name, c15Short(key), p.Qos)
		return
	}
	if cl.pred != nil && m.tick < cl.connTick && !rx.qos1 {
		// issued before this connection of a re-used client id was accepted: the
		// copy may come from the predecessor's (discarded) session, with that
		// session's packet ids and without retransmission (session take-over is
		// C16's subject). A white-box look decides how the harness client treats
		// it, not whether anything is wrong: if the id's current session holds
		// this very message under this packet id, it is an ordinary message of
		// this connection; otherwise it is neither acknowledged (the id could
		// belong to another message of the new session) nor judged.
		if rx.stray || !h.ownedBySession(cl, p) {
			rx.stray = true
			r.Probe("mqtt.copy_from_predecessor_session")
			return
		}
		r.Probe("mqtt.pre_takeover_message_in_successor_session")
	}
	if !rx.qos1 {
		rx.qos1 = true
		rx.mid = p.MessageID
		if other, ok := cl.byMid[p.MessageID]; ok && other != key && !cl.rx[other].ackQueued {
			h.violate("C15.packet-id-reused", "client %s: packet id %d carries message %q while message %q with the same id is still unacknowledged", cl.name, p.MessageID, c15Short(key), c15Short(other))
		}
		cl.byMid[p.MessageID] = key
		if len(cl.spec.Acks) > 0 {
			rx.pol = cl.spec.Acks[cl.nQ1%len(cl.spec.Acks)]
		}
		cl.nQ1++
	} else if rx.mid != p.MessageID {
		h.violate("C15.resend-changed-packet-id", "client %s: message %q first came with packet id %d, a later copy with %d", cl.name, c15Short(key), rx.mid, p.MessageID)
	}
	if rx.ackSeq > 0 && rx.ackSeq <= cl.confSeq {
		h.violate("C15.resend-after-ack", "client %s: copy #%d of QoS1 message %q (packet id %d) arrived after the broker had processed its PUBACK (a PINGRESP for a PINGREQ sent after that PUBACK was already received)", cl.name, rx.count, c15Short(key), rx.mid)
		return
	}
	if rx.count > 1 {
		h.resends++
		r.Probe("mqtt.qos1_resend_seen")
		if cl.restored {
			r.Probe("mqtt.restored_session.qos1_resend_seen")
		}
		if cl.inMemory {
			r.Probe("mqtt.inherited_session.qos1_resend_seen")
		}
	}
	if rx.ackQueued {
		r.Probe("mqtt.copy_between_puback_and_its_processing")
		return
	}
	if rx.count <= rx.pol.Omit {
		h.omitted++
		r.Probe("mqtt.puback_omitted")
		if cl.restored {
			r.Probe("mqtt.restored_session.puback_omitted")
		}
		return
	}
	if rx.pol.DelayMs > 0 {
		if !rx.delaying {
			rx.delaying = true
			h.pending++
			r.Probe("mqtt.puback_delayed")
			d := time.Duration(rx.pol.DelayMs) * time.Millisecond
			r.Go(fmt.Sprintf("a.%s.%d", cl.name, cl.nQ1), func() {
				r.Sleep(d)
				h.queueAck(cl, rx)
				h.pending--
			})
		}
		return
	}
	h.queueAck(cl, rx)
}

// ownedBySession tells whether the session currently registered for the
// connection's client id has this message pending under this packet id.
func (h *c15H) ownedBySession(cl *c15Cl, p *packets.PublishPacket) bool {
	v, ok := h.broker.sessMgr.sessionMap.Load(cl.wid)
	if !ok {
		return false
	}
	sess, ok := v.(*Session)
	if !ok || sess == nil {
		return false
	}
	pm, ok := sess.pending[p.MessageID]
	return ok && pm != nil && pm.Topic == p.TopicName && pm.B64Payload == base64.StdEncoding.EncodeToString(p.Payload)
}

func (h *c15H) queueAck(cl *c15Cl, rx *c15Rx) {
	if rx.ackQueued || h.stopping {
		return
	}
	rx.ackQueued = true
	h.progress++
	n := 1
	if rx.pol.Dup {
		n = 2
		h.r.Probe("mqtt.puback_duplicated")
	}
	for i := 0; i < n; i++ {
		pa := packets.NewControlPacket(packets.Puback).(*packets.PubackPacket)
		pa.MessageID = rx.mid
		h.enqueue(cl, c15Out{pkt: pa, kind: "puback", rx: rx})
	}
	if rx.pol.Ping {
		h.enqueue(cl, c15Out{pkt: packets.NewControlPacket(packets.Pingreq), kind: "ping"})
	}
}

func (h *c15H) maybeStall(cl *c15Cl) {
	sp := cl.spec
	if cl.stalled || sp.StallAfter <= 0 || cl.nPub < sp.StallAfter || sp.StallMs == 0 || h.stopping {
		return
	}
	cl.stalled = true
	if sp.StallMs < 0 {
		cl.hung = true
		h.anyHung = true
		close(cl.hungCh)
		h.r.Fault("client.stops_reading_for_good")
		h.r.Eventf("client %s stops reading for good", sp.ID)
		return
	}
	h.r.Fault("client.read_stall")
	h.r.Eventf("client %s stops reading for %dms", sp.ID, sp.StallMs)
	h.pending++
	h.r.Sleep(time.Duration(sp.StallMs) * time.Millisecond)
	h.pending--
	h.progress++
}

func (h *c15H) runWriter(cl *c15Cl) {
	for {
		for len(cl.outbox) == 0 {
			select {
			case <-cl.wake:
			case <-h.stopCh:
				return
			case <-cl.deadCh:
				return
			}
		}
		h.r.Yield("c15.write")
		if h.stopping || cl.dead {
			return
		}
		if len(cl.outbox) == 0 {
			continue
		}
		o := cl.outbox[0]
		cl.outbox = cl.outbox[1:]
		switch o.kind {
		case "puback":
			cl.ackSeq++
			if o.rx.ackSeq == 0 {
				o.rx.ackSeq = cl.ackSeq
			}
			h.r.Eventf("client %s -> PUBACK %d", cl.name, o.rx.mid)
		case "ping":
			h.tick++
			cl.pingMarks = append(cl.pingMarks, cl.ackSeq)
			cl.pingTicks = append(cl.pingTicks, h.tick)
		case "pub":
			if o.cp != nil {
				o.cp.sent++
			}
		}
		if err := o.pkt.Write(cl.conn); err != nil {
			if !h.stopping && !cl.ending && cl.lost == "" {
				cl.lost = fmt.Sprintf("write: %v", err)
				cl.lostOK = cl.unjudged
				h.r.Eventf("client %s lost its connection on write: %v", cl.name, err)
			}
			return
		}
		h.progress++
		if o.kind == "disconnect" {
			cl.conn.Close()
			h.markDead(cl)
			return
		}
	}
}

// subscribe sends one SUBSCRIBE (or UNSUBSCRIBE) and waits for its
// acknowledgement; at most one is outstanding per connection.
func (h *c15H) subscribe(cl *c15Cl, subs []c15Sub, unsub bool) bool {
	var ok []c15Sub
	for _, s := range subs {
		if c15ValidFilter(s.F) && (s.Q == 0 || s.Q == 1 || (s.Q == 2 && !unsub)) {
			ok = append(ok, s)
		}
	}
	if len(ok) == 0 {
		return true
	}
	cl.nextMid++
	mid := cl.nextMid
	var pkt packets.ControlPacket
	if unsub {
		up := packets.NewControlPacket(packets.Unsubscribe).(*packets.UnsubscribePacket)
		up.MessageID = mid
		for _, s := range ok {
			up.Topics = append(up.Topics, s.F)
		}
		pkt = up
		cl.unsubbed = true
		h.churn = true
	} else {
		sp := packets.NewControlPacket(packets.Subscribe).(*packets.SubscribePacket)
		sp.MessageID = mid
		for _, s := range ok {
			sp.Topics = append(sp.Topics, s.F)
			sp.Qoss = append(sp.Qoss, byte(s.Q))
		}
		pkt = sp
	}
	h.tick++
	cl.pend, cl.pendUnsub, cl.pendMid, cl.pendTick = ok, unsub, mid, h.tick
	h.subChanged(cl)
	if unsub {
		h.r.Eventf("client %s -> UNSUBSCRIBE %d %s", cl.name, mid, c15SubList(ok))
	} else {
		h.r.Eventf("client %s -> SUBSCRIBE %d %s", cl.name, mid, c15SubList(ok))
	}
	h.enqueue(cl, c15Out{pkt: pkt, kind: "sub"})
	select {
	case <-cl.subAckCh:
		return true
	case <-h.stopCh:
		cl.subFail = cl.pend != nil
		return false
	case <-cl.hungCh:
		return false
	case <-cl.deadCh:
		return false
	}
}

// endConn ends the connection the way the scenario says.
func (h *c15H) endConn(cl *c15Cl) {
	r := h.r
	sp := cl.spec
	if sp.End == "" || cl.hung || cl.dead {
		return
	}
	if sp.EndWhen == "superseded" {
		if len(cl.succ) == 0 {
			return
		}
		h.pending-- // waiting for another connection is not activity of this one
		select {
		case <-cl.supCh:
		case <-h.stopCh:
		case <-cl.deadCh:
		}
		h.pending++
	}
	r.Sleep(time.Duration(sp.EndGapMs) * time.Millisecond)
	if h.stopping || cl.dead {
		return
	}
	if !cl.clean && sp.End != "ping" && len(cl.succ) > 0 && !cl.succ[0].clean && !cl.supOK {
		// a persistent client that is going to come back for its session gives
		// the (asynchronous) session store a moment to catch up with what was
		// acknowledged; what is still missing then is the known store lag of C16.
		for i := 0; i < 40 && !h.stopping && !cl.dead; i++ {
			if g, ok := c15DecodeSession(h.store.last[cl.wid]); ok && c15SameSubs(g.topics, cl.confirmed) {
				break
			}
			if i == 0 {
				r.Probe("mqtt.session_store_behind_at_disconnect")
			}
			r.Sleep(time.Millisecond)
		}
		caughtUp := func() bool {
			g, ok := c15DecodeSession(h.store.last[cl.wid])
			return ok && c15SameSubs(g.topics, cl.confirmed)
		}
		if !caughtUp() && !h.stopping && !cl.dead {
			// late or dropped? Wait until the session store has come to rest: 21
			// consecutive polls of 300 ms without any put (at most 20 scheduler
			// stalls per run: in one of those intervals every snapshot goroutine
			// that was still on its way and the storing loop have run).
			r.Probe("mqtt.session_store_behind_after_40ms")
			same, lastPut := 0, h.store.nPut
			for it := 0; it < 80 && same < 21 && !h.stopping && !cl.dead && !caughtUp(); it++ {
				r.Sleep(300 * time.Millisecond)
				if h.store.nPut != lastPut {
					lastPut, same = h.store.nPut, 0
				} else {
					same++
				}
			}
			if same >= 21 && !caughtUp() && !h.stopping && !cl.dead {
				cl.storeLost = true
				r.Probe("mqtt.session_snapshot_never_stored")
				r.Eventf("client %s: stored session %q differs from the acknowledged subscriptions %s with the store at rest", cl.name, h.store.last[cl.wid], c15Subs(cl.confirmed))
			}
		}
		if h.stopping || cl.dead {
			return
		}
	}
	if sp.End == "ping" {
		// lets the read loop of a superseded connection notice that it is closed
		if cl.supOK {
			r.Probe("mqtt.superseded_connection_sends_pingreq")
			h.enqueue(cl, c15Out{pkt: packets.NewControlPacket(packets.Pingreq), kind: "ping"})
		}
		return
	}
	cl.ending = true
	h.unjudge(cl, "ended by the client ("+sp.End+")")
	h.churn = true
	if cl.clean && !cl.supOK {
		// its teardown deletes the stored session: the delete-watch echo may
		// hit a later connection of this id (known C16 finding)
		h.echo[sp.ID] = true
	}
	if cl.supOK {
		r.Probe("mqtt.superseded_connection_ends_later")
	}
	r.Eventf("client %s ends: %s", cl.name, sp.End)
	r.Fault("client.ends_" + sp.End)
	h.progress++
	switch sp.End {
	case "disconnect":
		h.enqueue(cl, c15Out{pkt: packets.NewControlPacket(packets.Disconnect), kind: "disconnect"})
	case "reset":
		if sc, ok := cl.conn.(*simnet.Conn); ok {
			sc.Reset()
		} else {
			cl.conn.Close()
		}
		h.markDead(cl)
	default:
		cl.conn.Close()
		h.markDead(cl)
	}
}

func (h *c15H) runScript(cl *c15Cl) {
	r := h.r
	defer func() {
		h.markReady(cl)
		h.pending--
		h.progress++
	}()
	for _, sp := range cl.spec.Init {
		if !h.subscribe(cl, sp.Subs, false) {
			return
		}
	}
	h.markReady(cl)
	for _, op := range cl.spec.Ops {
		if h.stopping || cl.hung || cl.lost != "" || cl.dead {
			return
		}
		r.Sleep(time.Duration(op.GapMs) * time.Millisecond)
		if h.stopping || cl.dead {
			return
		}
		switch op.K {
		case "sub", "unsub":
			if len(cl.succ) > 0 {
				// a connection that is going to be superseded does not change its
				// subscriptions any more: a SUBSCRIBE processed after the take-over
				// would act on the successor's client id (C16's domain)
				continue
			}
			if op.K == "sub" {
				r.Probe("mqtt.late_subscribe")
			} else {
				r.Probe("mqtt.unsubscribe")
			}
			if !h.subscribe(cl, op.Subs, op.K == "unsub") {
				return
			}
		case "repub":
			// MQTT 3.1.1 4.4: the sender of a QoS1 PUBLISH that has seen no PUBACK
			// sends it again with DUP=1 and the same packet id
			var cp *c15CPub
			for _, x := range cl.pubList {
				if x.q == 1 {
					cp = x
				}
			}
			if cp == nil || cp.acks >= cp.queued || cp.queued >= 4 {
				continue
			}
			pp := packets.NewControlPacket(packets.Publish).(*packets.PublishPacket)
			pp.MessageID, pp.Qos, pp.TopicName, pp.Payload, pp.Dup = cp.mid, 1, cp.topic, []byte(cp.payload), true
			cp.queued++
			r.Probe("mqtt.client_publish_retry_with_dup")
			r.Eventf("client %s -> PUBLISH %s q1 id%d DUP (transmission %d, %d PUBACKs so far)", cl.name, cp.topic, cp.mid, cp.queued, cp.acks)
			h.enqueue(cl, c15Out{pkt: pp, kind: "pub", cp: cp})
		case "pub", "reuse":
			if !c15ValidTopic(op.T) || op.Q < 0 || op.Q > 1 || op.ID == "" {
				continue
			}
			pp := packets.NewControlPacket(packets.Publish).(*packets.PublishPacket)
			reused := false
			if op.K == "reuse" && op.Q == 1 {
				// a new message under the packet id of the latest QoS1 PUBLISH, which
				// is free again once every transmission of that one was acknowledged
				var last *c15CPub
				for _, x := range cl.pubList {
					if x.q == 1 {
						last = x
					}
				}
				if last != nil && last.acks >= 1 && last.acks >= last.queued && cl.pubs[last.mid] == last {
					pp.MessageID, reused = last.mid, true
					r.Probe("mqtt.client_publish_reuses_acknowledged_packet_id")
				}
			}
			if !reused {
				cl.nextMid++
				pp.MessageID = cl.nextMid
			}
			pp.Qos = byte(op.Q)
			pp.TopicName = op.T
			if op.Ret {
				pp.Retain = true
				r.Probe("mqtt.client_publish_with_retain")
			}
			payload := fmt.Sprintf("cp:%s:%s:%d:%d", cl.name, op.ID, pp.MessageID, len(cl.pubList)) + c15Pad(op.Pad)
			pp.Payload = []byte(payload)
			h.tick++
			cp := &c15CPub{id: op.ID, topic: op.T, q: op.Q, mid: pp.MessageID, payload: payload, tick: h.tick, queued: 1}
			cl.pubs[pp.MessageID] = cp
			cl.pubList = append(cl.pubList, cp)
			r.Eventf("client %s -> PUBLISH %s q%d id%d", cl.name, op.T, op.Q, pp.MessageID)
			h.enqueue(cl, c15Out{pkt: pp, kind: "pub", cp: cp})
		}
	}
	h.endConn(cl)
}

// ---- publisher tasks ------------------------------------------------------------

func (h *c15H) issue(p *c15Pub, k int) {
	key := fmt.Sprintf("m:%s#%d", p.ID, k) + c15Pad(p.Pad)
	if p.Pad > 0 {
		h.r.Probe("mqtt.http_publish_padded_payload")
	}
	payload := []byte(key)
	if p.B64 {
		payload = append([]byte{0xff, 0x00, 0x80, '\n'}, payload...)
		key = string(payload)
	}
	if h.msgs[key] != nil {
		return
	}
	m := &c15Msg{key: key, topic: p.T, q: p.Q, payload: payload, exp: make([]c15Exp, len(h.clients))}
	h.tick++
	m.tick = h.tick
	for _, cl := range h.clients {
		m.exp[cl.idx] = h.expFor(cl, m)
	}
	h.msgs[key] = m
	h.msgList = append(h.msgList, m)
	data := HTTPJsonData{Topic: p.T, QoS: p.Q, Payload: string(payload), Base64: p.B64, Distributed: p.Dist}
	if p.B64 {
		data.Payload = base64.StdEncoding.EncodeToString(payload)
	}
	body, _ := json.Marshal(data)
	req := httptest.NewRequest(http.MethodPost, "/apis/v1/mqttproxy/c15/topics/publish", bytes.NewReader(body))
	w := httptest.NewRecorder()
	h.r.Eventf("http publish %s q%d %q", p.T, p.Q, c15Short(key))
	h.progress++
	m.local = !p.Dist
	h.curIssue = m
	h.broker.httpTopicsPublishHandler(w, req)
	h.curIssue = nil
	if m.mfault != "" {
		h.r.Probe("mqtt.http_publish_with_member_lookup_" + m.mfault)
	}
	if w.Code != http.StatusOK {
		h.violate("C15.http-publish-rejected", "publish of topic %q qos %d answered with status %d: %s", p.T, p.Q, w.Code, w.Body.String())
	}
}

func (h *c15H) runPublisher(pb *c15Publisher) {
	defer func() { h.pending--; h.progress++ }()
	if h.sc.WaitReady {
		select {
		case <-h.readyCh:
		case <-h.stopCh:
			return
		}
	}
	for i := range pb.Pubs {
		p := &pb.Pubs[i]
		if !c15ValidTopic(p.T) || p.Q < 0 || p.Q > 1 || p.ID == "" {
			continue
		}
		if p.After != "" {
			var w *c15Cl
			for _, cl := range h.clients {
				if cl.spec.ID == p.After && (w == nil || !p.First) {
					w = cl
				}
			}
			if w != nil && !w.ready {
				h.pending-- // waiting for a connection is not activity of the publisher
				select {
				case <-w.readyCh:
				case <-h.stopCh:
				}
				h.pending++
				h.progress++
			}
			if h.stopping {
				return
			}
			if w != nil && w.restored && w.connected && !w.dead {
				h.r.Probe("mqtt.restored_session.publish_after_restore")
			}
		}
		h.r.Sleep(time.Duration(p.GapMs) * time.Millisecond)
		n := p.Burst
		if n < 1 {
			n = 1
		}
		if n > 200 {
			n = 200
		}
		if n >= 20 {
			h.r.Probe("mqtt.burst_of_20_or_more")
		}
		for k := 0; k < n; k++ {
			if h.stopping || h.r.Aborted() {
				return
			}
			h.issue(p, k)
			// always a gate between two publishes: a long stretch without one
			// (120 handler calls) can exceed the Go runtime's 10 ms preemption
			// quantum under load, which reorders the piled-up fan-out
			// goroutines irreproducibly.
			if k+1 < n {
				h.r.Yield("c15.burst")
			}
		}
	}
}

// ---- oracle at quiescence -------------------------------------------------------

func c15Short(key string) string {
	if i := strings.Index(key, "|pad"); i >= 0 {
		key = fmt.Sprintf("%s|+%dB", key[:i], len(key)-i)
	}
	if i := strings.Index(key, "m:"); i > 0 {
		return "b64:" + key[i:]
	}
	return key
}

// c15Pad returns n bytes of padding.
func c15Pad(n int) string {
	if n <= 0 {
		return ""
	}
	if n > 20000 {
		n = 20000
	}
	var b strings.Builder
	b.WriteString("|pad")
	for i := 0; b.Len() < n; i++ {
		fmt.Fprintf(&b, "%d.", i)
	}
	return b.String()[:max(n, 4)]
}

func c15Subs(m map[string]int) string {
	var k []string
	for f := range m {
		k = append(k, f)
	}
	sort.Strings(k)
	var s []string
	for _, f := range k {
		s = append(s, fmt.Sprintf("%s:q%d", f, m[f]))
	}
	return "{" + strings.Join(s, " ") + "}"
}

func c15SubList(l []c15Sub) string {
	var s []string
	for _, x := range l {
		s = append(s, fmt.Sprintf("%s:q%d", x.F, x.Q))
	}
	return "[" + strings.Join(s, " ") + "]"
}

// ackedByLineage tells whether an earlier connection of the same client id,
// whose session object this connection inherited in memory, has sent a PUBACK
// for this very message under this packet id: the client has acknowledged it
// then, whichever of its connections carried the PUBACK.
func (h *c15H) ackedByLineage(cl *c15Cl, rx *c15Rx) bool {
	for c := cl; c != nil && c.inMemory; {
		p := c.accepted()
		if p == nil {
			return false
		}
		if prx := p.rx[rx.key]; prx != nil && prx.qos1 && !prx.stray && prx.mid == rx.mid && prx.ackSeq > 0 {
			return true
		}
		c = p
	}
	return false
}

// c15Wire maps a scenario client id to the id used on the wire.
func c15Wire(id string) string {
	if strings.HasPrefix(id, "<empty") {
		return ""
	}
	return id
}

// limited tells whether a client publish limiter is configured.
func (h *c15H) limited() bool { return h.sc.Limit > 0 || h.sc.LimitBytes > 0 }

// satisfied tells whether every obligation of the run is already met.
func (h *c15H) satisfied() bool {
	for _, cl := range h.clients {
		if cl.hung || cl.lost != "" || !cl.connected || cl.unjudged {
			continue
		}
		for _, m := range h.msgList {
			if m.exp[cl.idx].kind == c15Must && cl.rx[m.key] == nil {
				return false
			}
		}
		for _, key := range cl.rxOrder {
			rx := cl.rx[key]
			if rx.qos1 && !rx.stray && (rx.ackSeq == 0 || (rx.pol.Ping && rx.ackSeq > cl.confSeq)) {
				if rx.ackSeq == 0 && !rx.delaying && h.ackedByLineage(cl, rx) {
					continue
				}
				return false
			}
		}
		for _, cp := range cl.pubList {
			if cp.q == 1 && (cp.acks < cp.seen-cp.seenDrop || (!h.limited() && cp.seen < cp.queued)) {
				return false
			}
		}
	}
	return true
}

// maxOccFrom returns max over t >= from of the number of packets the client
// received after t that had been requested at or before t.
func (cl *c15Cl) maxOccFrom(from, end int) int {
	delta := make([]int, end+3)
	for _, p := range cl.pkts {
		if p.issued < 0 || p.recv <= p.issued {
			continue
		}
		delta[p.issued]++
		delta[p.recv]--
	}
	occ, best := 0, 0
	for t := 0; t <= end; t++ {
		occ += delta[t]
		if t >= from && occ > best {
			best = occ
		}
	}
	return best
}

// population summarises what happened to the connections of the run.
func (h *c15H) population() string {
	var s []string
	for _, cl := range h.clients {
		st := "stays"
		switch {
		case !cl.connected:
			st = "never accepted"
		case cl.ending:
			st = "ended by " + cl.spec.End
		case cl.lost != "":
			st = "closed by the broker"
		case cl.unjudged:
			st = cl.whyUnj
		}
		if cl.unsubbed {
			st += ", unsubscribed something"
		}
		s = append(s, cl.name+": "+st)
	}
	return strings.Join(s, "; ")
}

func (h *c15H) describe(m *c15Msg) string {
	var s []string
	for _, cl := range h.clients {
		got := "missing"
		if rx := cl.rx[m.key]; rx != nil {
			got = fmt.Sprintf("%d copies", rx.count)
		}
		st := ""
		if cl.hung {
			st = " (stopped reading)"
		}
		if cl.unjudged {
			st += " (not judged: " + cl.whyUnj + ")"
		}
		s = append(s, fmt.Sprintf("%s%s filters %s -> %s", cl.name, st, c15Subs(h.state2(cl)), got))
	}
	return strings.Join(s, "; ")
}

func (h *c15H) evaluate() {
	r := h.r
	// a connection that inherited the session object of its predecessor in
	// memory (take-over with cleanSession=0) is the same subscriber: QoS1
	// messages the client has received but never acknowledged are still pending
	// and must be retransmitted to it - to its current connection - until it
	// acknowledges them, whether or not anything else is published meanwhile
	for _, cl := range h.clients {
		pr := cl.accepted()
		if !cl.inMemory || cl.clean || !cl.connected || pr == nil || pr.clean || cl.ending || cl.lost != "" || cl.hung || cl.unjudged || cl.dead {
			continue
		}
		for _, key := range pr.rxOrder {
			rx := pr.rx[key]
			if !rx.qos1 || rx.stray || rx.ackSeq != 0 || h.ackedByLineage(pr, rx) {
				continue
			}
			if cl.rx[key] != nil {
				r.Probe("mqtt.inherited_session.unacked_message_retransmitted_to_new_connection")
				continue
			}
			h.violate("C15.unacked-message-not-retransmitted-after-takeover", "QoS1 message %q (packet id %d) was delivered to connection %s (%d copies) and never acknowledged by the client; connection %s took the client id over with cleanSession=0 and inherited the session in memory, stayed connected, and never got a retransmission\n%s",
				c15Short(key), rx.mid, pr.name, rx.count, cl.name, h.population())
		}
	}
	// statement silent (recorded, not judged): QoS1 copies a persistent client
	// had not acknowledged when it ended its connection, after its return on a
	// session restored from the storage
	for _, cl := range h.clients {
		pr := cl.accepted()
		if cl.clean || !cl.connected || pr == nil || pr.clean || !pr.ending || !(cl.restored || cl.inMemory) || cl.ending || cl.lost != "" || cl.hung {
			continue
		}
		for _, key := range pr.rxOrder {
			rx := pr.rx[key]
			if !rx.qos1 || rx.stray || rx.ackSeq != 0 {
				continue
			}
			how := "restored"
			if cl.inMemory {
				how = "inherited"
			}
			if cl.rx[key] != nil {
				r.Probe("mqtt.unacked_qos1_of_ended_connection_redelivered_on_" + how + "_session")
			} else {
				r.Probe("mqtt.unacked_qos1_of_ended_connection_not_redelivered_on_" + how + "_session")
			}
		}
	}
	for _, cl := range h.clients {
		if cl.restored && cl.connected && cl.nQ1 > 0 && cl.maxOccFrom(cl.connTick, h.tick) >= cl.qcap {
			r.Probe("mqtt.restored_session.qos1_while_outbound_queue_possibly_full")
		}
	}
	for _, cl := range h.clients {
		if cl.lost != "" {
			if !cl.lostOK {
				h.violate("C15.unexpected-disconnect", "client %s, which follows the protocol, whose client id nobody else used meanwhile and which did not end the connection itself, lost its connection: %s\n%s", cl.name, cl.lost, h.population())
			} else {
				r.Probe("mqtt.unjudged_connection_closed_by_broker")
			}
			continue
		}
		if !cl.connected || cl.hung || cl.unjudged {
			continue
		}
		if cl.pend != nil {
			what := "SUBSCRIBE"
			if cl.pendUnsub {
				what = "UNSUBSCRIBE"
			}
			h.violate("C15.suback-missing", "client %s: %s %d %s was never acknowledged", cl.name, what, cl.pendMid, c15SubList(cl.pend))
		}
		for _, m := range h.msgList {
			e := m.exp[cl.idx]
			if e.kind != c15Must {
				if e.kind == c15May {
					r.Probe("mqtt.publish_while_subscription_in_flux")
				}
				continue
			}
			if cl.rx[m.key] != nil {
				continue
			}
			otherLower, hungMatched := "", ""
			for _, o := range h.clients {
				if o == cl {
					continue
				}
				if m.exp[o.idx].lower && otherLower == "" {
					otherLower = o.name
				}
				if o.hung && (m.exp[o.idx].kind == c15Must || m.exp[o.idx].kind == c15May) && hungMatched == "" {
					hungMatched = o.name
				}
			}
			if m.q == 0 {
				occ := cl.maxOccFrom(m.tick, h.tick)
				if occ >= cl.qcap {
					r.Probe("mqtt.qos0_dropped_queue_full")
					continue
				}
				if m.local && (m.mfault == "err" || m.mfault == "errnil" || (!m.looked && h.mFaults > 0)) && hungMatched == "" {
					h.violate("C15.local-delivery-lost-on-member-lookup-failure", "QoS0 message %q on %q, published as not yet distributed, never reached eligible client %s (at most %d packets can have been waiting in its outbound queue of capacity %d); the cluster member look-up of this publish: %q, failed look-ups in this run: %d; local delivery must not depend on the peers\n%s",
						c15Short(m.key), m.topic, cl.name, occ, cl.qcap, m.mfault, h.mFaults, h.describe(m))
					continue
				}
				if cl.lostSnap && hungMatched == "" {
					h.violate("C15.acknowledged-subscription-lost-in-session-store", "QoS0 message %q on %q never reached eligible client %s (at most %d packets can have been waiting in its outbound queue of capacity %d): its session was restored from the storage, where the snapshot with its acknowledged subscriptions never arrived although the session store had come to rest before the client left (a snapshot was dropped, not late)\n%s",
						c15Short(m.key), m.topic, cl.name, occ, cl.qcap, h.describe(m))
					continue
				}
				if hungMatched != "" {
					h.violate("C15.fanout-blocked-by-unresponsive-subscriber", "QoS0 message %q on %q never reached eligible client %s (subscriber %s stopped reading while staying connected; at most %d packets can have been waiting in %s's outbound queue of capacity %d)\n%s",
						c15Short(m.key), m.topic, cl.name, hungMatched, occ, cl.name, cl.qcap, h.describe(m))
					continue
				}
				h.violate("C15.qos0-lost-queue-not-full", "QoS0 message %q on %q never reached eligible client %s although at most %d packets can have been waiting in its outbound queue (capacity %d) from the publish on\n%s",
					c15Short(m.key), m.topic, cl.name, occ, cl.qcap, h.describe(m))
				continue
			}
			class := "C15.missing-delivery"
			why := "no other connection changed"
			if h.churn {
				class = "C15.delivery-lost-after-subscriber-churn"
				why = "this connection stayed connected and subscribed while other connections unsubscribed, ended or were replaced: " + h.population()
			}
			switch {
			case hungMatched != "":
				class = "C15.fanout-blocked-by-unresponsive-subscriber"
				why = "subscriber " + hungMatched + " stopped reading while staying connected"
			case cl.lostSnap:
				class = "C15.acknowledged-subscription-lost-in-session-store"
				why = "its session was restored from the storage, where the snapshot with its acknowledged subscriptions never arrived although the session store had come to rest before the client left (a snapshot was dropped, not late)"
			case m.local && (m.mfault == "err" || m.mfault == "errnil" || (!m.looked && h.mFaults > 0)):
				class = "C15.local-delivery-lost-on-member-lookup-failure"
				why = fmt.Sprintf("published as not yet distributed; the cluster member look-up of this publish: %q, failed look-ups in this run: %d; local delivery must not depend on the peers", m.mfault, h.mFaults)
			case h.churn:
			case e.lower:
				class = "C15.overlap-lower-qos-filter-shadows"
				why = "the client itself also holds a matching filter with a lower QoS"
			case otherLower != "":
				class = "C15.fanout-stops-at-lower-qos-subscriber"
				why = "subscriber " + otherLower + " matches the topic with a QoS below the message's"
			}
			h.violate(class, "QoS1 message %q on %q never reached eligible client %s (%s)\n%s", c15Short(m.key), m.topic, cl.name, why, h.describe(m))
		}
		for _, key := range cl.rxOrder {
			rx := cl.rx[key]
			if rx.qos1 && !rx.stray && !rx.ackQueued && !rx.delaying {
				if h.ackedByLineage(cl, rx) {
					r.Probe("mqtt.inherited_session.acknowledged_through_superseded_connection")
					continue
				}
				h.violate("C15.retransmission-stopped-before-ack", "client %s received %d copies of QoS1 message %q (packet id %d) and acknowledges the copy #%d; nothing was retransmitted any more although no PUBACK was sent",
					cl.name, rx.count, c15Short(key), rx.mid, rx.pol.Omit+1)
			}
		}
		for _, cp := range cl.pubList {
			seen, seenDrop := 0, 0
			for _, rec := range h.pipeSeen {
				if (rec.cid == cl.wid || cl.wid == "") && rec.payload == cp.payload {
					seen++
					if rec.dropped {
						seenDrop++
					}
					if rec.topic != cp.topic || rec.qos != cp.q || (cp.q == 1 && rec.mid != cp.mid) {
						h.violate("C15.client-publish-altered", "client %s PUBLISH %q q%d id%d reached the pipeline as %q q%d id%d", cl.name, cp.topic, cp.q, cp.mid, rec.topic, rec.qos, rec.mid)
					}
				}
			}
			if seen > cp.sent {
				h.violate("C15.backend-duplicate", "client %s PUBLISH id %d was sent %d time(s) but handed to the pipeline %d times", cl.name, cp.mid, cp.sent, seen)
			}
			if cp.q != 1 {
				continue
			}
			if cp.sent > 1 {
				r.Probe("mqtt.client_qos1_publish_sent_more_than_once")
			}
			if cp.acks > 0 && seen == 0 {
				// the PUBACK tells the client that the broker took the message over
				h.violate("C15.client-publish-acked-not-forwarded", "client %s QoS1 PUBLISH id %d on %q (%d transmission(s), the retries with DUP=1) got %d PUBACK(s) but was never handed to the publish pipeline (limiter: %d/s)", cl.name, cp.mid, cp.topic, cp.sent, cp.acks, h.sc.Limit)
				continue
			}
			if seen < cp.sent {
				if h.limited() {
					r.Probe("mqtt.client_publish_refused_by_limiter")
					if seen > 0 && cp.sent > 1 {
						r.Probe("mqtt.client_publish_retry_passed_after_limiter_drop")
					}
				} else {
					h.violate("C15.client-publish-not-forwarded", "client %s QoS1 PUBLISH id %d on %q was sent %d time(s) (retries with DUP=1 and the same id) but handed to the publish pipeline only %d time(s) (no limiter configured)", cl.name, cp.mid, cp.topic, cp.sent, seen)
					continue
				}
			}
			if seenDrop > 0 {
				r.Probe("mqtt.client_publish_dropped_by_pipeline")
				if seen > seenDrop {
					r.Probe("mqtt.client_publish_retry_passed_after_pipeline_drop")
				}
			}
			if cp.acks > seen {
				// more PUBACKs than hand-overs although it was handed over: a
				// broker that answers a retry of a message it already took over
				// without handing it over again; not judged
				r.Probe("mqtt.client_publish_more_pubacks_than_handovers")
			}
			if cp.acks < seen-seenDrop {
				h.violate("C15.client-publish-not-acked", "client %s QoS1 PUBLISH id %d on %q was handed to the pipeline %d time(s) (%d dropped there) but only %d PUBACK(s) with id %d arrived", cl.name, cp.mid, cp.topic, seen, seenDrop, cp.acks, cp.mid)
			} else if seen > seenDrop {
				r.Probe("mqtt.client_qos1_publish_acked")
			}
		}
	}
}

var c15LoggerReady bool

func c15Exec(r *sim.Run, sci interface{}) {
	sc := sci.(*c15Scenario)
	if len(sc.Clients) == 0 {
		return
	}
	if !c15LoggerReady {
		logger.InitNop()
		c15LoggerReady = true
	}
	r.MultiClass = true
	h := &c15H{r: r, sc: sc, msgs: map[string]*c15Msg{}, drop: map[string]bool{}, once: map[string]bool{}, echo: map[string]bool{}}
	h.stopCh = make(chan struct{})
	h.readyCh = make(chan struct{})
	for _, t := range sc.DropTopics {
		h.drop[t] = true
	}
	last := map[string]*c15Cl{}
	nth := map[string]int{}
	for i := range sc.Clients {
		c := &sc.Clients[i]
		if c.ID == "" || len(h.clients) >= 10 {
			continue
		}
		cl := &c15Cl{spec: c, idx: len(h.clients), name: c.ID, wid: c15Wire(c.ID), confirmed: map[string]int{}, subAckCh: make(chan struct{}, 1),
			hungCh: make(chan struct{}), wake: make(chan struct{}, 1), rx: map[string]*c15Rx{}, byMid: map[uint16]string{}, pubs: map[uint16]*c15CPub{},
			readyCh: make(chan struct{}), deadCh: make(chan struct{}), supCh: make(chan struct{}), flux: map[string]bool{}, inhF: map[string]bool{}}
		nth[c.ID]++
		if p := last[c.ID]; p != nil {
			cl.pred = p
			cl.name = fmt.Sprintf("%s~%d", c.ID, nth[c.ID])
			for q := p; q != nil; q = q.pred {
				q.succ = append(q.succ, cl)
			}
		}
		cl.clean = !c.Persist
		cl.initial = cl.pred == nil && c.StartMs == 0
		if cl.initial {
			h.nInitial++
		}
		last[c.ID] = cl
		h.clients = append(h.clients, cl)
	}
	if len(h.clients) == 0 {
		return
	}
	if h.nInitial == 0 {
		close(h.readyCh)
	}

	h.net = simnet.New()
	if sc.NetBuf > 0 {
		h.net.BufferSize = sc.NetBuf
		if h.net.BufferSize < 64 {
			h.net.BufferSize = 64
		}
	}
	h.net.PlanFor = func(id int, addr string) (simnet.DirPlan, simnet.DirPlan) {
		mk := func(i int) simnet.DirPlan {
			p := simnet.DirPlan{}
			if sc.Seg[i] > 0 {
				p.SegSizes = []int{sc.Seg[i]}
			}
			if sc.DelayUs[i] > 0 {
				p.Delays = []time.Duration{time.Duration(sc.DelayUs[i]) * time.Microsecond}
			}
			return p
		}
		return mk(0), mk(1)
	}
	simnet.SetDefault(h.net)
	defer simnet.SetDefault(nil)

	spec := &Spec{Name: "c15", EGName: "c15", Port: 1883,
		Rules: []*Rule{{When: &When{PacketType: Publish}, Pipeline: "c15-publish"}}}
	if h.limited() {
		spec.ClientPublishLimit = &RateLimit{RequestRate: sc.Limit, BytesRate: sc.LimitBytes, TimePeriod: sc.LimitPer}
		if sc.Limit > 0 && sc.LimitPer == 0 {
			spec.ClientPublishLimit.TimePeriod = 1
		}
		if sc.LimitBytes > 0 {
			r.Probe("mqtt.publish_limiter_with_bytes_rate")
		}
	}
	for _, pt := range sc.Pipes {
		switch PacketType(pt) {
		case Connect, Disconnect, Subscribe, Unsubscribe:
			dup := false
			for _, ru := range spec.Rules {
				dup = dup || ru.When.PacketType == PacketType(pt)
			}
			if !dup {
				spec.Rules = append(spec.Rules, &Rule{When: &When{PacketType: PacketType(pt)}, Pipeline: "c15-any"})
			}
		}
	}
	if sc.TopicCache > 0 {
		spec.TopicCacheSize = sc.TopicCache
		r.Probe("mqtt.small_topic_cache")
	}
	if sc.MaxConn > 0 {
		// one slot per connection of the scenario: a connection that takes a
		// client id over is counted in addition to the one it replaces by the
		// broker's early check (checkConnectPermission; caps are C17's subject)
		spec.MaxAllowedConnection = len(h.clients) + sc.MaxConn - 1
		r.Probe("mqtt.max_allowed_connection_set")
	}
	if sc.ConnLimit[0] >= 50 || sc.ConnLimit[1] >= 10000 {
		cl := &RateLimit{TimePeriod: sc.ConnLimit[2]}
		if sc.ConnLimit[0] >= 50 {
			cl.RequestRate = sc.ConnLimit[0]
		}
		if sc.ConnLimit[1] >= 10000 {
			cl.BytesRate = sc.ConnLimit[1]
		}
		spec.ConnectionLimit = cl
		r.Probe("mqtt.connection_limit_set")
	}
	h.store = &c15Store{stop: h.stopCh, in: newStorage(nil), gets: map[string][]c15Get{}, last: map[string]string{}}
	h.dropNth = map[int]bool{}
	for _, n := range sc.DropNth {
		h.dropNth[n] = true
	}
	// the peers of the (mocked) cluster are reached through http.DefaultClient
	oldTransport := http.DefaultClient.Transport
	http.DefaultClient.Transport = c15Peers{h}
	defer func() { http.DefaultClient.Transport = oldTransport }()
	h.broker = newBroker(spec, h.store, h, h.memberURL)
	if h.broker == nil {
		h.net.Shutdown()
		panic("c15: newBroker returned nil")
	}
	h.qcap = cap(newClient(&packets.ConnectPacket{}, h.broker, nil, nil).writeCh)
	if h.qcap < 1 {
		h.qcap = 1
	}

	for _, cl := range h.clients {
		cl := cl
		h.pending++
		r.Go("c."+cl.name, func() { h.runClient(cl) })
	}
	for i := range sc.Publishers {
		pb := &sc.Publishers[i]
		h.pending++
		r.Go(fmt.Sprintf("p.%d", i), func() { h.runPublisher(pb) })
	}
	if sc.WatchBrk > 0 {
		h.pending++
		r.Go("wb", func() {
			defer func() { h.pending--; h.progress++ }()
			h.pending--
			select {
			case <-h.readyCh:
			case <-h.stopCh:
			}
			h.pending++
			r.Sleep(time.Duration(sc.WatchBrk)*time.Millisecond + 157*time.Microsecond)
			if h.stopping || h.store.brk == nil {
				return
			}
			// the broker lists the stored sessions and closes every connection
			// that has none: connections whose session has not reached the
			// (asynchronous) store by now, or that connect while this is going
			// on, are not judged any more (store lag, C16)
			for _, cl := range h.clients {
				if _, stored := h.store.last[cl.wid]; !(cl.connected && stored) && !cl.dead {
					h.unjudge(cl, "not connected with a stored session when the session watch was re-established")
					cl.lostOK = true
				}
			}
			r.Fault("store.delete_watch_lost")
			r.Eventf("session delete watch breaks")
			h.store.listing = false
			close(h.store.brk)
			for i := 0; i < 50 && !h.stopping && !h.store.listing; i++ {
				r.Sleep(time.Millisecond)
			}
			if h.store.listing {
				r.Probe("mqtt.session_watch_reestablished")
			}
		})
	}

	// wait for quiescence
	idle, calm, lastProg := 0, 0, -1
	quiet := false // the run came to rest (the oracle judges at quiescence)
	for it := 0; it < 1500; it++ {
		r.Sleep(300 * time.Millisecond)
		if r.Aborted() {
			break
		}
		// probe the broker lock: a read lock that is not granted during 21
		// polls (at least one of them without a scheduler stall) never will be
		if h.probeRun {
			h.probeOut++
			if h.probeOut >= 21 {
				h.locked = true
				h.violate("C15.broker-deadlock", "the broker lock could not be read-locked during %d polls of 300 ms: the broker is deadlocked, nothing is delivered any more\n%s", h.probeOut, h.population())
				break
			}
		} else {
			h.probeRun, h.probeOut = true, 0
			go func() {
				h.broker.getClient("c15-probe")
				h.probeRun = false
			}()
		}
		busy := h.pending > 0 || h.progress != lastProg
		lastProg = h.progress
		if busy {
			idle, calm = 0, 0
			continue
		}
		idle++
		if idle >= 21 {
			quiet = true
			break
		}
		if h.satisfied() {
			calm++
			if calm >= 3 {
				quiet = true
				break
			}
		} else {
			calm = 0
		}
	}
	if !r.Aborted() && !h.locked {
		if quiet {
			h.evaluate()
		} else {
			// 1500 polls (7.5 min of virtual time) and still packets in motion: a
			// backlog of retransmissions on a link slower than the resend rate.
			// Nothing can be said about obligations that are still open.
			r.Probe("mqtt.run_cut_off_before_quiescence")
		}
	}

	// coverage
	multi, mixed := false, false
	for _, m := range h.msgList {
		must, lower := 0, false
		for _, e := range m.exp {
			if e.kind == c15Must {
				must++
			}
			if e.lower {
				lower = true
			}
		}
		if must >= 2 {
			multi = true
		}
		if m.q == 1 && must >= 1 && lower {
			mixed = true
		}
	}
	if mixed {
		r.Probe("mqtt.qos1_message_with_eligible_and_lower_qos_subscribers")
	}
	if multi {
		r.Probe("mqtt.message_with_two_or_more_eligible_subscribers")
	}
	if multi && (mixed || h.resends > 0) {
		r.Nontrivial()
	}
	var sig strings.Builder
	for _, cl := range h.clients {
		fmt.Fprintf(&sig, "%s%s|", cl.name, c15Subs(cl.confirmed))
		for _, key := range cl.rxOrder {
			fmt.Fprintf(&sig, "%s*%d,", c15Short(key), cl.rx[key].count)
		}
		sig.WriteString(";")
	}
	r.SetSig(sig.String())

	// teardown
	h.stopping = true
	close(h.stopCh)
	for _, cl := range h.clients {
		if cl.conn != nil {
			cl.conn.Close()
		}
	}
	if !h.locked {
		closed := make(chan struct{})
		go func() {
			h.broker.close()
			close(closed)
		}()
	wait:
		for i := 0; i < 40; i++ {
			select {
			case <-closed:
				break wait
			default:
				r.Sleep(50 * time.Millisecond)
			}
		}
	}
	if h.locked {
		// Broker.close would block on the broker lock for ever; end the accept
		// loop (it spins on a closed listener until done is closed) by hand
		h.broker.setClose()
		close(h.broker.done)
	}
	h.net.Shutdown()
	r.WaitTasks()
}

func TestVerifC15(t *testing.T) {
	hdrv.Main(t, &hdrv.Harness{
		ID:       "C15",
		Gen:      c15Gen,
		New:      func() interface{} { return &c15Scenario{} },
		Exec:     c15Exec,
		Shrink:   c15Shrink,
		MaxSteps: 600000,
		DeadlockClass: "C15.deadlock",
		Rule: "scenario = 2-10 raw MQTT connections (in ~55% of the scenarios with unsubscribes, disconnects, late joiners, reconnects and take-overs of client ids - clean or with cleanSession=0: session restored from the storage after a complete teardown or inherited in memory -, prefix-nested filters; in ~30% a recipe: persistent QoS1 subscriber ends, is torn down, returns with cleanSession=0 and only then gets QoS1 publishes whose first transmission is lost by withheld PUBACKs or a burst beyond its outbound queue) with 1-6 overlapping filters of QoS 0/1 over 1-4 topics (1-2 SUBSCRIBE packets, late re-subscriptions), per-client PUBACK behaviours (prompt, omit k, delay, duplicate, +PINGREQ), optional read stall, client PUBLISH ops; 1-2 publishers with 1-8 HTTP publishes each (QoS 0/1, bursts up to 120), limiter/pipeline-drop knobs (drop by topic or the n-th packet; in ~30% client QoS1 PUBLISH sequences with DUP=1 retries of the unacknowledged publish and re-use of an acknowledged packet id), in ~35% a cyclic plan for the cluster member look-up (error, nil+error, empty, reachable/unreachable peers) with most messages published as not yet distributed, simnet buffer/segment/latency plan; independently drawn ordinary options (topic cache size, connection cap and limiter, byte-rate publish limiter, pass-through pipelines, credentials, keep-alive, MQTT 3.1, wills, unusual client ids and topic levels, QoS2 subscription requests, payloads up to 6000 bytes, loss and re-establishment of the session delete watch); " +
			"non-trivial = some message had >=2 eligible subscribers and (a QoS1 message had both eligible and lower-QoS subscribers, or a retransmission was observed); distinct = distinct (final subscriptions, per-client sequence of received messages with copy counts) signatures",
		Real: []string{"pkg/object/mqttproxy: newBroker, Broker.run/handleConn/connectionValidation/setSession, sendMsgToClient, httpTopicsPublishHandler, Client.readLoop/writeLoop/processPacket (SUBSCRIBE, PUBLISH, PUBACK, PINGREQ), pipelineWrapper, Limiter, SessionManager, Session.publish/puback/doResend/backgroundResendPending (200 ms ticker on the virtual clock), TopicManager",
			"pkg/util/ratelimiter (publish limiter)", "github.com/eclipse/paho.mqtt.golang/packets codec on both sides"},
		Stub: []string{"TCP: verif/simkit/simnet through netshim (bounded buffers, segmentation, latency)", "storage: the repo's mockStorage behind a recording wrapper (session look-ups and their answers, puts, deletes)", "publish pipeline: recording context.Handler behind a MuxMapper (may drop by topic)",
			"MQTT clients: harness tasks (reader, single writer, script) speaking raw MQTT 3.1.1", "HTTP: handler called in-process with httptest", "cluster: memberURL callback following the scenario's plan; peers = http.DefaultClient.Transport stub (10.2.0.10 answers 200, others refuse)",
			"sync/atomic of the package -> simsync/simatomic (same semantics + gates); map ranges of the package iterate in a seeded order"},
		Assumptions: []string{
			"a message counts for a client only in the subscription states the client had from the publish on: MUST receive iff eligible in all of them, MUST NOT iff no filter matches in any of them",
			"quiescence = all scripts done and 21 consecutive 300 ms polls without observable event (at most 20 scheduler stalls per run), or every obligation met and 3 idle polls",
			"QoS0 loss is accepted iff, from the publish on, at some instant at least cap(writeCh) packets later received by that client had already been requested (superset of the queue content); bursts longer than the queue therefore tolerate QoS0 loss",
			"a subscriber whose matching filters all have a lower QoS may receive a downgraded copy or nothing; a copy at the message's QoS is a violation",
			"retransmission interval not asserted; copies between the client's PUBACK and a PINGRESP proving its processing are legal; duplicate QoS0 copies not judged",
			"with a publish limiter, 'passed the limiter' is read off the recording pipeline; PUBACK for a PUBLISH the pipeline dropped: both accepted",
			"every transmission of a client QoS1 PUBLISH (first one and DUP=1 retries with the same id) is a PUBLISH of its own: without limiter each must reach the pipeline; PUBACKs >= hand-overs the pipeline did not drop; a PUBACK for a message never handed over is a violation; more PUBACKs than hand-overs for a message that was handed over at least once is accepted (probe)",
			"local delivery must not depend on the cluster member look-up or on the peers; the HTTP status stays 200 when the look-up fails",
			"options that must not change anything are drawn independently: topicCacheSize 1-5, maxAllowedConnection = number of connections of the scenario + 0..3, connectionLimit >= 50 requests / 10000 bytes per period, pass-through pipelines for the other packet types, credentials, keep-alive >= 1 h, MQTT 3.1, wills (not judged), unusual client ids, empty/blank/non-ASCII topic levels (all legal by MQTT 3.1.1 4.7.3), QoS 2 subscription requests (eligible for QoS 0 and 1 messages), RETAIN on client PUBLISH (not judged), payloads up to 6000 bytes",
			"loss of the session delete watch: connections that are connected and whose session is in the storage at that instant must stay connected and go on receiving; the others (store lag, handshake racing the re-listing: C16) are not judged any more",
			fmt.Sprintf("the SUBACK return code of a filter is its subscription QoS (granted more than requested, or another number of codes than filters: C15.suback-return-code; granted less, e.g. 1 for a requested 2: legal) (c15CheckSubackCodes=%v); two clients with zero-length client ids are not generated (c15EmptyClientIDs=%v: one client id for easegress, outside the statement by the owner's decision)", c15CheckSubackCodes, c15EmptyClientIDs),
			"not generated: QoS2, invalid filters, '$' topics, wills, retained, keep-alive expiry (keep-alive 0), storage latency/errors (C16), SUBSCRIBE/UNSUBSCRIBE by a connection that is going to be superseded",
			"cleanSession=0 on a re-used client id: from its CONNACK on the connection holds the subscriptions of the stored session the broker was answered with during the handshake (restored from storage) or the acknowledged subscriptions of the predecessor (no storage look-up: inherited in memory); filters on which a restored session differs from the predecessor's acknowledged state (known C16 store-lag findings) are in flux until the connection (un)subscribes them itself: both outcomes accepted; more than one look-up during a handshake: connection not judged",
			"redelivery until PUBACK is required on restored and inherited sessions like on any other; a PUBACK for the same message and packet id sent on a superseded connection that shares the session object counts as the client's acknowledgement",
			"QoS1 copies unacknowledged when a persistent client ended its connection are not required to be redelivered after its return on a session restored from the storage (statement silent; recorded by probes mqtt.unacked_qos1_of_ended_connection_*); on a session inherited in memory (take-over with cleanSession=0) the connection is the same subscriber: a message the client received and never acknowledged (no PUBACK written on any connection sharing the session) must reach the new connection by retransmission, also when nothing else is published",
			"store lag vs lost snapshot: before a persistent client that will come back ends, it waits for the stored session to equal its acknowledged subscriptions (40 x 1 ms, then up to 80 polls of 300 ms); only if 21 consecutive polls passed without any put and the stored session still differs, the difference is not excused at the restore (the client holds what was acknowledged); otherwise the differing filters are in flux (known C16 store lag)",
			"population dynamics: a connection is judged from its own CONNACK/SUBACK/UNSUBACK on while it stays connected; not judged any more once it ends itself, once another connection with its client id starts to dial, or when it connects while the delete-watch echo of an earlier clean session of its id may be pending (known C16 findings); messages issued before the CONNACK of a re-used id may or may not reach the new connection",
			"a QoS1 copy of a message issued before the CONNACK of a re-used client id is treated as an ordinary message only if the id's current session holds it under that packet id (white-box look, decides the client's behaviour only); otherwise it is neither acknowledged nor judged (it stems from the predecessor's session)",
			"C15.broker-deadlock = Broker.getClient not returning during 21 polls of 300 ms",
			fmt.Sprintf("clients that stop reading for good while connected are generated in the thorough tier, in the quick tier only when c15HangScenarios (=%v); their own deliveries are not judged, a message another client misses in such a run is classed C15.fanout-blocked-by-unresponsive-subscriber when the unresponsive client matches its topic", c15HangScenarios),
		},
	})
}
