//go:build go1.21

package mqttproxy

import (
	"bytes"
	"encoding/json"
	"fmt"
	"os"
	"runtime"
	"runtime/debug"
	"strconv"
	"testing"

	"verif/simkit/sim"
)

// TestC15DetDebug re-executes one seed many times with step tracing and prints
// the first divergence (development aid, not part of the check).
func TestC15DetDebug(t *testing.T) {
	seed, _ := strconv.ParseUint(os.Getenv("C15_SEED"), 10, 64)
	n, _ := strconv.Atoi(os.Getenv("C15_N"))
	if seed == 0 {
		t.Skip()
	}
	debug.SetGCPercent(-1)
	var ref *sim.Result
	for i := 0; i < n; i++ {
		if i%50 == 0 {
			runtime.GC()
		}
		sc0 := c15Gen(sim.NewRand(sim.Mix(seed, 1)), "quick")
		b, _ := json.Marshal(sc0)
		sc := &c15Scenario{}
		json.NewDecoder(bytes.NewReader(b)).Decode(sc)
		res := sim.Execute(t, sim.Options{Seed: sim.Mix(seed, 2), TraceSteps: true, KeepLog: 200000, MaxSteps: 600000}, func(r *sim.Run) { c15Exec(r, sc) })
		if ref == nil {
			ref = res
			fmt.Printf("ref hash %s steps %d loglines %d\n", res.Hash, res.Steps, len(res.Log))
			continue
		}
		if res.Hash != ref.Hash {
			fmt.Printf("iteration %d: hash %s steps %d\n", i, res.Hash, res.Steps)
			for j := 0; j < len(ref.Log) && j < len(res.Log); j++ {
				if ref.Log[j] != res.Log[j] {
					lo := j - 12
					if lo < 0 {
						lo = 0
					}
					for k := lo; k < j; k++ {
						fmt.Printf("    %s\n", ref.Log[k])
					}
					fmt.Printf("  A %s\n  B %s\n", ref.Log[j], res.Log[j])
					for k := j + 1; k < j+4 && k < len(ref.Log) && k < len(res.Log); k++ {
						fmt.Printf("  A+ %s\n  B+ %s\n", ref.Log[k], res.Log[k])
					}
					break
				}
			}
			return
		}
	}
	fmt.Println("no divergence")
}
