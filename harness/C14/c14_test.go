//go:debug asynctimerchan=0
//go:build go1.21

package mqttproxy

// C14 — MQTT topic routing equals MQTT 3.1.1 filter matching over any history.
//
// System under test (all real, nothing instrumented): one TopicManager inside
// a minimal Broker, driven the way the broker drives it: every client task owns
// a real *Client + *Session and calls processSubscribe / processUnsubscribe /
// Client.closeAndDelSession (client.go, session.go); routing is observed with
// TopicManager.findSubscribers, the call Broker.sendMsgToClient makes.
//
// Why lock-step is sound: no production file has gates. Since the fix
// "teardown of a superseded MQTT connection ..." closeAndDelSession (and
// handleConn's setSession) touch the topic tree while holding the broker lock,
// and the sessions' resend tickers take that lock too: a task parked at a
// simulated topic-manager lock would hold the real broker lock (bubble freeze),
// and with the broker lock simulated as well the ticker goroutines become
// scheduled parties and gates appear between an operation's effect and its
// return. For a structure whose every operation is one critical section a gate
// at the lock acquisition adds no interleaving that the task-level gate in
// front of every operation (r.Sleep) does not already give, so the operations
// simply run atomically between task gates; map iteration in topic.go and
// session.go is determinised (map_ranges). The harness updates its reference
// model in the same atomic stretch, so the order of its records IS the
// linearisation order. Every record also carries invoke/return stamps
// (r.Seq()) so that a porcupine check over the same history can be added once
// it is wired in (then with topic.go/broker.go/session.go instrumented and
// stmt_gates). A change that drops Lock/Unlock from subscribe/unsubscribe
// leaves the operations atomic in this cooperative simulation: such a mutant
// is behaviourally equal here and is (correctly) not accused.
//
// Reference model (written from the property statement and MQTT 3.1.1 §4.7,
// not from topic.go): live subscriptions = map client -> filter -> QoS; a
// recursive matcher over '/'-separated levels; validity = '#' only as a whole
// last level, '+' only as a whole level.
//
// Connection life cycle (still no sockets): a client task's connection is made
// the way Broker.handleConn makes it (newClient, Broker.setSession,
// Session.updateEGName, TopicManager.subscribe(session.allSubscribes())), with
// cleanSession=true or false; sessions are persisted by the real
// SessionManager.doStore into the mock storage and come back through
// SessionManager.get/newSessionFromYaml. A disconnect is the teardown of
// readLoop's deferred cleanup (closeAndDelSession + Broker.removeClient),
// optionally preceded by a broker-initiated Client.close() (what a take-over,
// an admin session deletion or a pipeline Disconnect do first). Reference: a
// cleanSession=false connection that finds a stored cleanSession=false session
// holds that session's subscriptions again, each with the QoS of its last
// subscribe; every other connection starts empty and discards what was stored.
// Not generated: a second connection for an id that is still connected
// (take-over interleavings are C16's). A connect and the SUBSCRIBE/UNSUBSCRIBE
// right behind it do take two session snapshots without a scheduling point in
// between (their persistence order is covered by doStore's sequence numbers).
//
// Oracle decisions (statement silent / two readings):
//   * while a client with a cleanSession=false session is away it is NOT in
//     the routing set (the statement counts disconnect among the removals and
//     speaks of "live" subscriptions; its subscriptions are live again from
//     the reconnect on).
//   * empty filter, empty topic name, topic names containing wildcard
//     characters, level strings with control characters: never generated,
//     skipped if present in a scenario ('$' topics: see second wave below).
//   * QoS: when several subscriptions of one client match, any of their QoS
//     values is accepted (the implementation's choice depends on map order).
//   * a SUBSCRIBE consisting only of malformed filters must not be
//     acknowledged and must leave no trace.
//   * a SUBSCRIBE list that mixes valid and malformed filters (generated only
//     in scenarios with mixed=true): the statement does not define partial
//     application, so while the client stays connected each valid filter of
//     such a refused list may or may not route. After the client's disconnect
//     nothing of it may remain ("disconnect" removes everything): a client
//     still routed then is reported as C14.partial-subscribe-residue.
//   * an UNSUBSCRIBE list that mixes valid and malformed filters and IS
//     acknowledged (UNSUBACK): its valid filters are no longer live; if one
//     still routes it is reported as C14.partial-unsubscribe-residue. Without
//     UNSUBACK both outcomes are accepted per filter.
//   * the SUBACK return codes are not compared (not part of the statement).
//   * "no residue": beyond routing, the trie must not keep nodes that carry no
//     client and have no children (C14.residue-nodes), checked white-box after
//     every mutation and after the final disconnect of everybody.
//
// Attribution of the two residue classes uses a white-box lookup ("is (filter,
// client) still in the trie", which only that client's own task can change);
// it decides which class name a routing violation gets and whether a dead
// filter is tolerated after its first report, never whether routing is wrong.
//
// Second wave (ordinary but so far unexplored inputs):
//   * level alphabet: besides {a,b,ab,'',é} a scenario may draw level strings
//     that are plain text for MQTT but special for something a filter travels
//     through (c14Exotic: blanks, YAML indicators and scalars such as ':', '- a',
//     '~', 'null', 'true', '1.5', quotes, upper case twins 'A'/'B', CJK / emoji,
//     130+ byte levels, '$'-prefixed levels, "<<"), and filters / topic names of
//     up to 8-9 levels. A cleanSession=false session is stored as a YAML
//     document whose map keys are the filters: a stored session that cannot be
//     read back makes the resumed connection lose ALL its subscriptions; the
//     routing oracle notices, the class name C14.restore-lost.stored-session-undecodable
//     is chosen by decoding the stored document white-box (attribution only).
//   * '$' topics: a topic name starting with '$' versus a filter whose first
//     level is '+' or '#': MQTT 3.1.1 §4.7.2 says "must not match", the
//     statement's own summary of the rules does not mention it -> both outcomes
//     accepted (probes route.dollar_*). Through a literal first level
//     ('$SYS/#' vs '$SYS/x') '$' is an ordinary character: must match.
//   * how a connection ends: besides the plain teardown and "Client.close()
//     first" there are now two-phase endings with a window in which the other
//     tasks run: Client.close() ... teardown; admin deletion of the session
//     (storage delete + Broker.deleteSession, what httpDeleteSessionHandler ->
//     watchDelete do) ... teardown; the write loop's error path
//     (closeAndDelSession) ... the read loop's teardown (closeAndDelSession +
//     removeClient). In the window the read loop may process ONE more packet
//     (it looks at c.done only before it blocks in ReadPacket, and Client.close()
//     does not close the socket): a SUBSCRIBE or UNSUBSCRIBE.
//     Oracle: during the window the statement is silent (is the client still
//     "live"? does a packet processed now count?) -> everything of that client
//     is optional; a SUBSCRIBE that is acknowledged while only Client.close()
//     has run counts as a subscribe. After the second half the disconnect is
//     complete: nothing of the client may be routed. What a late SUBSCRIBE left
//     behind although the connection's clean-up had already run is reported as
//     C14.late-subscribe-residue (attribution white-box, verdict by routing).
//     For a cleanSession=false session the entries touched in a window (and the
//     whole session after an admin deletion, which the statement does not know)
//     may or may not come back at the next cleanSession=false connect.
//   * "late": a connection that was torn down earlier runs closeAndDelSession
//     (and, half of the time, Broker.removeClient) once more, as its write loop
//     does on a write error: it is history, nothing may change (in particular
//     not the stored session of a later connection with the same id).
//
// Third wave (two more places for the late SUBSCRIBE):
//   * inside the write loop's closeAndDelSession, between its clean-up under the
//     broker lock and the Client.close() that ends it: the real function runs in
//     a goroutine of its own while the harness holds the client's (real) mutex,
//     which stops it exactly at that Client.close(); the SUBSCRIBE is processed,
//     the mutex released, the goroutine awaited - all without a gate.
//   * a closed connection that lingers in Broker.clients (Client.close() only,
//     what reconnectWatcher does to clients whose session vanished) while a new
//     connection of the same id arrives. The successor is made by the REAL
//     Broker.handleConn over a fake socket (one CONNECT packet, then silence),
//     because what handleConn does to its predecessor is the point; it issues no
//     packets and hangs up at the end of the same disconnect operation (its
//     read loop runs the real teardown). In between the superseded connection's
//     read loop processes one SUBSCRIBE and then tears down.
//     Reference: the successor holds the lingering connection's subscriptions
//     exactly if both sessions are cleanSession=false ones (same rule as for a
//     stored session); the superseded connection's SUBSCRIBE is optional while
//     the id is connected (the statement does not say whose it is) and must be
//     gone after the successor left; the superseded teardown changes nothing.
//     Not generated: a late UNSUBSCRIBE of the superseded connection, packets
//     of the successor (take-over histories in general stay C16's).
//
// Fourth wave (handshakes of an unconnected id through the real Broker.handleConn
// over the fake socket; the session manager's storage is the repo's mock behind
// a wrapper that can make ONE read slow):
//   * fconn: the CONNACK cannot be written (every write of the fake socket
//     fails): handleConn has registered the id, resumed its session and restored
//     the session's subscriptions by then and must back out. Also as a variant of
//     the successor connection of the third wave (the successor takes the closed,
//     lingering connection over and then fails). Reference: a connect and a
//     disconnect in one step (the id is not routed afterwards, a
//     cleanSession=false session keeps what it had); whether a failed
//     cleanSession=true CONNECT has discarded the stored session is left open.
//   * race: two CONNECTs of the id race, the first one's session read waits in
//     the storage. Wherever that read happens, the second CONNECT either waits
//     for the first (the read is inside the broker lock) or completes first, in
//     which case it SUBSCRIBEs at once; then the read returns. Whoever registers
//     second takes the other over; the reference follows the observed order with
//     the usual rule (subscriptions live on exactly if both sessions are
//     cleanSession=false). The loser's socket is hung up, the survivor
//     SUBSCRIBEs (its SUBACK is read off the fake socket) and hangs up: after
//     that nothing may be routed, and the next cleanSession=false connect must
//     bring back what was acknowledged. From the start of the race until both
//     handshakes are through no gate is passed (a handshake waiting for the
//     storage inside the broker lock holds a real mutex).
//   Both are skipped when the stored session holds the filter "<<" (known finding).
//
// The trie is additionally walked after every mutating operation and compared
// with the reference; a difference is never a verdict by itself: it only
// selects witness topics that are then published, and the routing oracle
// decides (fallback class C14.state if the difference disappeared meanwhile).

import (
	"bytes"
	"fmt"
	"io"
	"net"
	"runtime"
	"sort"
	"strings"
	"sync/atomic"
	"testing"
	"time"

	"github.com/eclipse/paho.mqtt.golang/packets"
	"github.com/megaease/easegress/pkg/logger"
	"verif/simkit/hdrv"
	"verif/simkit/sim"
)

// ---- scenario ---------------------------------------------------------------

type c14Sub struct {
	F string `json:"f"`
	Q int    `json:"q"`
}

type c14Op struct {
	K     string   `json:"k"` // sub | unsub | disc | conn | pub | late
	Subs  []c14Sub `json:"subs,omitempty"`
	T     string   `json:"t,omitempty"`
	B     bool     `json:"b,omitempty"` // disc: broker-initiated (Client.close() first, teardown afterwards)
	P     bool     `json:"p,omitempty"` // conn: cleanSession=false
	GapUs int64    `json:"gap_us,omitempty"`
	// disc, second wave: how the connection ends (at most one of X, W; both win over B)
	X    bool     `json:"x,omitempty"`    // admin deletion of the session: storage delete + Broker.deleteSession, the connection's own teardown follows later
	W    bool     `json:"w,omitempty"`    // the write loop's error path runs closeAndDelSession first, the read loop's teardown follows later
	Win  bool     `json:"win,omitempty"`  // B: other tasks may run between Client.close() and the teardown
	Late *c14Late `json:"late,omitempty"` // one more packet the read loop still processes between the two halves (it only looks at c.done before it blocks in ReadPacket)
	N    int      `json:"n,omitempty"`    // late: which of the id's earlier, torn-down connections runs its teardown once more
	// third wave
	// fourth wave: fconn = a connection attempt of the (unconnected) id through the real Broker.handleConn whose CONNACK
	// cannot be written (P); race = two such attempts (P, P2) racing while the storage is slow for the first, Subs = SUBSCRIBE
	// on the second if it is through before the first's read returns, Subs2 = SUBSCRIBE on the surviving connection, which then hangs up
	P2    bool     `json:"p2,omitempty"`
	Subs2 []c14Sub `json:"subs2,omitempty"`
	Mid  bool     `json:"mid,omitempty"`  // W with a late SUBSCRIBE: it is processed INSIDE the write loop's closeAndDelSession, after the clean-up under the broker lock and before Client.close()
	Succ *c14Succ `json:"succ,omitempty"` // B with a window: while the closed connection lingers, a new connection of the same id comes (through the real Broker.handleConn) and, after the old one's late SUBSCRIBE and teardown, goes
}

type c14Succ struct {
	P    bool `json:"p,omitempty"`    // cleanSession=false
	Fail bool `json:"fail,omitempty"` // the successor's CONNACK cannot be written: its handshake fails after it has taken the id over
}

type c14Late struct {
	K    string   `json:"k"` // sub | unsub
	Subs []c14Sub `json:"subs,omitempty"`
}

type c14Task struct {
	ID      string  `json:"id"`
	Persist bool    `json:"persist,omitempty"` // cleanSession=false for connections made implicitly by sub/unsub
	Ops     []c14Op `json:"ops"`
}

type c14Scenario struct {
	Cache int       `json:"cache"`
	Mixed bool      `json:"mixed"`
	Tasks []c14Task `json:"tasks"`
	Sweep []string  `json:"sweep"`
}

// c14MixedLists switches the generation of lists that mix valid and malformed
// filters (see header). DESIGN.md §5.6 originally excluded them; they are
// generated in a minority of scenarios because they expose a genuine residue.
const c14MixedLists = true

type c14GenCtx struct {
	rng    *sim.Rand
	lits   []string
	maxLv  int
	pPlus  int
	pHash  int
	pool   []string
	badPool []string
}

func (g *c14GenCtx) lit() string { return g.lits[g.rng.Intn(len(g.lits))] }

func (g *c14GenCtx) validFilter() string {
	for try := 0; try < 8; try++ {
		n := g.rng.Range(1, g.maxLv)
		lv := make([]string, 0, n)
		for i := 0; i < n; i++ {
			switch {
			case i == n-1 && g.rng.Intn(100) < g.pHash:
				lv = append(lv, "#")
			case g.rng.Intn(100) < g.pPlus:
				lv = append(lv, "+")
			default:
				lv = append(lv, g.lit())
			}
		}
		f := strings.Join(lv, "/")
		if f != "" && c14Valid(f) {
			return f
		}
	}
	return "a"
}

func (g *c14GenCtx) malformedFilter() string {
	for try := 0; try < 12; try++ {
		lv := strings.Split(g.validFilter(), "/")
		i := g.rng.Intn(len(lv))
		switch g.rng.Intn(9) {
		case 0:
			lv[i] = g.lit() + "+"
		case 1:
			lv[i] = "+" + g.lit()
		case 2:
			lv[len(lv)-1] = g.lit() + "#"
		case 3:
			lv[i] = "#" + g.lit()
		case 4:
			lv[i] = "++"
		case 5:
			lv[i] = "#"
			lv = append(lv, g.lit())
		case 6:
			lv[i] = "+#"
		case 7:
			lv = append(lv, "#", "")
		default:
			lv = append([]string{"#"}, lv...)
		}
		f := strings.Join(lv, "/")
		if f != "" && !c14Valid(f) {
			return f
		}
	}
	return "a/#/b"
}

func (g *c14GenCtx) topic() string {
	var lv []string
	if len(g.pool) > 0 && g.rng.Bool(0.65) {
		for _, l := range strings.Split(g.pool[g.rng.Intn(len(g.pool))], "/") {
			switch l {
			case "+":
				lv = append(lv, g.lit())
			case "#":
				for k := g.rng.Pick(0, 0, 1, 2); k > 0; k-- {
					lv = append(lv, g.lit())
				}
			default:
				if g.rng.Bool(0.1) {
					l = g.lit()
				}
				lv = append(lv, l)
			}
		}
		switch g.rng.Intn(10) {
		case 0:
			lv = append(lv, g.lit())
		case 1:
			if len(lv) > 1 {
				lv = lv[:len(lv)-1]
			}
		}
	} else {
		n := g.rng.Range(1, g.maxLv+1)
		for i := 0; i < n; i++ {
			lv = append(lv, g.lit())
		}
	}
	t := strings.Join(lv, "/")
	if t == "" {
		if len(lv) == 0 {
			return "a"
		}
		return "/"
	}
	return t
}

func (g *c14GenCtx) poolFilter() string {
	if len(g.pool) > 0 && g.rng.Bool(0.85) {
		return g.pool[g.rng.Intn(len(g.pool))]
	}
	return g.validFilter()
}

func (g *c14GenCtx) badFilter() string {
	if len(g.badPool) > 0 && g.rng.Bool(0.7) {
		return g.badPool[g.rng.Intn(len(g.badPool))]
	}
	return g.malformedFilter()
}

// c14Exotic: level strings that are ordinary for MQTT (any UTF-8 text without
// '/', '+', '#') but special for something a filter travels through: the YAML
// document a cleanSession=false session is stored as (filters are map keys
// there), the level cache, '$'-prefixed first levels (MQTT 3.1.1 §4.7.2).
var c14Exotic = []string{" ", "a b", " a", "a ", "a: b", ":", "- a", "-", "?", "~", "null", "true", "yes", "1", "1.5", "0x1f", "=",
	"*x", "&x", "!x", "%", "@", "`", "{", "}", "[a]", ",", "'", "\"", "\\", "|", ">", "---", "...", ".", "..", "2001-01-01",
	"A", "B", "\u65e5\u672c", "\U0001F600", "$SYS", "$a", "$", "<", "<<a",
	strings.Repeat("x", 130), strings.Repeat("x y ", 40) + "z"}

// c14MergeKeyLiteral switches the generation of the level string "<<": a
// cleanSession=false session holding the one-level filter "<<" is stored as a
// YAML document that cannot be read back (yaml.v2 writes the key plain and
// reads it as the merge key): class C14.restore-lost.stored-session-undecodable,
// a known finding (known_findings.txt); the class is only used when the
// session really held "<<" and its stored document really fails to decode.
const c14MergeKeyLiteral = true

func c14Gen(rng *sim.Rand, tier string) interface{} {
	sc := &c14Scenario{Cache: rng.Pick(1, 2, 4, 64)}
	sc.Mixed = c14MixedLists && rng.Bool(0.2)
	g := &c14GenCtx{rng: rng, lits: []string{"a", "b"}}
	if rng.Bool(0.7) {
		g.lits = append(g.lits, "")
	}
	if rng.Bool(0.3) {
		g.lits = append(g.lits, "ab")
	}
	if rng.Bool(0.05) {
		g.lits = append(g.lits, "é")
	}
	mergeKey := false
	if rng.Bool(0.3) {
		for n := rng.Range(1, 3); n > 0; n-- {
			g.lits = append(g.lits, c14Exotic[rng.Intn(len(c14Exotic))])
		}
		if c14MergeKeyLiteral && rng.Bool(0.15) {
			g.lits = append(g.lits, "<<")
			mergeKey = true
		}
	}
	g.maxLv = rng.Pick(2, 3, 4, 4, 2, 3, 4, 4, 4, 6, 8)
	g.pPlus = rng.Pick(0, 15, 30, 50)
	g.pHash = rng.Pick(0, 20, 40, 60)
	for n := rng.Range(3, 8); n > 0; n-- {
		g.pool = append(g.pool, g.validFilter())
	}
	if mergeKey {
		g.pool = append(g.pool, "<<")
	}
	for n := rng.Range(1, 3); n > 0; n-- {
		g.badPool = append(g.badPool, g.malformedFilter())
	}
	mix := rng.Intn(3) // 0 balanced, 1 churn, 2 publish-heavy
	nc := rng.Range(2, 5)
	np := rng.Range(1, 2)
	budget := rng.Range(10, 60)
	per := budget / (nc + np)
	if per < 2 {
		per = 2
	}
	qos := func() int { return rng.Pick(0, 1, 0, 1, 0, 1, 1, 2) }
	gap := func() int64 { return int64(rng.Pick(0, 0, 0, 1, 1000)) }
	list := func(pBadAlone, pBadItem int) []c14Sub {
		if !sc.Mixed && rng.Intn(100) < pBadAlone {
			return []c14Sub{{g.badFilter(), qos()}}
		}
		n := 1
		if rng.Bool(0.4) {
			n = rng.Range(2, 3)
		}
		var out []c14Sub
		for i := 0; i < n; i++ {
			if sc.Mixed && rng.Intn(100) < pBadItem {
				out = append(out, c14Sub{g.badFilter(), qos()})
			} else {
				out = append(out, c14Sub{g.poolFilter(), qos()})
			}
		}
		return out
	}
	for c := 0; c < nc; c++ {
		t := c14Task{ID: fmt.Sprintf("c%d", c), Persist: rng.Bool(0.4)}
		n := rng.Range(per/2+1, per+per/2+1)
		for i := 0; i < n; i++ {
			op := c14Op{GapUs: gap()}
			x := rng.Intn(100)
			var pSub, pUnsub, pDisc int
			switch mix {
			case 0:
				pSub, pUnsub, pDisc = 40, 22, 9
			case 1:
				pSub, pUnsub, pDisc = 35, 35, 12
			default:
				pSub, pUnsub, pDisc = 35, 15, 4
			}
			switch {
			case x < pSub:
				op.K, op.Subs = "sub", list(12, 20)
			case x < pSub+pUnsub:
				op.K, op.Subs = "unsub", list(6, 15)
			case x < pSub+pUnsub+pDisc:
				op.K = "disc"
				switch y := rng.Intn(100); {
				case y < 40: // plain teardown
				case y < 60:
					op.B = true // Client.close() and teardown in one stretch, as before
				case y < 72:
					op.B, op.Win = true, true
				case y < 88:
					op.X = true
				default:
					op.W = true
				}
				if (op.Win || op.X || op.W) && rng.Bool(0.55) {
					l := &c14Late{K: "sub", Subs: list(4, 10)}
					if rng.Bool(0.25) {
						l.K = "unsub"
					}
					op.Late = l
				}
				if op.W && op.Late != nil && op.Late.K == "sub" && rng.Bool(0.5) {
					op.Mid = true
				}
				if op.B && op.Win && rng.Bool(0.45) {
					op.Succ = &c14Succ{P: t.Persist != rng.Bool(0.3), Fail: rng.Bool(0.3)}
					if op.Late != nil {
						op.Late.K = "sub"
					}
				}
				if rng.Bool(0.75) {
					// reconnect explicitly (otherwise the next sub/unsub connects with the task's default)
					t.Ops = append(t.Ops, op)
					if rng.Bool(0.15) {
						t.Ops = append(t.Ops, c14Op{K: "fconn", P: rng.Bool(0.75), GapUs: gap()})
					}
					if rng.Bool(0.1) {
						t.Ops = append(t.Ops, c14Op{K: "race", P: rng.Bool(0.85), P2: rng.Bool(0.85), Subs: list(0, 0), Subs2: list(0, 0), GapUs: gap()})
					}
					if rng.Bool(0.3) {
						t.Ops = append(t.Ops, c14Op{K: "late", N: rng.Intn(4), GapUs: gap()})
					}
					op = c14Op{K: "conn", P: t.Persist != rng.Bool(0.3), GapUs: gap()}
					i++
				}
			case x < pSub+pUnsub+pDisc+3:
				op.K, op.N = "late", rng.Intn(4)
			default:
				op.K, op.T = "pub", g.topic()
			}
			t.Ops = append(t.Ops, op)
		}
		sc.Tasks = append(sc.Tasks, t)
	}
	for p := 0; p < np; p++ {
		t := c14Task{ID: fmt.Sprintf("p%d", p)}
		n := rng.Range(per/2+1, 2*per+1)
		for i := 0; i < n; i++ {
			t.Ops = append(t.Ops, c14Op{K: "pub", T: g.topic(), GapUs: gap()})
		}
		sc.Tasks = append(sc.Tasks, t)
	}
	for n := rng.Range(4, 10); n > 0; n-- {
		sc.Sweep = append(sc.Sweep, g.topic())
	}
	return sc
}

// ---- reference model (from the statement and MQTT 3.1.1 §4.7) ---------------

// c14Valid: a filter is well formed iff it is non-empty, '#' occurs only as a
// complete level that is the last one, and '+' only as a complete level.
func c14Valid(f string) bool {
	if f == "" {
		return false
	}
	lv := strings.Split(f, "/")
	for i, l := range lv {
		if strings.Contains(l, "#") && (l != "#" || i != len(lv)-1) {
			return false
		}
		if strings.Contains(l, "+") && l != "+" {
			return false
		}
	}
	return true
}

// c14Match: does the (valid) filter match the topic name, level by level.
func c14Match(f, t []string) bool {
	if len(f) == 0 {
		return len(t) == 0
	}
	if f[0] == "#" {
		return true // the remaining levels, or none (parent level)
	}
	if len(t) == 0 {
		return false
	}
	if f[0] == "+" || f[0] == t[0] {
		return c14Match(f[1:], t[1:])
	}
	return false
}

func c14Matches(filter, topic string) bool {
	return c14Match(strings.Split(filter, "/"), strings.Split(topic, "/"))
}

// c14Unusual: the filter has a level outside the first-wave alphabet.
func c14Unusual(f string) bool {
	for _, l := range strings.Split(f, "/") {
		switch l {
		case "a", "b", "ab", "", "+", "#", "é":
		default:
			return true
		}
	}
	return false
}

func c14TopicOK(t string) bool {
	return t != "" && !strings.ContainsAny(t, "+#")
}

// c14DollarOpt: MQTT 3.1.1 §4.7.2 forbids matching a topic name that begins
// with '$' through a filter whose first level is a wildcard; the property
// statement's own summary of the rules does not mention it. Both outcomes are
// accepted for such a pair (see header).
func c14DollarOpt(fl []string, topic string) bool {
	return topic != "" && topic[0] == '$' && len(fl) > 0 && (fl[0] == "+" || fl[0] == "#")
}

type c14Ent struct {
	qos      map[byte]bool // acceptable QoS values
	definite bool          // false: may or may not route (valid member of a refused mixed list)
}

type c14Zombie struct {
	kind string // "subscribe" | "unsubscribe": which partial application may have left it; "late": a SUBSCRIBE processed after the connection's clean-up
	qos  map[byte]bool
}

type c14Ref struct {
	subs    map[string]map[string]*c14Ent
	zomb    map[string]map[string]*c14Zombie
	removed map[string]map[string]bool
	// sessions (MQTT 3.1.1 §3.1.2.4): persist = the current/last connection's
	// session is a cleanSession=false one; stored = the subscriptions such a
	// session holds while its client is away (filter -> QoS of the last subscribe)
	persist map[string]bool
	stored  map[string]map[string]map[byte]bool
	// storedOpt: stored entries that may or may not come back with the session
	// (they were touched by a packet processed while the connection was being
	// torn down, or the session was deleted by an admin: the statement is silent)
	storedOpt map[string]map[string]bool
	online    map[string]bool // between connect and the (first) disconnect that follows it
	requal  map[string]map[string]bool // filter was re-subscribed with another QoS since it was first taken
}

func c14NewRef() *c14Ref {
	return &c14Ref{subs: map[string]map[string]*c14Ent{}, zomb: map[string]map[string]*c14Zombie{}, removed: map[string]map[string]bool{},
		persist: map[string]bool{}, stored: map[string]map[string]map[byte]bool{}, storedOpt: map[string]map[string]bool{}, online: map[string]bool{}, requal: map[string]map[string]bool{}}
}

// connect: a cleanSession=false connection finding a stored cleanSession=false
// session gets its subscriptions back; any other combination starts empty and
// discards what was stored.
func (m *c14Ref) connect(id string, persist, keepZombies bool) (restored, requalified int, discarded bool) {
	m.client(id)
	st := m.stored[id]
	opt := m.storedOpt[id]
	delete(m.stored, id)
	delete(m.storedOpt, id)
	m.persist[id] = persist
	m.online[id] = true
	if !persist || st == nil {
		discarded = len(st) > 0
		m.requal[id] = map[string]bool{}
		return
	}
	for _, f := range c14Keys(st) {
		e := &c14Ent{qos: map[byte]bool{}, definite: !opt[f]}
		for q := range st[f] {
			e.qos[q] = true
		}
		m.subs[id][f] = e
		if !e.definite {
			if z := m.zomb[id][f]; z != nil {
				for q := range z.qos {
					e.qos[q] = true
				}
			}
			continue
		}
		if !keepZombies {
			// re-installing the filter takes over a residue entry of the same
			// (filter, client); not so if the stored session will turn out unreadable
			delete(m.zomb[id], f)
		}
		restored++
		if m.requal[id][f] {
			requalified++
		}
	}
	return
}

func (m *c14Ref) client(id string) {
	if m.subs[id] == nil {
		m.subs[id] = map[string]*c14Ent{}
		m.zomb[id] = map[string]*c14Zombie{}
		m.removed[id] = map[string]bool{}
		m.requal[id] = map[string]bool{}
	}
}

func (m *c14Ref) subscribe(id, f string, q byte) (resub bool) {
	m.client(id)
	if e := m.subs[id][f]; e != nil && e.definite && !e.qos[q] {
		resub = true
		m.requal[id][f] = true
	}
	m.subs[id][f] = &c14Ent{qos: map[byte]bool{q: true}, definite: true}
	delete(m.zomb[id], f)
	return
}

func (m *c14Ref) maybeSubscribe(id, f string, q byte) {
	m.client(id)
	if e := m.subs[id][f]; e != nil {
		e.qos[q] = true
		return
	}
	e := &c14Ent{qos: map[byte]bool{q: true}}
	if z := m.zomb[id][f]; z != nil {
		for k := range z.qos {
			e.qos[k] = true
		}
	}
	m.subs[id][f] = e
}

func (m *c14Ref) unsubscribe(id, f string) (was bool) {
	m.client(id)
	if e := m.subs[id][f]; e != nil {
		was = e.definite
		m.removed[id][f] = true
	}
	if m.zomb[id][f] != nil {
		m.removed[id][f] = true
	}
	delete(m.subs[id], f)
	delete(m.zomb[id], f)
	delete(m.requal[id], f)
	return
}

// zombify: the filter is no longer live by the statement, but a partial
// application of kind may have left it behind.
func (m *c14Ref) zombify(id, f, kind string) {
	m.client(id)
	e := m.subs[id][f]
	if e == nil {
		return
	}
	z := m.zomb[id][f]
	if z == nil {
		z = &c14Zombie{kind: kind, qos: map[byte]bool{}}
		m.zomb[id][f] = z
	}
	for k := range e.qos {
		z.qos[k] = true
	}
	if e.definite {
		m.removed[id][f] = true
	}
	delete(m.subs[id], f)
}

// disconnect removes everything the client holds. An optional entry (valid
// member of a refused mixed SUBSCRIBE list) that is still present afterwards
// (left tells, a white-box lookup used for attribution only) becomes a zombie.
func (m *c14Ref) disconnect(id string, left func(f string) bool) (had int) {
	return m.disconnectKind(id, left, "subscribe")
}

// disconnectKind: kind names the zombies it leaves. Optional entries of a
// cleanSession=false session may or may not be part of what comes back with it.
func (m *c14Ref) disconnectKind(id string, left func(f string) bool, kind string) (had int) {
	m.client(id)
	// a second call for the same connection (leftovers of a packet processed
	// after the disconnect) must not touch what the first one stored
	storing := m.persist[id] && m.online[id]
	m.online[id] = false
	if storing {
		m.stored[id] = map[string]map[byte]bool{}
		m.storedOpt[id] = map[string]bool{}
	}
	for _, f := range c14Keys(m.subs[id]) {
		e := m.subs[id][f]
		if e.definite {
			had++
		}
		{
			if storing {
				if !e.definite {
					m.storedOpt[id][f] = true
				}
				// one QoS, that of the last subscribe (several only after a refused mixed list, see header)
				m.stored[id][f] = map[byte]bool{}
				for q := range e.qos {
					m.stored[id][f][q] = true
				}
			}
		}
		if !e.definite && left(f) {
			m.zombify(id, f, kind)
		} else {
			m.removed[id][f] = true
			delete(m.subs[id], f)
		}
	}
	return
}

func (m *c14Ref) live() int {
	n := 0
	for _, s := range m.subs {
		n += len(s)
	}
	return n
}

func c14Keys[V any](m map[string]V) []string {
	out := make([]string, 0, len(m))
	for k := range m {
		out = append(out, k)
	}
	sort.Strings(out)
	return out
}

func c14QosSet(s map[byte]bool) string {
	var out []string
	for q := byte(0); q < 4; q++ {
		if s[q] {
			out = append(out, fmt.Sprint(q))
		}
	}
	return "{" + strings.Join(out, ",") + "}"
}

// ---- white-box view of the trie --------------------------------------------

type c14TrieEnt struct {
	f, c string
	q    byte
}

func c14Walk(n *topicNode, prefix []string, ents *[]c14TrieEnt, nodes *int, dangling *[]string) {
	for _, k := range c14Keys(n.nodes) {
		ch := n.nodes[k]
		if ch == nil {
			continue
		}
		*nodes++
		path := append(append([]string{}, prefix...), k)
		f := strings.Join(path, "/")
		for _, c := range c14Keys(ch.clients) {
			*ents = append(*ents, c14TrieEnt{f, c, ch.clients[c]})
		}
		if len(ch.clients) == 0 && len(ch.nodes) == 0 {
			*dangling = append(*dangling, f)
		}
		if len(path) < 64 {
			c14Walk(ch, path, ents, nodes, dangling)
		}
	}
}

// c14InTrie: does the trie hold client c under exactly the filter f.
func c14InTrie(n *topicNode, f, c string) bool {
	for _, l := range strings.Split(f, "/") {
		if n == nil {
			return false
		}
		n = n.nodes[l]
	}
	if n == nil {
		return false
	}
	_, ok := n.clients[c]
	return ok
}

// c14Witness returns topic names the valid filter f matches.
func c14Witness(f string) []string {
	lv := strings.Split(f, "/")
	var base []string
	hash := false
	for _, l := range lv {
		switch l {
		case "+":
			base = append(base, "b")
		case "#":
			hash = true
		default:
			base = append(base, l)
		}
	}
	var out []string
	if t := strings.Join(base, "/"); c14TopicOK(t) && len(base) > 0 {
		out = append(out, t)
	}
	if hash {
		out = append(out, strings.Join(append(append([]string{}, base...), "a"), "/"))
	}
	var ok []string
	for _, t := range out {
		if c14TopicOK(t) && c14Matches(f, t) {
			ok = append(ok, t)
		}
	}
	return ok
}

// ---- executor ---------------------------------------------------------------

// c14FakeConn: the socket of a connection that is made by the real
// Broker.handleConn: it delivers one CONNECT packet, swallows what is written,
// and then keeps the read loop waiting until the harness hangs up.
type c14FakeConn struct {
	in        []byte
	waits     bool
	failWrite bool     // every write fails (the peer is gone before the CONNACK)
	subacks   []uint16 // message ids of the SUBACKs written
	ready  chan struct{} // closed when the read loop waits for its first packet
	hangup chan struct{}
}

func (f *c14FakeConn) Read(p []byte) (int, error) {
	if len(f.in) > 0 {
		n := copy(p, f.in)
		f.in = f.in[n:]
		return n, nil
	}
	if !f.waits {
		f.waits = true
		close(f.ready)
	}
	<-f.hangup
	return 0, io.EOF
}
func (f *c14FakeConn) Write(p []byte) (int, error) {
	if f.failWrite {
		return 0, io.ErrClosedPipe
	}
	if pk, err := packets.ReadPacket(bytes.NewReader(p)); err == nil {
		if sa, ok := pk.(*packets.SubackPacket); ok {
			f.subacks = append(f.subacks, sa.MessageID)
		}
	}
	return len(p), nil
}

// c14Store: the mock storage with one slow read: the next get of the armed key
// reads, then waits for release before it returns what it read.
type c14Store struct {
	storage
	armed   string
	release chan struct{}
	waiting bool
}

func (s *c14Store) get(key string) (*string, error) {
	v, err := s.storage.get(key)
	if s.armed != "" && key == s.armed {
		s.armed = ""
		s.waiting = true
		<-s.release
		s.waiting = false
	}
	return v, err
}
func (f *c14FakeConn) Close() error                       { return nil }
func (f *c14FakeConn) LocalAddr() net.Addr                { return c14Addr("broker") }
func (f *c14FakeConn) RemoteAddr() net.Addr               { return c14Addr("client") }
func (f *c14FakeConn) SetDeadline(t time.Time) error      { return nil }
func (f *c14FakeConn) SetReadDeadline(t time.Time) error  { return nil }
func (f *c14FakeConn) SetWriteDeadline(t time.Time) error { return nil }

type c14Addr string

func c14Mode(persist bool) string {
	if persist {
		return "persist"
	}
	return "clean"
}

func (a c14Addr) Network() string { return "fake" }
func (a c14Addr) String() string  { return string(a) }

type c14Rec struct {
	Task     string
	What     string
	Inv, Ret uint64
	Out      string
}

var c14LoggerReady bool

type c14Conn struct {
	c *Client
	s *Session
}

func c14Exec(r *sim.Run, sci interface{}) {
	sc := sci.(*c14Scenario)
	if len(sc.Tasks) == 0 {
		return
	}
	if !c14LoggerReady {
		logger.InitNop()
		c14LoggerReady = true
	}
	r.MultiClass = true // a known residue finding must not mask other classes
	cache := sc.Cache
	if cache <= 0 {
		cache = 1
	}
	nops := 0
	for _, t := range sc.Tasks {
		nops += len(t.Ops) + 2
	}
	b := &Broker{egName: "eg", name: "mqtt", clients: map[string]*Client{}}
	// what Broker.handleConn needs besides (successor connections are made by it)
	b.spec = &Spec{EGName: "eg", Name: "mqtt"}
	b.pipelines = map[PacketType]string{}
	b.connectionLimiter = newLimiter(nil)
	b.topicMgr = newTopicManager(cache)
	slowStore := &c14Store{storage: newStorage(nil)}
	b.sessMgr = newSessionManager(b, slowStore) // real doStore goroutine: sessions are persisted to the mock storage
	defer b.sessMgr.close()
	_ = nops
	mgr := b.topicMgr

	ref := c14NewRef()
	var hist []c14Rec
	fatal, final := false, false
	limbo := map[string]bool{}       // between the two halves of a disconnect: the statement does not say whether the client's subscriptions still count, nor what a packet processed now achieves
	cleaned := map[string]string{}   // in limbo AND the connection's clean-up has already run (admin deletion, write loop's error path): value = which
	undecodableWhy := map[string]string{}
	lostRestore := map[string]map[string]bool{} // attribution only: the filters such a session held
	undecodable := map[string]bool{} // attribution only: the stored session the connection should have resumed cannot be decoded
	lateSubs := map[string]map[string]map[byte]bool{} // attribution only: filters of SUBSCRIBEs processed between the halves of the id's current disconnect
	lateWhy := map[string]string{}   // attribution only: which kind of clean-up preceded the id's late SUBSCRIBE
	reported := map[string]bool{}
	var (
		nPubHit, nWild, nRemovedLive, nPubAfterRemoval int
		everNonEmpty                                  bool
	)

	history := func() string {
		var sb strings.Builder
		lo := 0
		if len(hist) > 80 {
			lo = len(hist) - 80
			sb.WriteString("... ")
		}
		for _, h := range hist[lo:] {
			fmt.Fprintf(&sb, "%s:%s=%s(%d,%d) ", h.Task, h.What, h.Out, h.Inv, h.Ret)
		}
		return sb.String()
	}
	violate := func(class, format string, a ...interface{}) {
		fatal = true
		r.Violate(class, "%s\nhistory (linearisation order; inv,ret stamps): %s", fmt.Sprintf(format, a...), history())
	}
	known := func(kind, format string, a ...interface{}) {
		class := "C14.partial-" + kind + "-residue"
		if kind == "late" {
			class = "C14.late-subscribe-residue"
		}
		if reported[class] {
			return
		}
		reported[class] = true
		r.Violate(class, "%s\nhistory (linearisation order; inv,ret stamps): %s", fmt.Sprintf(format, a...), history())
	}
	// guarded production call
	call := func(what string, f func()) (ok bool) {
		defer func() {
			if p := recover(); p != nil {
				violate("C14.panic", "%s panicked: %v", what, p)
				ok = false
			}
		}()
		f()
		return true
	}

	// routing oracle for one findSubscribers result; returns the rendered result
	checkRoute := func(who, topic string, res map[string]byte, err error) string {
		if err != nil {
			violate("C14.find-error", "%s: findSubscribers(%q) failed for a valid topic name: %v", who, topic, err)
			return "error"
		}
		tl := strings.Split(topic, "/")
		ids := map[string]bool{}
		for id := range ref.subs {
			ids[id] = true
		}
		for id := range res {
			ids[id] = true
		}
		var out []string
		for _, id := range c14Keys(ids) {
			must, may, wild, dollarRouted := false, false, false, false
			mustOther := false // some matching live filter is not one of those an undecodable stored session took with it
			okQ := map[byte]bool{}
			var why []string
			for _, f := range c14Keys(ref.subs[id]) {
				e := ref.subs[id][f]
				fl := strings.Split(f, "/")
				if !c14Match(fl, tl) {
					if strings.Contains(f, "+") && fl[len(fl)-1] != "#" && (len(fl) == len(tl)+1 || len(fl)+1 == len(tl)) {
						r.Probe("route.plus_filter_vs_topic_of_other_depth")
					}
					continue
				}
				for i, l := range fl {
					if l == "+" && i < len(tl) {
						r.Probe("route.plus_match")
						if tl[i] == "" {
							r.Probe("route.plus_matches_empty_level")
						}
					}
				}
				switch {
				case c14DollarOpt(fl, topic):
					may = true
					r.Probe("route.dollar_topic_vs_filter_with_leading_wildcard")
					if _, routed := res[id]; routed {
						dollarRouted = true
					}
				case e.definite && !limbo[id]:
					must = true
					if !lostRestore[id][f] {
						mustOther = true
					}
				default:
					may = true
				}
				if topic[0] == '$' && !c14DollarOpt(fl, topic) {
					r.Probe("route.dollar_topic_through_literal_first_level")
				}
				if strings.ContainsAny(f, "+#") {
					wild = true
					if fl[len(fl)-1] == "#" && len(fl)-1 == len(tl) {
						r.Probe("route.hash_matches_parent_level")
					}
					if fl[len(fl)-1] == "#" && len(tl) > len(fl) {
						r.Probe("route.hash_matches_several_levels")
					}
				}
				for q := range e.qos {
					okQ[q] = true
				}
				why = append(why, f+c14QosSet(e.qos))
			}
			// zombies: filters that are dead by the statement but that a partial
			// application may have left behind. Which of them really route is
			// looked up in the trie (attribution only; the verdict is the routing).
			zkind := ""
			zQ := map[byte]bool{}
			zwhyKind := map[string][]string{}
			for pass := 0; pass < 2 && zkind == ""; pass++ {
				for _, f := range c14Keys(ref.zomb[id]) {
					z := ref.zomb[id][f]
					if !c14Matches(f, topic) || (pass == 0 && !c14InTrie(mgr.root, f, id)) {
						continue
					}
					if zkind == "" || z.kind < zkind {
						zkind = z.kind
					}
					for q := range z.qos {
						zQ[q] = true
					}
					zwhyKind[z.kind] = append(zwhyKind[z.kind], f)
				}
			}
			q, in := res[id]
			if dollarRouted && !must {
				r.Probe("route.dollar_topic_routed_only_through_leading_wildcard")
			}
			switch {
			case must && !in && undecodable[id] && !mustOther:
				violate("C14.restore-lost.stored-session-undecodable", "%s: topic %q is not routed to client %s, which resumed its cleanSession=false session and so holds matching subscription(s) %v: the stored session document could not be decoded again (%s), the connection got a fresh, empty session; got %v", who, topic, id, why, undecodableWhy[id], c14Render(res))
				return "bad"
			case must && !in:
				violate("C14.route-missing", "%s: topic %q is not routed to client %s, which holds live matching subscription(s) %v; got %v", who, topic, id, why, c14Render(res))
				return "bad"
			case in && !must && !may:
				if zkind != "" {
					zwhy := zwhyKind["subscribe"]
					if len(zwhy) > 0 {
						known("subscribe", "%s: topic %q is routed to client %s through filter(s) %v: they were valid members of a SUBSCRIBE list that was refused because of a malformed member, and the client has disconnected since (closeAndDelSession only removes the filters recorded in the session, the refused list never got there)", who, topic, id, zwhy)
					}
					if zwhy = zwhyKind["late"]; len(zwhy) > 0 {
						known("late", "%s: topic %q is routed to client %s through filter(s) %v: the SUBSCRIBE carrying them was processed after %s (the read loop still handles the packet it was waiting for), and the connection's teardown, which came afterwards and skipped its clean-up because that had been done, left them in the topic tree; nobody holds them", who, topic, id, zwhy, lateWhy[id])
					}
					if zwhy = zwhyKind["unsubscribe"]; len(zwhy) > 0 {
						known("unsubscribe", "%s: topic %q is still routed to client %s through filter(s) %v after an acknowledged UNSUBSCRIBE that contained them together with a malformed filter (TopicManager.unsubscribe stops at the malformed one, Session.unsubscribe and the UNSUBACK go ahead)", who, topic, id, zwhy)
					}
					for k := range zQ {
						okQ[k] = true
					}
					break
				}
				stale := false
				for _, f := range c14Keys(ref.removed[id]) {
					if c14Matches(f, topic) {
						stale = true
						why = append(why, f)
					}
				}
				if stale {
					violate("C14.route-stale", "%s: topic %q is routed to client %s although its matching subscription(s) %v were removed (unsubscribe/disconnect) and nothing live matches; got %v", who, topic, id, why, c14Render(res))
				} else {
					violate("C14.route-extra", "%s: topic %q is routed to client %s, none of whose subscriptions %v ever matched it; got %v", who, topic, id, c14Keys(ref.subs[id]), c14Render(res))
				}
				return "bad"
			}
			if !in {
				continue
			}
			if zkind != "" {
				for k := range zQ {
					okQ[k] = true
				}
			}
			if !okQ[q] {
				violate("C14.qos", "%s: topic %q routed to client %s with QoS %d, but its matching subscriptions are %v", who, topic, id, q, why)
				return "bad"
			}
			if wild {
				nWild++
			}
			if len(why) > 1 && len(okQ) > 1 {
				r.Probe("route.client_matches_with_several_qos")
			}
			if len(okQ) == 1 && !may && zkind == "" {
				out = append(out, fmt.Sprintf("%s:%d", id, q))
			} else {
				out = append(out, id+":?") // value depends on Go map order or on a tolerated reading
			}
		}
		if len(res) > 0 {
			nPubHit++
		}
		return "[" + strings.Join(out, " ") + "]"
	}

	doPub := func(who, topic, tag string) {
		if !c14TopicOK(topic) {
			return
		}
		inv := r.Seq()
		var res map[string]byte
		var err error
		if !call("findSubscribers", func() { res, err = mgr.findSubscribers(topic) }) {
			return
		}
		ret := r.Seq()
		if strings.Contains(topic, "//") || strings.HasPrefix(topic, "/") || strings.HasSuffix(topic, "/") {
			r.Probe("pub.topic_with_empty_level")
		}
		if nRemovedLive > 0 {
			nPubAfterRemoval++
		}
		out := checkRoute(who, topic, res, err)
		hist = append(hist, c14Rec{who, tag + " " + topic, inv, ret, out})
		r.Eventf("%s %s %q -> %s (%d,%d)", who, tag, topic, out, inv, ret)
	}

	// structural comparison; never a verdict except for dangling nodes and
	// malformed paths: returns witness topics to publish
	structCheck := func(who string) []string {
		var ents []c14TrieEnt
		var dangling []string
		nodes := 0
		c14Walk(mgr.root, nil, &ents, &nodes, &dangling)
		if nodes > 0 {
			everNonEmpty = true
		} else if everNonEmpty {
			r.Probe("trie.emptied_again")
		}
		if len(dangling) > 0 {
			violate("C14.residue-nodes", "%s: the trie keeps node(s) %q that carry no client and have no children (live subscriptions in the reference: %d)", who, dangling, ref.live())
			return nil
		}
		wit := map[string]bool{}
		seen := map[string]bool{}
		for _, e := range ents {
			seen[e.c+"\x00"+e.f] = true
			if !c14Valid(e.f) {
				violate("C14.malformed-trace", "%s: the trie holds the malformed filter %q for client %s", who, e.f, e.c)
				return nil
			}
			var re *c14Ent
			if ref.subs[e.c] != nil {
				re = ref.subs[e.c][e.f]
			}
			if re != nil && re.qos[e.q] {
				continue
			}
			for _, t := range c14Witness(e.f) {
				wit[t] = true
			}
		}
		for _, id := range c14Keys(ref.subs) {
			for _, f := range c14Keys(ref.subs[id]) {
				if ref.subs[id][f].definite && !limbo[id] && !seen[id+"\x00"+f] {
					for _, t := range c14Witness(f) {
						wit[t] = true
					}
				}
			}
		}
		return c14Keys(wit)
	}
	afterMutation := func(who string) {
		if fatal {
			return
		}
		wit := structCheck(who)
		if len(wit) == 0 || fatal {
			return
		}
		r.Probe("struct.difference_witnessed")
		before := len(reported)
		for _, t := range wit {
			if fatal {
				return
			}
			doPub(who, t, "witness")
		}
		if !fatal && len(reported) == before {
			// the difference was tolerated (zombie already reported / optional entries) or vanished meanwhile
			var ents []c14TrieEnt
			var dangling []string
			nodes := 0
			c14Walk(mgr.root, nil, &ents, &nodes, &dangling)
			for _, e := range ents {
				var re *c14Ent
				if ref.subs[e.c] != nil {
					re = ref.subs[e.c][e.f]
				}
				if re != nil && re.qos[e.q] {
					continue
				}
				if ref.zomb[e.c] != nil && ref.zomb[e.c][e.f] != nil {
					continue
				}
				violate("C14.state", "%s: the trie holds (%q, client %s, QoS %d) which the reference does not allow (reference entry: %v) and no witness topic exposed it", who, e.f, e.c, e.q, re != nil)
				return
			}
		}
	}

	conns := map[string]*c14Conn{}
	persistOf := map[string]bool{}
	// connect does what Broker.handleConn does between the CONNECT packet and
	// the start of the read loop, with the real functions: register the client,
	// Broker.setSession (reuse the stored session iff both are cleanSession=false),
	// Session.updateEGName, and re-install the session's subscriptions with
	// TopicManager.subscribe(session.allSubscribes()).
	connect := func(id string, persist bool) *c14Conn {
		if cn := conns[id]; cn != nil {
			return cn
		}
		pkt := packets.NewControlPacket(packets.Connect).(*packets.ConnectPacket)
		pkt.ClientIdentifier = id
		pkt.CleanSession = !persist
		var c *Client
		inv := r.Seq()
		delete(undecodable, id)
		delete(lostRestore, id)
		if persist && len(ref.stored[id]) > 0 {
			// attribution only (which class a later routing violation gets)
			if str, err := b.sessMgr.store.get(sessionStoreKey(id)); err == nil && str != nil {
				probe := &Session{info: &SessionInfo{}}
				if derr := probe.decode(*str); derr != nil {
					// the specific (known) cause only: one of the session's filters is
					// the YAML merge key. Any other loss keeps the general class.
					if _, mergeKey := ref.stored[id]["<<"]; mergeKey {
						undecodable[id] = true
						undecodableWhy[id] = derr.Error()
						lostRestore[id] = map[string]bool{}
						for f := range ref.stored[id] {
							lostRestore[id][f] = true
						}
						r.Probe("conn.stored_session_undecodable_because_of_merge_key_filter")
					} else {
						r.Probe("conn.stored_session_undecodable_for_another_reason")
					}
				}
			}
		}
		ok := call("connect (setSession + restore of session subscriptions)", func() {
			c = newClient(pkt, b, nil, nil)
			b.Lock()
			b.clients[id] = c
			b.setSession(c, pkt)
			b.Unlock()
			c.session.updateEGName(b.egName, b.name)
			topics, qoss, _ := c.session.allSubscribes()
			if len(topics) > 0 {
				if err := b.topicMgr.subscribe(topics, qoss, id); err != nil {
					violate("C14.restore-error", "%s: re-installing the stored session's subscriptions %v failed: %v", id, topics, err)
				}
			}
		})
		if !ok || c == nil || c.session == nil {
			return nil
		}
		ret := r.Seq()
		cn := &c14Conn{c, c.session}
		conns[id] = cn
		restored, requalified, discarded := ref.connect(id, persist, undecodable[id])
		if restored > 0 {
			r.Probe("conn.persistent_session_restored_subscriptions")
			for _, f := range c14Keys(ref.subs[id]) {
				if c14Unusual(f) {
					r.Probe("conn.restored_filter_with_unusual_level")
					break
				}
			}
		}
		if requalified > 0 {
			r.Probe("conn.restored_filter_had_been_resubscribed_with_other_qos")
		}
		if discarded {
			r.Probe("conn.stored_session_discarded")
		}
		mode := "clean"
		if persist {
			mode = "persist"
		}
		hist = append(hist, c14Rec{id, "conn(" + mode + ")", inv, ret, fmt.Sprintf("restored %d", restored)})
		r.Eventf("%s conn %s -> restored %d (%d,%d)", id, mode, restored, inv, ret)
		afterMutation(id)
		// no scheduling point here on purpose: CONNECT's session snapshot
		// (updateEGName) and the one of the SUBSCRIBE/UNSUBSCRIBE right behind it
		// travel to the storage in goroutines of their own; since the fix
		// "session snapshots must not reach the storage out of order" doStore
		// drops an overtaken snapshot, which a cleanSession=false reconnect relies on.
		if fatal {
			return nil
		}
		return cn
	}
	drain := func(c *Client) (suback *packets.SubackPacket, unsuback *packets.UnsubackPacket) {
		for {
			select {
			case p := <-c.writeCh:
				switch v := p.(type) {
				case *packets.SubackPacket:
					suback = v
				case *packets.UnsubackPacket:
					unsuback = v
				}
			default:
				return
			}
		}
	}
	clean := func(subs []c14Sub) (fs []string, qs []byte) {
		for _, s := range subs {
			if s.F == "" {
				continue
			}
			fs = append(fs, s.F)
			qs = append(qs, byte(s.Q&3))
		}
		return
	}
	render := func(fs []string, qs []byte) string {
		var out []string
		for i, f := range fs {
			if qs != nil {
				out = append(out, fmt.Sprintf("%s:%d", f, qs[i]))
			} else {
				out = append(out, f)
			}
		}
		return "[" + strings.Join(out, " ") + "]"
	}
	var mid uint16

	doSub := func(id string, subs []c14Sub) {
		fs, qs := clean(subs)
		if len(fs) == 0 {
			return
		}
		cn := connect(id, persistOf[id])
		if cn == nil {
			return
		}
		pkt := packets.NewControlPacket(packets.Subscribe).(*packets.SubscribePacket)
		mid++
		pkt.MessageID = mid
		pkt.Topics = fs
		pkt.Qoss = qs
		inv := r.Seq()
		if !call("processSubscribe", func() { processSubscribe(cn.c, pkt) }) {
			return
		}
		ret := r.Seq()
		suback, _ := drain(cn.c)
		nBad := 0
		for _, f := range fs {
			if !c14Valid(f) {
				nBad++
			}
		}
		out := "refused"
		if suback != nil {
			out = "suback"
		}
		hist = append(hist, c14Rec{id, "sub" + render(fs, qs), inv, ret, out})
		r.Eventf("%s sub %s -> %s (%d,%d)", id, render(fs, qs), out, inv, ret)
		switch {
		case nBad == 0 && limbo[id] && (suback == nil || cleaned[id] != ""):
			// processed while the connection is being torn down: may or may not
			// count; after the teardown nothing of it may be left in the tree
			for i, f := range fs {
				ref.maybeSubscribe(id, f, qs[i])
				if lateSubs[id] == nil {
					lateSubs[id] = map[string]map[byte]bool{}
				}
				if lateSubs[id][f] == nil {
					lateSubs[id][f] = map[byte]bool{}
				}
				lateSubs[id][f][qs[i]] = true
			}
			if cleaned[id] != "" {
				r.Fault("subscribe_processed_after_cleanup")
				if suback != nil {
					lateWhy[id] = cleaned[id]
					r.Probe("disc.late_subscribe_after_cleanup_was_acknowledged")
				}
			}
		case nBad == 0:
			if suback == nil || suback.MessageID != pkt.MessageID || len(suback.ReturnCodes) != len(fs) {
				violate("C14.valid-rejected", "%s: SUBSCRIBE %s with only well-formed filters was not acknowledged (suback=%v)", id, render(fs, qs), suback)
				return
			}
			for i, f := range fs {
				for j := 0; j < i; j++ {
					if fs[j] == f && qs[j] != qs[i] {
						r.Probe("sub.list_repeats_filter_with_other_qos")
					}
				}
				if c14Unusual(f) {
					r.Probe("sub.filter_with_unusual_level")
				}
				if strings.Count(f, "/") >= 5 {
					r.Probe("sub.filter_of_6_or_more_levels")
				}
				delete(lostRestore[id], f)
				if ref.subscribe(id, f, qs[i]) {
					r.Probe("sub.resubscribe_other_qos")
				}
			}
		default:
			accepted := false
			if suback != nil {
				for i, f := range fs {
					if !c14Valid(f) && (i >= len(suback.ReturnCodes) || suback.ReturnCodes[i] != 0x80) {
						accepted = true
					}
				}
			}
			if accepted {
				violate("C14.malformed-accepted", "%s: SUBSCRIBE %s contains malformed filter(s) and was acknowledged as successful (return codes %v)", id, render(fs, qs), suback.ReturnCodes)
				return
			}
			if nBad == len(fs) {
				r.Probe("sub.malformed_rejected")
			} else {
				r.Probe("sub.mixed_list_refused")
				for i, f := range fs {
					if c14Valid(f) {
						ref.maybeSubscribe(id, f, qs[i])
					}
				}
			}
		}
		afterMutation(id)
	}

	doUnsub := func(id string, subs []c14Sub) {
		fs, _ := clean(subs)
		if len(fs) == 0 {
			return
		}
		cn := connect(id, persistOf[id])
		if cn == nil {
			return
		}
		pkt := packets.NewControlPacket(packets.Unsubscribe).(*packets.UnsubscribePacket)
		mid++
		pkt.MessageID = mid
		pkt.Topics = fs
		// probes on the state before
		for _, f := range fs {
			if !c14Valid(f) {
				continue
			}
			if e := ref.subs[id][f]; e == nil {
				r.Probe("unsub.never_or_no_longer_subscribed")
			} else {
				for _, oid := range c14Keys(ref.subs) {
					for _, of := range c14Keys(ref.subs[oid]) {
						if of != f && (strings.HasPrefix(of, f+"/") || strings.HasPrefix(f, of+"/")) {
							r.Probe("unsub.filter_shares_prefix_with_live_one")
						}
						if of == f && oid != id {
							r.Probe("unsub.filter_also_held_by_other_client")
						}
					}
				}
			}
		}
		inv := r.Seq()
		if !call("processUnsubscribe", func() { processUnsubscribe(cn.c, pkt) }) {
			return
		}
		ret := r.Seq()
		_, unsuback := drain(cn.c)
		out := "silent"
		if unsuback != nil {
			out = "unsuback"
		}
		hist = append(hist, c14Rec{id, "unsub" + render(fs, nil), inv, ret, out})
		r.Eventf("%s unsub %s -> %s (%d,%d)", id, render(fs, nil), out, inv, ret)
		nBad := 0
		for _, f := range fs {
			if !c14Valid(f) {
				nBad++
			}
		}
		switch {
		case limbo[id] && (unsuback == nil || cleaned[id] != ""):
			// processed while the connection is being torn down: may or may not count
			for _, f := range fs {
				if e := ref.subs[id][f]; e != nil && c14Valid(f) {
					e.definite = false
				}
			}
		case nBad == 0:
			for _, f := range fs {
				if ref.unsubscribe(id, f) {
					nRemovedLive++
				}
			}
		case nBad == len(fs):
			r.Probe("unsub.malformed_only")
		default:
			r.Probe("unsub.mixed_list")
			for _, f := range fs {
				if !c14Valid(f) || ref.subs[id][f] == nil {
					continue
				}
				if unsuback != nil {
					// acknowledged: no longer live by the statement
					if ref.subs[id][f].definite {
						nRemovedLive++
					}
					if c14InTrie(mgr.root, f, id) {
						ref.zombify(id, f, "unsubscribe") // attribution; the verdict comes from routing
					} else {
						ref.unsubscribe(id, f)
					}
				} else {
					ref.subs[id][f].definite = false
				}
			}
		}
		afterMutation(id)
	}

	olds := map[string][]*Client{} // torn-down connections per id (their write loops may still call closeAndDelSession)

	// settle: the disconnect of the id is complete. Whatever a late SUBSCRIBE
	// named and is still in the tree now is that SUBSCRIBE's residue (this decides
	// the class name, routing decides the verdict)
	settle := func(id string) (had int) {
		left := func(f string) bool { return c14InTrie(mgr.root, f, id) }
		delete(limbo, id)
		delete(cleaned, id)
		had = ref.disconnectKind(id, left, "late")
		for _, f := range c14Keys(lateSubs[id]) {
			if !left(f) {
				continue
			}
			z := ref.zomb[id][f]
			if z == nil {
				z = &c14Zombie{kind: "late", qos: map[byte]bool{}}
				ref.zomb[id][f] = z
			}
			z.kind = "late"
			for q := range lateSubs[id][f] {
				z.qos[q] = true
			}
		}
		delete(lateSubs, id)
		return
	}

	// doDisc: the teardown readLoop's deferred cleanup performs (closeAndDelSession,
	// Broker.removeClient). Variants: the broker closed the client before
	// (Client.close(): take-over, pipeline Disconnect), an admin deleted the
	// session (storage delete -> Broker.deleteSession), or the write loop's error
	// path ran closeAndDelSession first; in the windowed variants other tasks run
	// between the two halves, and the read loop may process one more packet.
	doDisc := func(id string, op c14Op) {
		cn := conns[id]
		if cn == nil {
			return
		}
		left := func(f string) bool { return c14InTrie(mgr.root, f, id) }
		kind := "plain"
		switch {
		case op.X:
			kind = "admin session delete"
		case op.W:
			kind = "write loop teardown"
		case op.B:
			kind = "broker close"
		}
		window := op.X || op.W || (op.B && (op.Win || op.Late != nil))
		account := func(had int, what string, inv, ret uint64) {
			if had > 0 {
				if !final {
					r.Probe("disc.mid_history_with_live_subscriptions")
				}
				nRemovedLive += had
				if kind != "plain" {
					r.Probe("disc." + strings.ReplaceAll(kind, " ", "_") + "_with_live_subscriptions")
				}
			}
			hist = append(hist, c14Rec{id, what, inv, ret, fmt.Sprint(had)})
			r.Eventf("%s %s -> removed %d (%d,%d)", id, what, had, inv, ret)
		}
		if !window {
			inv := r.Seq()
			had := 0
			if !call("closeAndDelSession", func() {
				if op.B {
					cn.c.close()
				}
				cn.c.closeAndDelSession()
				// the reference follows before anything else can be scheduled
				had = ref.disconnect(id, left)
				b.removeClient(id)
			}) {
				return
			}
			ret := r.Seq()
			delete(conns, id)
			olds[id] = append(olds[id], cn.c)
			what := "disc"
			if op.B {
				what = "disc(broker-closed-first)"
				if had > 0 {
					r.Probe("disc.broker_initiated_with_live_subscriptions")
				}
			}
			if ref.persist[id] && had > 0 {
				r.Probe("disc.persistent_session_keeps_subscriptions")
			}
			account(had, what, inv, ret)
			afterMutation(id)
			return
		}
		// first half
		lateDone := false
		inv := r.Seq()
		if !call(kind+" (first half of a disconnect)", func() {
			switch {
			case kind == "broker close":
				cn.c.close() // what reconnectWatcher, a pipeline's Disconnect or a take-over do: the connection stays registered
			case kind == "admin session delete":
				b.sessMgr.store.delete(sessionStoreKey(id))
				b.deleteSession(id)
				cleaned[id] = kind
			case op.Mid && op.Late != nil && op.Late.K == "sub":
				// the write loop runs the real closeAndDelSession in a goroutine of its
				// own; holding the client's mutex stops it at the Client.close() that
				// ends it, i.e. after the clean-up under the broker lock: that is where
				// the read loop gets to process its SUBSCRIBE. No gate while the (real)
				// mutex is held.
				limbo[id] = true
				cleaned[id] = "the clean-up of the write loop's teardown, before its Client.close()"
				wdone := make(chan struct{})
				cn.c.Lock()
				go func() {
					defer close(wdone)
					defer func() {
						if p := recover(); p != nil {
							violate("C14.panic", "closeAndDelSession (write loop) panicked: %v", p)
						}
					}()
					cn.c.closeAndDelSession()
				}()
				for i := 0; i < 1000 && atomic.LoadInt32(&cn.c.cleanFlag) == 0; i++ {
					runtime.Gosched()
				}
				if atomic.LoadInt32(&cn.c.cleanFlag) == 1 && !cn.c.disconnected() {
					r.Probe("disc.late_subscribe_between_cleanup_and_close_of_write_loop_teardown")
					lateDone = true
					func() {
						defer func() {
							if p := recover(); p != nil {
								violate("C14.panic", "late SUBSCRIBE panicked: %v", p)
							}
						}()
						doSub(id, op.Late.Subs)
					}()
				}
				cn.c.Unlock()
				<-wdone
				cleaned[id] = kind
			default:
				cn.c.closeAndDelSession()
				cleaned[id] = kind
			}
			limbo[id] = true
		}) {
			return
		}
		ret := r.Seq()
		r.Fault(strings.ReplaceAll(kind, " ", "_") + "_before_teardown")
		hist = append(hist, c14Rec{id, "disc-1(" + kind + ")", inv, ret, "-"})
		r.Eventf("%s disc-1(%s) (%d,%d)", id, kind, inv, ret)
		afterMutation(id)
		if fatal {
			return
		}
		r.Sleep(0)
		if fatal || r.Aborted() {
			return
		}
		if op.Succ != nil && kind == "broker close" {
			// a new connection of the same id arrives while the closed one lingers
			cp := packets.NewControlPacket(packets.Connect).(*packets.ConnectPacket)
			cp.ProtocolName, cp.ProtocolVersion = "MQTT", 4
			cp.ClientIdentifier = id
			cp.CleanSession = !op.Succ.P
			var buf bytes.Buffer
			if err := cp.Write(&buf); err != nil {
				return
			}
			fc := &c14FakeConn{in: buf.Bytes(), ready: make(chan struct{}), hangup: make(chan struct{}), failWrite: op.Succ.Fail}
			hdone := make(chan struct{})
			inv := r.Seq()
			go func() {
				defer close(hdone)
				defer func() {
					if p := recover(); p != nil {
						violate("C14.panic", "Broker.handleConn panicked: %v", p)
					}
				}()
				b.handleConn(fc)
			}()
			select {
			case <-fc.ready:
			case <-hdone:
			}
			succ := b.getClient(id)
			if fatal {
				return
			}
			if succ != nil && succ != cn.c && succ.session != nil {
				ret := r.Seq()
				had := settle(id) // the old connection's subscriptions live on exactly if both sessions are cleanSession=false ones
				conns[id] = &c14Conn{succ, succ.session}
				restored, _, _ := ref.connect(id, op.Succ.P, false)
				r.Fault("reconnect_while_closed_connection_lingers")
				if restored > 0 {
					r.Probe("succ.inherited_subscriptions_of_lingering_connection")
				}
				if had > 0 && restored == 0 {
					r.Probe("succ.discarded_subscriptions_of_lingering_connection")
				}
				mode := "clean"
				if op.Succ.P {
					mode = "persist"
				}
				hist = append(hist, c14Rec{id, "successor-conn(" + mode + ")", inv, ret, fmt.Sprintf("restored %d", restored)})
				r.Eventf("%s successor-conn %s -> restored %d (%d,%d)", id, mode, restored, inv, ret)
				afterMutation(id)
				if fatal {
					return
				}
				r.Sleep(0)
				if fatal || r.Aborted() {
					return
				}
				// the superseded connection's read loop still handles one SUBSCRIBE
				if l := op.Late; l != nil && l.K == "sub" {
					if fs, qs := clean(l.Subs); len(fs) > 0 {
						pkt := packets.NewControlPacket(packets.Subscribe).(*packets.SubscribePacket)
						mid++
						pkt.MessageID = mid
						pkt.Topics = fs
						pkt.Qoss = qs
						inv := r.Seq()
						if !call("processSubscribe (superseded connection)", func() { processSubscribe(cn.c, pkt) }) {
							return
						}
						ret := r.Seq()
						suback, _ := drain(cn.c)
						out := "refused"
						if suback != nil {
							out = "suback(never written)"
							r.Probe("succ.late_subscribe_of_superseded_connection_was_acknowledged")
						}
						r.Probe("succ.late_subscribe_of_superseded_connection")
						r.Fault("subscribe_processed_after_cleanup")
						hist = append(hist, c14Rec{id, "superseded-sub" + render(fs, qs), inv, ret, out})
						r.Eventf("%s superseded-sub %s -> %s (%d,%d)", id, render(fs, qs), out, inv, ret)
						for i, f := range fs {
							if !c14Valid(f) {
								if suback != nil && (i >= len(suback.ReturnCodes) || suback.ReturnCodes[i] != 0x80) {
									violate("C14.malformed-accepted", "%s: SUBSCRIBE %s contains malformed filter(s) and was acknowledged as successful (return codes %v)", id, render(fs, qs), suback.ReturnCodes)
									return
								}
								continue
							}
							// the statement does not say whose it is: optional while the id is connected, gone afterwards
							ref.maybeSubscribe(id, f, qs[i])
							if lateSubs[id] == nil {
								lateSubs[id] = map[string]map[byte]bool{}
							}
							if lateSubs[id][f] == nil {
								lateSubs[id][f] = map[byte]bool{}
							}
							lateSubs[id][f][qs[i]] = true
						}
						lateWhy[id] = "a newer connection had replaced its closed, lingering connection"
						afterMutation(id)
						if fatal {
							return
						}
						r.Sleep(0)
						if fatal || r.Aborted() {
							return
						}
					}
				}
				// the superseded connection's teardown: the id is not its any more
				inv = r.Seq()
				if !call("closeAndDelSession (superseded connection)", func() {
					cn.c.closeAndDelSession()
					b.removeClient(id)
				}) {
					return
				}
				ret = r.Seq()
				olds[id] = append(olds[id], cn.c)
				hist = append(hist, c14Rec{id, "superseded-teardown", inv, ret, "-"})
				r.Eventf("%s superseded-teardown (%d,%d)", id, inv, ret)
				afterMutation(id)
				if fatal {
					return
				}
				r.Sleep(0)
				if fatal || r.Aborted() {
					return
				}
				// the successor hangs up: its read loop runs the real teardown
				inv = r.Seq()
				close(fc.hangup)
				<-hdone
				if fatal {
					return
				}
				had = settle(id)
				ret = r.Seq()
				delete(conns, id)
				olds[id] = append(olds[id], succ)
				if ref.persist[id] && had > 0 {
					r.Probe("disc.persistent_session_keeps_subscriptions")
				}
				account(had, "successor-disc", inv, ret)
				afterMutation(id)
				return
			}
			close(fc.hangup)
			<-hdone
			if op.Succ.Fail && succ == nil && cn.c.takenOver() {
				// the successor took the id over and then failed to write its CONNACK:
				// the id has no connection any more, only the superseded one lingers
				had := settle(id)
				restored, _, _ := ref.connect(id, op.Succ.P, false)
				had2 := ref.disconnectKind(id, left, "late")
				limbo[id] = true
				cleaned[id] = "a newer connection, whose handshake then failed, had replaced its closed, lingering connection"
				r.Fault("connack_write_fails")
				if restored > 0 {
					r.Probe("succ.failed_handshake_had_inherited_subscriptions")
				}
				nRemovedLive += had2
				hist = append(hist, c14Rec{id, "successor-failed-conn(" + c14Mode(op.Succ.P) + ")", inv, r.Seq(), fmt.Sprintf("removed %d restored %d", had, restored)})
				r.Eventf("%s successor-failed-conn %s -> restored %d", id, c14Mode(op.Succ.P), restored)
				// the reference is out of limbo for what it had: only a late packet is optional now
				delete(limbo, id)
				afterMutation(id)
				if fatal {
					return
				}
				limbo[id] = true
				r.Sleep(0)
				if fatal || r.Aborted() {
					return
				}
			}
			// otherwise the connection attempt was refused: go on as if nobody had come
		}
		if l := op.Late; l != nil && !lateDone {
			tag := strings.ReplaceAll(kind, " ", "_")
			if l.K == "sub" {
				r.Probe("disc.late_subscribe_after_" + tag)
				doSub(id, l.Subs)
			} else {
				r.Probe("disc.late_unsubscribe_after_" + tag)
				doUnsub(id, l.Subs)
			}
			if fatal {
				return
			}
			r.Sleep(0)
			if fatal || r.Aborted() {
				return
			}
		}
		// second half: the read loop's deferred teardown
		inv = r.Seq()
		had := 0
		if !call("closeAndDelSession (teardown after "+kind+")", func() {
			cn.c.closeAndDelSession()
			had = settle(id)
			if kind == "admin session delete" {
				// the statement does not know admin deletions: whether the session can be resumed is left open
				for f := range ref.stored[id] {
					ref.storedOpt[id][f] = true
				}
			}
			b.removeClient(id)
		}) {
			return
		}
		ret = r.Seq()
		delete(conns, id)
		olds[id] = append(olds[id], cn.c)
		if ref.persist[id] && had > 0 {
			r.Probe("disc.persistent_session_keeps_subscriptions")
		}
		account(had, "disc-2("+kind+")", inv, ret)
		afterMutation(id)
	}

	// doLate: an earlier, already torn-down connection of this id runs its
	// teardown once more (its write loop met a write error late; its read loop
	// woke up late). The connection is history: nothing may change.
	doLate := func(id string, n int) {
		o := olds[id]
		if len(o) == 0 {
			return
		}
		if n < 0 {
			n = -n
		}
		c := o[n%len(o)]
		inv := r.Seq()
		if !call("closeAndDelSession (once more, by a connection torn down earlier)", func() {
			c.closeAndDelSession()
			if n >= 2 {
				b.removeClient(id)
			}
		}) {
			return
		}
		ret := r.Seq()
		r.Fault("duplicate_teardown_of_old_connection")
		switch {
		case conns[id] != nil:
			r.Probe("late.duplicate_teardown_while_id_is_connected_again")
		case len(ref.stored[id]) > 0:
			r.Probe("late.duplicate_teardown_while_stored_session_waits")
			if c.session != nil && c.session.cleanSession() {
				r.Probe("late.duplicate_teardown_of_clean_connection_while_stored_session_waits")
			}
		default:
			r.Probe("late.duplicate_teardown_while_id_is_away")
		}
		hist = append(hist, c14Rec{id, "dup-teardown", inv, ret, "-"})
		r.Eventf("%s dup-teardown (%d,%d)", id, inv, ret)
		afterMutation(id)
	}

	// ---- fourth wave: handshakes through the real Broker.handleConn ------------
	newFake := func(id string, persist bool) *c14FakeConn {
		cp := packets.NewControlPacket(packets.Connect).(*packets.ConnectPacket)
		cp.ProtocolName, cp.ProtocolVersion = "MQTT", 4
		cp.ClientIdentifier = id
		cp.CleanSession = !persist
		var buf bytes.Buffer
		if err := cp.Write(&buf); err != nil {
			return nil
		}
		return &c14FakeConn{in: buf.Bytes(), ready: make(chan struct{}), hangup: make(chan struct{})}
	}
	isClosed := func(ch chan struct{}) bool {
		select {
		case <-ch:
			return true
		default:
			return false
		}
	}
	yieldUntil := func(cond func() bool, max int) bool {
		for i := 0; i < max; i++ {
			if cond() {
				return true
			}
			runtime.Gosched()
		}
		return cond()
	}
	goHandle := func(fc *c14FakeConn) chan struct{} {
		done := make(chan struct{})
		go func() {
			defer close(done)
			defer func() {
				if p := recover(); p != nil {
					violate("C14.panic", "Broker.handleConn panicked: %v", p)
				}
			}()
			b.handleConn(fc)
		}()
		return done
	}

	// doFailConn: CONNECT is accepted, the id registered, its session resumed
	// and the session's subscriptions restored; then the CONNACK cannot be
	// written and handleConn backs out. Reference: a connect and a disconnect in
	// one step; whether a cleanSession=true CONNECT that failed this way has
	// discarded the stored session is left open (the statement knows no failed handshakes).
	doFailConn := func(id string, persist bool) {
		if conns[id] != nil {
			return
		}
		if _, mk := ref.stored[id]["<<"]; mk {
			return // known finding (stored session undecodable): not mixed into this
		}
		fc := newFake(id, persist)
		if fc == nil {
			return
		}
		fc.failWrite = true
		keep, keepOpt := ref.stored[id], ref.storedOpt[id]
		inv := r.Seq()
		if !call("Broker.handleConn (CONNACK write fails)", func() { b.handleConn(fc) }) {
			return
		}
		ret := r.Seq()
		restored, _, _ := ref.connect(id, persist, false)
		had := ref.disconnect(id, func(f string) bool { return c14InTrie(mgr.root, f, id) })
		if !persist && len(keep) > 0 {
			ref.stored[id] = keep
			if keepOpt == nil {
				keepOpt = map[string]bool{}
			}
			for f := range keep {
				keepOpt[f] = true
			}
			ref.storedOpt[id] = keepOpt
		}
		r.Fault("connack_write_fails")
		if restored > 0 {
			r.Probe("fconn.failed_handshake_of_session_with_stored_subscriptions")
			nRemovedLive += had
		}
		hist = append(hist, c14Rec{id, "failed-conn(" + c14Mode(persist) + ")", inv, ret, fmt.Sprintf("restored %d", restored)})
		r.Eventf("%s failed-conn %s -> restored %d (%d,%d)", id, c14Mode(persist), restored, inv, ret)
		afterMutation(id)
	}

	// subOn: SUBSCRIBE on a connection that runs its own read/write loops (made by
	// handleConn): the SUBACK shows up on its fake socket.
	subOn := func(id string, c *Client, fc *c14FakeConn, subs []c14Sub, tag string) {
		fs, qs := clean(subs)
		if len(fs) == 0 {
			return
		}
		pkt := packets.NewControlPacket(packets.Subscribe).(*packets.SubscribePacket)
		mid++
		pkt.MessageID = mid
		pkt.Topics = fs
		pkt.Qoss = qs
		want := mid
		inv := r.Seq()
		if !call("processSubscribe ("+tag+")", func() { processSubscribe(c, pkt) }) {
			return
		}
		acked := yieldUntil(func() bool {
			for _, m := range fc.subacks {
				if m == want {
					return true
				}
			}
			return false
		}, 60)
		if sa, _ := drain(c); sa != nil && sa.MessageID == want {
			acked = true
		}
		ret := r.Seq()
		nBad := 0
		for _, f := range fs {
			if !c14Valid(f) {
				nBad++
			}
		}
		out := "refused"
		if acked {
			out = "suback"
		}
		hist = append(hist, c14Rec{id, tag + render(fs, qs), inv, ret, out})
		r.Eventf("%s %s %s -> %s (%d,%d)", id, tag, render(fs, qs), out, inv, ret)
		switch {
		case nBad > 0 && acked:
			violate("C14.malformed-accepted", "%s: SUBSCRIBE %s contains malformed filter(s) and was acknowledged", id, render(fs, qs))
			return
		case nBad == 0 && acked:
			for i, f := range fs {
				delete(lostRestore[id], f)
				ref.subscribe(id, f, qs[i])
			}
			r.Probe("race.subscribe_acknowledged_on_connection_made_by_handleConn")
		default:
			for i, f := range fs {
				if c14Valid(f) {
					ref.maybeSubscribe(id, f, qs[i])
				}
			}
		}
		afterMutation(id)
	}

	// doRace: two CONNECTs of the same (unconnected) id race; the storage is slow
	// for the first session read. Whoever registers second takes the other over
	// (the reference follows the order observed). If the second is through before
	// the first's read returns it SUBSCRIBEs at once. The loser's socket is hung
	// up, the survivor SUBSCRIBEs and hangs up too. Everything between the start
	// of the race and its settling happens without a gate: a handshake that waits
	// for the storage inside the broker lock holds a real mutex.
	doRace := func(id string, op c14Op) {
		if conns[id] != nil {
			return
		}
		if _, mk := ref.stored[id]["<<"]; mk {
			return
		}
		fcA, fcB := newFake(id, op.P), newFake(id, op.P2)
		if fcA == nil || fcB == nil {
			return
		}
		inv := r.Seq()
		slowStore.armed = sessionStoreKey(id)
		slowStore.release = make(chan struct{})
		doneA := goHandle(fcA)
		yieldUntil(func() bool { return slowStore.waiting || isClosed(fcA.ready) || isClosed(doneA) }, 2000)
		slow := slowStore.waiting
		slowStore.armed = ""
		doneB := goHandle(fcB)
		yieldUntil(func() bool { return isClosed(fcB.ready) || isClosed(doneB) }, 400)
		bFirst := slow && isClosed(fcB.ready)
		if slow {
			r.Fault("slow_storage_read_during_connect")
		}
		if bFirst {
			// the second CONNECT overtook the first one's session read
			r.Probe("race.second_connect_completed_during_first_ones_storage_read")
			ref.connect(id, op.P2, false)
			if cB := b.getClient(id); cB != nil && !fatal {
				subOn(id, cB, fcB, op.Subs, "race-sub(overtaker)")
			}
		} else if slow {
			r.Probe("race.second_connect_waited_for_first_ones_storage_read")
		}
		close(slowStore.release)
		yieldUntil(func() bool {
			return (isClosed(fcA.ready) || isClosed(doneA)) && (isClosed(fcB.ready) || isClosed(doneB))
		}, 4000)
		if fatal {
			return
		}
		cur := b.getClient(id)
		var fcW, fcL *c14FakeConn
		var doneW, doneL chan struct{}
		pW, pL := op.P, op.P2
		switch {
		case cur != nil && cur.conn == net.Conn(fcA):
			fcW, doneW, fcL, doneL = fcA, doneA, fcB, doneB
		case cur != nil && cur.conn == net.Conn(fcB):
			fcW, doneW, fcL, doneL = fcB, doneB, fcA, doneA
			pW, pL = op.P2, op.P
		default:
			// nobody is registered: not expected, hang both up and let routing judge
			close(fcA.hangup)
			close(fcB.hangup)
			<-doneA
			<-doneB
			if bFirst {
				settle(id)
			}
			afterMutation(id)
			return
		}
		if bFirst && fcW == fcB {
			// the overtaker is also the survivor: the first CONNECT never took over (not expected either)
			r.Probe("race.first_connect_did_not_register")
		} else {
			if !bFirst {
				ref.connect(id, pL, false)
			}
			settle(id)
			ref.connect(id, pW, false)
		}
		ret := r.Seq()
		conns[id] = &c14Conn{cur, cur.session}
		hist = append(hist, c14Rec{id, "race-conn(" + c14Mode(op.P) + "," + c14Mode(op.P2) + ")", inv, ret, fmt.Sprintf("overtaken=%v survivor=%s", bFirst, c14Mode(pW))})
		r.Eventf("%s race-conn %s %s overtaken=%v survivor=%s (%d,%d)", id, c14Mode(op.P), c14Mode(op.P2), bFirst, c14Mode(pW), inv, ret)
		// the loser's socket is hung up: its read loop's teardown must leave the id alone
		close(fcL.hangup)
		<-doneL
		afterMutation(id)
		if fatal {
			return
		}
		r.Sleep(0)
		if fatal || r.Aborted() {
			return
		}
		subOn(id, cur, fcW, op.Subs2, "race-sub(survivor)")
		if fatal {
			return
		}
		r.Sleep(0)
		if fatal || r.Aborted() {
			return
		}
		inv = r.Seq()
		close(fcW.hangup)
		<-doneW
		had := settle(id)
		ret = r.Seq()
		delete(conns, id)
		olds[id] = append(olds[id], cur)
		if had > 0 {
			nRemovedLive += had
			if ref.persist[id] {
				r.Probe("disc.persistent_session_keeps_subscriptions")
			}
		}
		hist = append(hist, c14Rec{id, "race-disc", inv, ret, fmt.Sprint(had)})
		r.Eventf("%s race-disc -> removed %d (%d,%d)", id, had, inv, ret)
		afterMutation(id)
	}

	seenID := map[string]bool{}
	for ti := range sc.Tasks {
		t := sc.Tasks[ti]
		if t.ID == "" || seenID[t.ID] {
			continue
		}
		seenID[t.ID] = true
		persistOf[t.ID] = t.Persist
		r.Go(t.ID, func() {
			for _, op := range t.Ops {
				if fatal || r.Aborted() {
					return
				}
				gap := op.GapUs
				if gap < 0 || gap > 1000000 {
					gap = 0
				}
				r.Sleep(time.Duration(gap) * time.Microsecond)
				if fatal || r.Aborted() {
					return
				}
				full := mgr.levelMgr.data.Len() >= cache
				switch op.K {
				case "sub":
					doSub(t.ID, op.Subs)
				case "unsub":
					doUnsub(t.ID, op.Subs)
				case "disc":
					doDisc(t.ID, op)
				case "late":
					doLate(t.ID, op.N)
				case "fconn":
					doFailConn(t.ID, op.P)
				case "race":
					doRace(t.ID, op)
				case "conn":
					if conns[t.ID] == nil {
						connect(t.ID, op.P)
					}
				case "pub":
					doPub(t.ID, op.T, "pub")
				}
				if full {
					r.Probe("lru.operation_with_full_cache")
				}
			}
		})
	}
	r.WaitTasks()
	if fatal || r.Aborted() {
		return
	}
	// non-triviality is decided by the tasks' own history, not by the final sweep/teardown
	nontrivial := nPubHit > 0 && nWild > 0 && nRemovedLive > 0 && nPubAfterRemoval > 0
	if nRemovedLive > 0 {
		r.Probe("history.removed_live_subscription")
	}
	// final sweep at quiescence: scenario's sweep topics and a witness per live filter
	sweep := map[string]bool{}
	for _, t := range sc.Sweep {
		sweep[t] = true
	}
	for _, id := range c14Keys(ref.subs) {
		for _, f := range c14Keys(ref.subs[id]) {
			for _, t := range c14Witness(f) {
				sweep[t] = true
			}
		}
	}
	n := 0
	for _, t := range c14Keys(sweep) {
		if fatal || n >= 40 {
			break
		}
		n++
		doPub("final", t, "sweep")
	}
	// everybody leaves: nothing may remain
	final = true
	for _, id := range c14Keys(conns) {
		if fatal {
			return
		}
		doDisc(id, c14Op{})
	}
	if fatal {
		return
	}
	for _, t := range c14Keys(sweep) {
		if fatal {
			return
		}
		doPub("final", t, "after-all-left")
	}
	if !fatal && ref.live() == 0 {
		var ents []c14TrieEnt
		var dangling []string
		nodes := 0
		c14Walk(mgr.root, nil, &ents, &nodes, &dangling)
		tolerated := 0
		for _, e := range ents {
			if ref.zomb[e.c] != nil && ref.zomb[e.c][e.f] != nil {
				tolerated++
			}
		}
		if nodes > 0 && tolerated == 0 {
			violate("C14.residue-nodes", "after every client unsubscribed or disconnected the trie still has %d node(s), entries %v", nodes, ents)
			return
		}
		if nodes == 0 {
			r.Probe("trie.empty_after_all_left")
		}
	}
	if nWild > 0 {
		r.Probe("route.wildcard_match")
	}
	if nontrivial {
		r.Nontrivial()
	}
	var sig strings.Builder
	fmt.Fprintf(&sig, "%d|", cache)
	for _, h := range hist {
		fmt.Fprintf(&sig, "%s:%s=%s;", h.Task, h.What, h.Out)
	}
	r.SetSig(sig.String())
}

func c14Render(res map[string]byte) string {
	var out []string
	for _, id := range c14Keys(res) {
		out = append(out, fmt.Sprintf("%s:%d", id, res[id]))
	}
	return "[" + strings.Join(out, " ") + "]"
}

func TestVerifC14(t *testing.T) {
	hdrv.Main(t, &hdrv.Harness{
		ID:       "C14",
		Gen:      c14Gen,
		New:      func() interface{} { return &c14Scenario{} },
		Exec:     c14Exec,
		MaxSteps: 20000,
		Rule: "scenario = LRU size from {1,2,4,64} + 2-5 client tasks (subscribe/unsubscribe lists, re-subscribe with other QoS, unsubscribe of filters not held, malformed filters, disconnect by plain teardown / after a broker-initiated close / after an admin deletion of the session / after the write loop's own clean-up, the last three optionally with a window in which one more SUBSCRIBE or UNSUBSCRIBE is processed (also inside the write loop's closeAndDelSession, before its Client.close()) and, after a broker-initiated close, in which a successor connection made by the real Broker.handleConn comes and goes (or fails to write its CONNACK), a handshake of an unconnected id whose CONNACK cannot be written, two racing CONNECTs of one id with a slow storage read for the first, a repeated teardown of an earlier connection, reconnect with cleanSession true/false incl. restore of the stored session's subscriptions) and 1-2 publisher tasks over filters/topics of <=4-5 (11%: <=9) levels from {a,b,ab,'',+,#} plus, in 30% of the scenarios, 1-3 level strings from a list of 48 unusual ones (blanks, YAML-special text, upper case, CJK, emoji, 130+ bytes, '$' prefixes), <=60 operations; " +
			"non-trivial = some publish was routed through a wildcard filter and some publish happened after a live subscription had been removed; distinct = distinct (cache size, linearised operation history with results) signatures",
		Real: []string{"pkg/object/mqttproxy/topic.go (TopicManager: subscribe, unsubscribe, findSubscribers, insert, remove, splitTopic, level LRU)",
			"pkg/object/mqttproxy/client.go (processSubscribe, processUnsubscribe, Client.closeAndDelSession, close)",
			"pkg/object/mqttproxy/session.go + session_manager.go (Session.subscribe/unsubscribe/allSubscribes/updateEGName/store, SessionManager.newSessionFromConn/newSessionFromYaml/get/doStore/delLocal/delDB), Broker.setSession/removeClient/deleteSession, Broker.handleConn + Client.readLoop/writeLoop for successor connections, storage.go mockStorage"},
		Stub: []string{"no sockets (except a fake one for successor connections, which go through the real Broker.handleConn/readLoop/writeLoop): the harness performs handleConn's connection steps and readLoop's teardown steps with the real functions and calls the packet handlers directly (no readLoop/writeLoop, no pipelines)",
			"no sync primitive is replaced: operations are atomic between the task-level gates in front of them (see header); map ranges of topic.go/session.go iterate in a tape-determined order",
			"storage = the repo's mockStorage"},
		Assumptions: []string{
			"each operation runs atomically between two task-level gates (no gate inside production code), so the order of the harness's records is the linearisation order; invoke/return stamps are recorded for a later porcupine check; data races / missing locks are out of reach of this check",
			"not generated: empty filter, empty topic name, topic names containing '+' or '#', control characters in level strings",
			"a topic name starting with '$' may or may not be routed through a filter whose first level is a wildcard (MQTT 3.1.1 4.7.2 forbids it, the statement's summary of the rules is silent); through a literal first level '$' is an ordinary character",
			"between the two halves of a two-phase disconnect (Client.close() / admin deletion / write loop clean-up ... read loop teardown) the client's subscriptions, and the effect of one SUBSCRIBE/UNSUBSCRIBE processed in that window, are optional (an acknowledged SUBSCRIBE after a mere Client.close() counts); after the second half nothing of the client may be routed (C14.late-subscribe-residue for what a late SUBSCRIBE left)",
			"entries of a cleanSession=false session touched in such a window, and the whole session after an admin deletion, may or may not come back at the next cleanSession=false connect",
			"a stored cleanSession=false session must come back whatever (control-character-free) text its filters consist of (C14.restore-lost.stored-session-undecodable otherwise)",
			"a repeated teardown of a connection that was torn down earlier must not change anything",
			"a handshake that fails at the CONNACK counts as a connect plus a disconnect: the id is not routed afterwards and a cleanSession=false session keeps its subscriptions; whether a failed cleanSession=true CONNECT discarded the stored session is left open",
			"of two racing CONNECTs of one id the one that registers second (observed) takes the other over; subscriptions acknowledged on either survive exactly if both sessions are cleanSession=false",
			"a connection of an id whose closed predecessor still lingers holds the predecessor's subscriptions exactly if both sessions are cleanSession=false; a SUBSCRIBE still processed by the superseded connection is optional while the id is connected and must be gone once the successor has left",
			"when several subscriptions of a client match, the QoS of any of them is accepted",
			"a client with a cleanSession=false session is not in the routing set while it is away; after its cleanSession=false reconnect it holds the stored subscriptions with the QoS of the last subscribe of each filter",
			"not generated: take-over of a still connected id (C16)",
			"a refused SUBSCRIBE list mixing valid and malformed filters may or may not install its valid filters while the client is connected; after disconnect nothing may remain (C14.partial-subscribe-residue otherwise)",
			"an acknowledged UNSUBSCRIBE list mixing valid and malformed filters must have removed its valid filters (C14.partial-unsubscribe-residue otherwise); unacknowledged: both outcomes accepted",
			"SUBACK return code values are not compared",
			"trie nodes without clients and children are reported as residue (C14.residue-nodes) although they cannot affect routing by themselves",
		},
	})
}
