//go:debug asynctimerchan=0
//go:build go1.21

package mqttproxy

// C16 — MQTT sessions survive reconnect and client-id takeover as cleanSession
// dictates.
//
// System under test (all real, instrumented copies): Broker (newBroker,
// handleConn, setSession, deleteSession, watchDelete, removeClient,
// sendMsgToClient, the two admin HTTP handlers), Client (readLoop, writeLoop,
// closeAndDelSession, close), SessionManager, Session (resend ticker on the
// virtual clock), TopicManager. The broker's own accept loop (Broker.run)
// listens through netshim on a simulated port nobody dials; the harness owns a
// second simnet listener whose accept loop calls the real Broker.handleConn in
// a goroutine with a recover(), so that a panic inside the connection handler
// (which would kill the whole easegress process) is a reportable violation and
// so that the harness knows the instant at which each handler has returned
// (= the connection has been torn down completely).
//
// Stubbed: storage (c16Store: map + delete-watch with etcd semantics, optional
// latency/gates and injected errors), the MQTT clients (raw paho packet codec
// over simnet connections), pipelines (stub MuxMapper, see the extension below;
// Spec.Rules is empty in the classic configuration).
//
// Reference model (written from the property statement and MQTT 3.1.1 §3.1.2.4
// / §4.7, not from the implementation): per contested client id one session =
// {persistent?, filter -> QoS}. CONNACK of a connection with clean=1 starts an
// empty non-persistent session; with clean=0 the previous session is kept iff
// it exists and was created by a clean=0 connection, else an empty persistent
// one starts. An acknowledged SUBSCRIBE/UNSUBSCRIBE on the current connection
// changes the session. A topic matches a filter per §4.7 ('+' one level, '#'
// the rest incl. the parent).
//
// Oracle (evaluated for the surviving connection S = the last scripted
// connection, if it is accepted and scripted to stay; all waits are
// progress-based with a 40 min virtual time-out because scheduler stalls may
// let 20 min pass while a task is parked):
//   * S is not closed by the server; b.clients[id] is S's connection and not
//     marked disconnected; sessionMap[id] is S's session and not closed; every
//     firm model filter is in the topic trie for id.
//   * probe publishes on all probe topics, followed by a PINGREQ/PINGRESP
//     barrier on S (PINGRESP travels through the same queue and TCP stream as
//     the deliveries, so it is a sound "nothing more is coming" marker):
//     S received every probe matching a firm model filter and no probe that
//     matches no filter it may have.
//   * bystanders (other ids subscribed to the same filters) are unaffected.
//   * optionally: DELETE through the admin handler => id leaves b.clients,
//     later probes are not delivered, and after its next packet (PINGREQ) the
//     connection is closed by the server.
//   * every quiescent point: b.clients[id], if present, is not an older
//     connection than the latest one acknowledged to a client, is not a
//     connection whose handler has returned, and is present while the latest
//     acknowledged connection is healthy.
//   * no panic in handleConn; no request left without answer (stuck broker).
//
// Oracle decisions (statement silent / two readings) — accepted both ways or
// not generated:
//   * a SUBSCRIBE/UNSUBSCRIBE whose acknowledgement was not read while its
//     connection was still the current one (connection ended, a newer CONNECT
//     had been sent, or the final checks - white-box and probes - had begun;
//     no_wait steps may be half applied then: trie changed, session not yet):
//     its filters are
//     "ambiguous" for the rest of the run and are neither required nor
//     forbidden to deliver. A superseded connection issues no further steps.
//   * after an injected storage error (get/put/delete) every filter ever used
//     by the contested id is ambiguous at the next reconnect (the statement
//     does not cover storage failure).
//   * the CONNACK session-present flag and SUBACK return codes are not checked.
//   * the surviving connection uses keep-alive 0 or 3600 s: a scheduler stall
//     may otherwise expire a healthy connection's keep-alive (not a defect). A
//     last connection with a short keep-alive is not treated as a survivor.
//   * QoS1 publishes are only generated when every subscription is QoS1 (the
//     QoS-downgrade enumeration is C15's subject); QoS2 never.
//   * handshake aborts (connection dropped between CONNECT and CONNACK), two
//     CONNECTs of the same id in flight at once, admin deletes of the contested
//     id racing scripted connects are not generated.
//   * "admin delete disconnects that client" is asserted only if the session
//     key existed in the store at that moment and the delete did not fail; TCP
//     closure is required only after the client's next packet.
//   * a superseded connection gets no answers any more and is not closed by
//     the broker either (until its next packet / keep-alive): not asserted.
//   * per-segment latency is capped at 5 ms when segments or the window are
//     tiny: otherwise the link is slower than the broker's 200 ms resend rate
//     and the run ends in a congestion collapse unrelated to the property.
//   * the session store is asynchronous in easegress (SUBACK is sent before the
//     session is persisted). Runs with storage latency (store.async) report
//     missing/stale inherited subscriptions of a session restored from the
//     store under their own class suffix ".store-lag".
//
// Classes (mechanism in the name where the harness's own observations decide
// it: order of handler returns vs. CONNACKs, the store's delete log, white-box
// comparison of trie / session object / model):
//   C16.takeover.session-entry-removed, .subscription-removed, .delivery-lost,
//     .stored-session-deleted, .successor-killed   superseded connection's
//     teardown wiped the successor's sessionMap entry / trie entries / stored
//     session / registration (via the delete-watch). successor-killed is used
//     only when the connection that called delDB no longer owned the id (the
//     store asks the harness at the moment of the delete: the *Client on the
//     caller's stack vs. b.clients[id])
//   C16.discarded-session-still-delivers   trie entries of a session that had
//     to be discarded (clean=1 takeover, or predecessor was clean) still route
//   C16.stuck.session-locked-by-full-queue, .handler-never-returns, .session-locked
//     publish/resend blocked on a full write queue while holding the session mutex
//   C16.panic.session-closed-twice (and the driver's C16.process-crash)
//     close(s.done) twice: setSession's prevSess.close() racing delLocal
//   C16.reconnect.killed-by-own-delete-event   the delete-watch echo of a
//     legitimate delDB (by the owner of the id, end of a clean session)
//     disconnects the id's next connection, reconnect or takeover alike
//   C16.takeover.old-connection-overwrote-session   a packet of the superseded
//     connection processed after the takeover stored its old session over the new
//   C16.stored-session-stale   Session.store snapshots reached the storage in
//     reverse order (decided by elimination: no latency, error, deletion, late packet)
//   C16.reconnect.subscription-not-restored[.store-lag], C16.reconnect.stale-session-restored[.store-lag]
//   C16.session-entry-lost, C16.registration-lost, C16.survivor-disconnected,
//   C16.own-subscription-lost, C16.invariant.{stale,dead}-registration,
//   C16.invariant.registration-missing, C16.admin-delete.*, C16.bystander-*,
//   C16.connect-dropped/-refused, C16.no-response.<what>, C16.panic.handleConn
//
// Extension "ordinary configurations and inputs" (about half of the runs; the
// other half keeps the classic configuration):
//   * contested client id drawn from c16IDs (path-like, blanks, digits, words
//     YAML gives a meaning to - the stored session is YAML -, non-ASCII, long);
//     bystander ids that extend the contested id; the stored session of an
//     offline persistent client "<id>zz".
//   * Spec options: topicCacheSize 1/2/7, maxAllowedConnection and
//     connectionLimit/clientPublishLimit set but never binding, rules (pipelines)
//     for Connect (authenticates the password), Subscribe, Unsubscribe,
//     Disconnect, Publish through a stub MuxMapper whose handlers let everything
//     pass and may take up to 300 ms (also under the broker lock, as in
//     deleteSession -> Client.close -> Disconnect pipeline).
//   * CONNECT as MQTT 3.1 (MQIsdp/3), with user name/password, with a will
//     message; one SUBSCRIBE with a QoS per filter (0/1/2); the client publishes
//     (QoS0/1, PUBACK awaited).
//   * connection attempts with the contested id that the broker has to refuse
//     (wrong password, protocol level 5, password without user name, first packet
//     not CONNECT, half a CONNECT): not a takeover - the invariant forbids their
//     registration (C16.refused-connection-registered), an accepting CONNACK is
//     C16.intruder-accepted, and the survivor's checks run as usual.
//   * admin DELETE of sessions of other ids while the script runs (nobody's id,
//     "<id>zz", bystanders): the contested id is judged as usual, a deleted
//     bystander is not judged; after the final admin DELETE of the contested id
//     the other ids must still be registered (C16.admin-delete.other-client-affected).
//   * the delete watch breaks (cluster.watcher closes its channel when etcd
//     cancels the watch) and Broker.reconnectWatcher re-establishes it: a client
//     whose session key was in the store when the broker listed the keys must
//     stay connected (C16.watch-reconnect.healthy-client-closed, found on the
//     unchanged tree and repaired in /repo 1ae7e3f: the listing is keyed by store
//     keys, the loop looked up bare client ids, every client was closed); an id
//     whose key was missing then (deleted, or not stored yet) is not judged.
//     Deletions while the watch is down produce no event.
//   * gap_delete: an admin DELETE of the session of a connected client (the
//     contested id or a bystander) issued from inside the simulated store between
//     the two storage calls of Broker.reconnectWatcher (new watch / listing of
//     the keys, whatever their order): the deletion is in the listing or is
//     reported by the new watch, so the client registered at that moment has to
//     be closed or unregistered (polled up to the usual time-out):
//     C16.admin-delete.lost-during-watch-reconnect. The contested id is not
//     judged by the survivor's checks afterwards.
//   * store_quiet (a recipe with a slow storage and connections that end right
//     behind their last acknowledged (un)subscribe, and 30 % of the runs with
//     storage latency): every reconnect first waits until the storage has caught
//     up (no get/put/delete in flight or started during 21 polls of 1 s; at most
//     20 scheduler stalls per run). A subscription missing from / left over in a
//     session restored from the storage is then NOT the known store lag (SUBACK
//     before persistence; the snapshot arrives late but arrives) but a snapshot
//     that never arrived: C16.reconnect.subscription-never-persisted,
//     C16.reconnect.unsubscribe-never-persisted (only without injected storage
//     errors, watch breaks and broker-side deletions of the key).
//   * overlap recipe: a cleanSession=false reconnect whose client does not read
//     (2-byte socket window: the broker's CONNACK write is parked) until the NEXT
//     connection of the id - mostly clean=1 - has completed its takeover; the
//     driver waits for the parked connection's registration (white box) instead
//     of its CONNACK. The parked connection never becomes the model's current
//     one (a clean=0 connection in between changes nothing for the successor's
//     session). What the superseded handler does after its write returns must
//     not touch the successor: the usual survivor checks decide
//     (C16.discarded-session-still-delivers, C16.takeover.*).
//   * batch_watch: the deletions of ONE admin request (several sessions) are
//     reported by the delete watch in one event = one map with several keys (the
//     storage interface's event type; Broker.watchDelete loops over it). Every
//     client that was registered for a deleted (existing) session while the
//     watch was up has to be disconnected: C16.admin-delete.other-client-still-registered
//     (bystanders), C16.admin-delete.client-still-registered (the final request
//     deletes the contested id together with the offline "<id>zz"). Note: today's
//     clusterStorage never produces such events (cluster.watcher.WatchWithOp sends
//     one single-key map per etcd event); this explores the interface contract
//     only and is therefore OFF (const c16GenBatchWatch): code that is right for
//     every event the real store can deliver must not be reported. The seeded
//     change C16-r5m3 breaks nothing with the real store; it is caught with the
//     switch on.
//   * F5: a session holding QoS0 and QoS>=1 filters gets a second probe round
//     with QoS1 messages: every firm filter subscribed with QoS>=1 must deliver
//     (C16.subscription-qos-lost, C16.reconnect.subscription-qos-not-restored);
//     inherited filters count only if the id never asked for them with QoS0
//     (store lag may restore an older snapshot); where only QoS0 filters match
//     both outcomes are accepted.
//   * F6 slow consumer (all-QoS1 runs): 55-100 QoS1 messages are published while
//     the survivor does not read for a second (more than the 50-slot queue, padded
//     also more than the socket buffer); once it reads and acknowledges again all
//     of them must arrive (C16.qos1-messages-never-delivered,
//     C16.reconnect.restored-session-never-redelivers when its session came from
//     the store). Link latency is capped at 5 ms in these runs and the padding is
//     dropped on tiny windows (resend every 200 ms against a link slower than that
//     is the congestion collapse mentioned above).
//   * the CONNACK session-present flag is compared with MQTT 3.1.1 §3.2.2.2 as a
//     probe only (easegress sends the clean flag: observation, not asserted).
//
// Determinism notes: every client write is preceded by an odd number of
// nanoseconds of sleep (distinct per client); connection handlers run as named
// tasks; the handler-return record passes a gate first; nothing is recorded
// while the run is wound down. check.json opts mqttproxy into select
// determinisation, go-statement gates (needed to reach the reversed store
// snapshots) and the time shim (tickers of sessions created at one instant).

import (
	"bytes"
	"context"
	"encoding/json"
	"fmt"
	"net"
	"net/http"
	"net/http/httptest"
	"os"
	"runtime"
	"runtime/debug"
	"sort"
	"strings"
	"sync"
	"testing"
	"time"

	"github.com/eclipse/paho.mqtt.golang/packets"
	egcontext "github.com/megaease/easegress/pkg/context"
	"github.com/megaease/easegress/pkg/logger"
	"github.com/megaease/easegress/pkg/protocols/mqttprot"
	"verif/simkit/hdrv"
	"verif/simkit/sim"
	"verif/simkit/simnet"
)

const (
	c16Timeout = 40 * time.Minute

	// generator switch for the watch-break range: it met a genuine defect
	// (C16.watch-reconnect.healthy-client-closed), repaired in /repo 1ae7e3f
	c16GenWatchBreak = true
)

// c16ID is the contested client id of the current run (runs of one worker
// process are sequential; set from the scenario at the start of Exec).
var c16ID = "X"

// c16IDs: ordinary client ids of real deployments - path-like, with blanks,
// digits only, words YAML gives a meaning to (the stored session is YAML),
// non-ASCII, long. The first one is the default.
var c16IDs = []string{"X", "dev/7", "a b", "0123", "true", "null", "x:y", "~", "#x", "[1]", "m\u00fcller-\u00df", "'q'", "- z", "id: 1",
	"sensor-0123456789-0123456789-0123456789-0123456789-0123456789-0123456789"}

var (
	c16Filters = []string{"a/b", "a/+", "a/#", "c", "c/d", "+/d"}
	c16Topics  = []string{"a/b", "a/x", "c", "c/d", "z"}
)

// ---- scenario ---------------------------------------------------------------

type c16Step struct {
	Op      string   `json:"op"` // sub | unsub | ping | pub
	Filters []string `json:"filters"`
	QoS     byte     `json:"qos"`
	QoSs    []byte   `json:"qoss"` // sub: one requested QoS per filter (used when as long as filters and not all_qos1)
	GapUs   int64    `json:"gap_us"`
	NoWait  bool     `json:"no_wait"`
}

type c16Conn struct {
	Clean      bool      `json:"clean"`
	KeepAlive  uint16    `json:"keepalive"`
	GapUs      int64     `json:"gap_us"` // after the previous connection's CONNACK
	Steps      []c16Step `json:"steps"`
	End        string    `json:"end"` // stay | stall | disconnect | close | reset | silent | ping
	EndUs      int64     `json:"end_us"`
	NoAck      bool      `json:"no_ack"`
	Pipeline   bool      `json:"pipeline"` // the first step is sent right behind CONNECT, before CONNACK is read
	V31        bool      `json:"v31"`      // CONNECT as MQTT 3.1 ("MQIsdp", level 3)
	Will       bool      `json:"will"`     // CONNECT carries a will message
	Overlap    bool      `json:"overlap"`  // (clean=0, not the last one) the client does not read its CONNACK - the socket window is 2 bytes, the broker's CONNACK write is parked - until the NEXT connection has completed its handshake
	HoldUs     int64     `json:"hold_us"`  // overlap: extra time before the CONNACK is read
	SegC2S     []int     `json:"seg_c2s"`
	DelayC2SUs []int64   `json:"delay_c2s_us"`
	DelayS2CUs []int64   `json:"delay_s2c_us"`
}

type c16By struct {
	Filters []string `json:"filters"`
	QoS     byte     `json:"qos"`
	Clean   bool     `json:"clean"`
}

type c16Pub struct {
	GapUs int64  `json:"gap_us"`
	Topic string `json:"topic"`
	QoS   byte   `json:"qos"`
}

type c16StoreF struct {
	Async        bool    `json:"async"` // operations take time / pass a gate
	PutDelayUs   []int64 `json:"put_delay_us"`
	GetDelayUs   []int64 `json:"get_delay_us"`
	DelDelayUs   []int64 `json:"del_delay_us"`
	WatchDelayUs []int64 `json:"watch_delay_us"`
	PutErr       []int   `json:"put_err"` // ordinal numbers of failing calls
	GetErr       []int   `json:"get_err"`
	DelErr       []int   `json:"del_err"`
}

// c16Pipes: pipelines configured for the packet types (Spec.Rules). The Connect
// pipeline authenticates (password "ok"), the others let everything pass; all
// may take time.
type c16Pipes struct {
	Connect     bool    `json:"connect"`
	Subscribe   bool    `json:"subscribe"`
	Unsubscribe bool    `json:"unsubscribe"`
	Disconnect  bool    `json:"disconnect"`
	Publish     bool    `json:"publish"`
	DelayUs     []int64 `json:"delay_us"`
}

// c16Intr: a connection attempt that uses the contested client id and is
// refused (never a takeover).
// c16GenBatchWatch: deliver the deletions of one admin request as one multi-key
// watch event. OFF: the real clusterStorage delivers one key per event.
const c16GenBatchWatch = false

type c16Intr struct {
	GapUs int64  `json:"gap_us"` // since the start of the run
	Kind  string `json:"kind"`   // badauth | badproto | pwnouser | notconnect | half
	Clean bool   `json:"clean"`
}

// c16Adm: an admin DELETE of sessions of OTHER ids while the script runs.
type c16Adm struct {
	GapUs int64    `json:"gap_us"`
	IDs   []string `json:"ids"` // nobody | ext (contested id + "zz") | by0 | by1
}

type c16Scenario struct {
	ID          string    `json:"id"`        // contested client id (one of c16IDs)
	ByExt       bool      `json:"by_ext"`    // bystander ids extend the contested id
	TopicCache  int       `json:"topic_cache"`
	MaxConn     bool      `json:"max_conn"`   // maxAllowedConnection set, never binding
	ConnLimit   bool      `json:"conn_limit"` // connectionLimit / clientPublishLimit set, never binding
	Creds       bool      `json:"creds"`      // clients send user name and password
	Pipes       c16Pipes  `json:"pipes"`
	Intr        []c16Intr `json:"intr"`
	Adm         []c16Adm  `json:"adm"`
	WatchBreakUs []int64  `json:"watch_break_us"` // instants (since start) at which the delete watch breaks
	GapDelete   string    `json:"gap_delete"`  // x | by0 | by1: admin DELETE of that id's session in the middle of a watch re-establishment (between the two storage calls of Broker.reconnectWatcher)
	BatchWatch  bool      `json:"batch_watch"` // the deletions of one admin request reach the delete watch as ONE event (map with several keys)
	StoreQuiet  bool      `json:"store_quiet"` // every reconnect waits until the storage has caught up (no operation in flight or started for 21 polls)
	Conns       []c16Conn `json:"conns"`
	By          []c16By   `json:"by"`
	Pubs        []c16Pub  `json:"pubs"`
	Store       c16StoreF `json:"store"`
	BufSize     int       `json:"buf_size"`
	AllQoS1     bool      `json:"all_qos1"`
	AdminDelete bool      `json:"admin_delete"`
	Burst       int       `json:"burst"`     // final check: QoS1 messages published while the survivor does not read for a while (0 = none)
	BurstPad    int       `json:"burst_pad"` // payload padding in bytes
}

func c16PickFilters(rng *sim.Rand) []string {
	n := rng.Pick(1, 1, 1, 2, 3)
	var out []string
	for i := 0; i < n; i++ {
		out = append(out, c16Filters[rng.Intn(len(c16Filters))])
	}
	return out
}

func c16Gen(rng *sim.Rand, tier string) interface{} {
	sc := &c16Scenario{}
	sc.AllQoS1 = rng.Bool(0.35)
	sc.BufSize = rng.Pick(0, 0, 0, 4096, 256, 96)
	sc.AdminDelete = rng.Bool(0.3)
	if rng.Bool(0.15) {
		sc.Store.Async = true
		d := func() []int64 {
			var out []int64
			for i := rng.Range(1, 3); i > 0; i-- {
				out = append(out, int64(rng.Pick(0, 0, 50, 2000, 100000, 1500000)))
			}
			return out
		}
		sc.Store.PutDelayUs, sc.Store.GetDelayUs, sc.Store.DelDelayUs, sc.Store.WatchDelayUs = d(), d(), d(), d()
	}
	if rng.Bool(0.05) {
		e := func() []int {
			if rng.Bool(0.5) {
				return nil
			}
			return []int{rng.Range(1, 6)}
		}
		sc.Store.PutErr, sc.Store.GetErr, sc.Store.DelErr = e(), e(), e()
	}
	// odd values: instants of the script should not coincide with the 200 ms
	// resend ticks and keep-alive deadlines of the code under test (ties between
	// timers of production goroutines are not reproducible)
	connGaps := []int{0, 53, 1003, 20011, 307000, 2003000, 4001000, 12007000}
	stepGaps := []int{0, 0, 101, 1007, 50700, 1009000}
	endGaps := []int{0, 103, 2011, 103000, 1013000, 3001000, 8017000}
	qos := func() byte {
		if sc.AllQoS1 {
			return 1
		}
		return byte(rng.Intn(2))
	}
	plan := func(c *c16Conn) {
		if rng.Bool(0.3) {
			c.SegC2S = [][]int{{1}, {2, 3}, {5}}[rng.Intn(3)]
		}
		if rng.Bool(0.3) {
			c.DelayC2SUs = []int64{int64(rng.Pick(200, 3000, 50000, 700000))}
		}
		if rng.Bool(0.2) {
			c.DelayS2CUs = []int64{int64(rng.Pick(100, 5000, 200000))}
		}
	}
	steps := func(n int) []c16Step {
		var out []c16Step
		for i := 0; i < n; i++ {
			s := c16Step{Op: "sub", Filters: c16PickFilters(rng), QoS: qos(), GapUs: int64(stepGaps[rng.Intn(len(stepGaps))])}
			switch x := rng.Intn(10); {
			case x < 2:
				s.Op = "unsub"
			case x < 3:
				s.Op = "ping"
			case x < 4 && rng.Bool(0.5):
				// the client publishes (PUBLISH goes to the Publish pipeline, if
				// any, and is acknowledged when QoS1)
				s.Op = "pub"
			}
			if s.Op == "sub" && !sc.AllQoS1 && len(s.Filters) > 1 && rng.Bool(0.5) {
				// one SUBSCRIBE asking for different QoS per filter (2 is granted or
				// lowered by the server, either way the subscription exists)
				for range s.Filters {
					s.QoSs = append(s.QoSs, byte(rng.Pick(0, 1, 1, 2)))
				}
			}
			s.NoWait = rng.Bool(0.15)
			out = append(out, s)
		}
		return out
	}
	if rng.Bool(0.06) {
		// recipe: a reconnect whose CONNACK write is parked (the client does not
		// read, tiny window) while the next connection of the id takes over
		sc.Store = c16StoreF{}
		c0 := c16Conn{Clean: false, End: rng.PickStr("stay", "silent", "disconnect", "close", "reset"), EndUs: int64(rng.Pick(103, 2011, 103000))}
		c0.Steps = steps(rng.Pick(1, 1, 2))
		for i := range c0.Steps {
			c0.Steps[i].Op, c0.Steps[i].NoWait = "sub", false
		}
		c1 := c16Conn{Clean: false, Overlap: true, GapUs: int64(rng.Pick(1003, 307000, 2003000)), HoldUs: int64(rng.Pick(0, 101, 50700)), End: "silent"}
		c2 := c16Conn{Clean: rng.Bool(0.8), GapUs: int64(rng.Pick(0, 53, 1003)), End: "stay", Steps: steps(rng.Pick(0, 0, 1))}
		sc.Conns = append(sc.Conns, c0, c1, c2)
	} else if rng.Bool(0.07) {
		// recipe: slow storage, the connection ends right behind its last
		// acknowledged (un)subscribe - its snapshot is still on its way to the
		// storage - and the client reconnects only when the storage has caught up
		sc.Store = c16StoreF{Async: true, PutDelayUs: []int64{int64(rng.Pick(100000, 1500000, 1500000))}, GetDelayUs: []int64{int64(rng.Pick(0, 50))}, DelDelayUs: []int64{0}, WatchDelayUs: []int64{0}}
		sc.StoreQuiet = true
		c0 := c16Conn{Clean: false, KeepAlive: uint16(rng.Pick(0, 0, 5)), End: rng.PickStr("disconnect", "close", "reset"), EndUs: int64(rng.Pick(0, 103, 2011, 103000))}
		c0.Steps = steps(rng.Pick(1, 1, 2, 3))
		for i := range c0.Steps {
			c0.Steps[i].GapUs = int64(rng.Pick(0, 0, 101, 50700))
			c0.Steps[i].NoWait = false
		}
		sc.Conns = append(sc.Conns, c0)
		if rng.Bool(0.3) {
			c := c16Conn{Clean: false, GapUs: int64(rng.Pick(53, 1003, 307000)), End: rng.PickStr("disconnect", "close", "reset"), EndUs: int64(rng.Pick(0, 103, 2011)), Steps: steps(rng.Pick(1, 1, 2))}
			for i := range c.Steps {
				c.Steps[i].NoWait = false
			}
			sc.Conns = append(sc.Conns, c)
		}
		sc.Conns = append(sc.Conns, c16Conn{Clean: false, GapUs: int64(rng.Pick(53, 1003, 307000)), End: "stay", Steps: steps(rng.Pick(0, 0, 1))})
	} else if rng.Bool(0.1) {
		// recipe: plain reconnect from the stored session (no takeover): connect,
		// (un)subscribe back-to-back, orderly end, later clean=0 reconnect
		sc.Store = c16StoreF{}
		c0 := c16Conn{Clean: false, KeepAlive: uint16(rng.Pick(0, 0, 5)), End: rng.PickStr("disconnect", "close", "reset"), EndUs: int64(rng.Pick(1013000, 3001000))}
		c0.Steps = steps(rng.Pick(1, 1, 2, 3))
		c0.Pipeline = rng.Bool(0.6)
		for i := range c0.Steps {
			c0.Steps[i].GapUs = int64(rng.Pick(0, 0, 101))
			c0.Steps[i].NoWait = false
		}
		sc.Conns = append(sc.Conns, c0)
		c1 := c16Conn{Clean: false, GapUs: int64(rng.Pick(4001000, 12007000)), End: "stay", Steps: steps(rng.Pick(0, 0, 1))}
		sc.Conns = append(sc.Conns, c1)
	} else if rng.Bool(0.12) {
		// recipe: a subscriber that stops reading while QoS1 messages are pending
		// (tiny socket buffer), taken over much later
		sc.AllQoS1 = true
		sc.BufSize = rng.Pick(64, 128, 200)
		f := c16Filters[rng.Intn(3)]
		c0 := c16Conn{Clean: rng.Bool(0.2), KeepAlive: uint16(rng.Pick(0, 0, 0, 5)), NoAck: true, End: "stall",
			Steps: []c16Step{{Op: "sub", Filters: []string{f}, QoS: 1}}}
		sc.Conns = append(sc.Conns, c0)
		for i := rng.Range(1, 6); i > 0; i-- {
			sc.Pubs = append(sc.Pubs, c16Pub{GapUs: int64(rng.Pick(50700, 103000, 307000)), Topic: "a/b", QoS: 1})
		}
		c1 := c16Conn{Clean: rng.Bool(0.25), GapUs: int64(rng.Pick(3001000, 14003000, 20011000, 30007000)), End: "stay", Steps: steps(rng.Range(0, 2))}
		plan(&c1)
		sc.Conns = append(sc.Conns, c1)
	} else {
		nconn := rng.Pick(1, 2, 2, 2, 3, 3, 4)
		for k := 0; k < nconn; k++ {
			last := k == nconn-1
			c := c16Conn{Clean: rng.Bool(0.4), GapUs: int64(connGaps[rng.Intn(len(connGaps))])}
			c.Steps = steps(rng.Pick(0, 1, 1, 2, 3))
			c.EndUs = int64(endGaps[rng.Intn(len(endGaps))])
			c.NoAck = rng.Bool(0.15)
			c.Pipeline = rng.Bool(0.2)
			if last && rng.Bool(0.92) {
				c.End = "stay"
				c.KeepAlive = uint16(rng.Pick(0, 0, 3600))
			} else {
				c.End = rng.PickStr("disconnect", "close", "reset", "reset", "silent", "silent", "stall", "ping", "stay")
				c.KeepAlive = uint16(rng.Pick(0, 0, 1, 2, 5))
			}
			plan(&c)
			sc.Conns = append(sc.Conns, c)
		}
		for i := rng.Pick(0, 0, 1, 3, 8); i > 0; i-- {
			p := c16Pub{GapUs: int64(rng.Pick(0, 1009, 103000, 1013000, 3001000)), Topic: c16Topics[rng.Intn(len(c16Topics))]}
			if sc.AllQoS1 && rng.Bool(0.7) {
				p.QoS = 1
			}
			sc.Pubs = append(sc.Pubs, p)
		}
	}
	for i := rng.Pick(0, 1, 1, 2); i > 0; i-- {
		sc.By = append(sc.By, c16By{Filters: c16PickFilters(rng), QoS: qos(), Clean: rng.Bool(0.5)})
	}
	if sc.Store.Async && !sc.StoreQuiet && rng.Bool(0.3) {
		sc.StoreQuiet = true
	}
	c16GenExtras(rng, sc)
	return sc
}

// c16GenExtras: ordinary configurations and inputs around the classic script
// (about half of the runs keep the classic configuration).
func c16GenExtras(rng *sim.Rand, sc *c16Scenario) {
	if rng.Bool(0.45) {
		return
	}
	if rng.Bool(0.5) {
		sc.ID = c16IDs[rng.Intn(len(c16IDs))]
	}
	sc.ByExt = rng.Bool(0.3)
	sc.TopicCache = rng.Pick(0, 0, 1, 2, 7)
	sc.MaxConn = rng.Bool(0.25)
	sc.ConnLimit = rng.Bool(0.25)
	sc.Creds = rng.Bool(0.3)
	if rng.Bool(0.45) {
		p := &sc.Pipes
		p.Connect, p.Subscribe, p.Unsubscribe, p.Disconnect, p.Publish = rng.Bool(0.6), rng.Bool(0.4), rng.Bool(0.4), rng.Bool(0.5), rng.Bool(0.4)
		for i := rng.Range(1, 3); i > 0; i-- {
			p.DelayUs = append(p.DelayUs, int64(rng.Pick(0, 0, 0, 57, 3001, 300007)))
		}
		if p.Connect {
			sc.Creds = true
		}
	}
	for k := range sc.Conns {
		sc.Conns[k].V31 = rng.Bool(0.2)
		sc.Conns[k].Will = rng.Bool(0.2)
	}
	gaps := []int{1003, 20011, 307000, 1013000, 2003000, 4001000, 8017000, 12007000}
	if rng.Bool(0.4) {
		for i := rng.Pick(1, 1, 2, 3); i > 0; i-- {
			in := c16Intr{GapUs: int64(gaps[rng.Intn(len(gaps))] + 2*rng.Intn(500)), Kind: rng.PickStr("badproto", "pwnouser", "notconnect", "half", "badauth", "badauth"), Clean: rng.Bool(0.5)}
			if in.Kind == "badauth" && !sc.Pipes.Connect {
				in.Kind = "badproto"
			}
			sc.Intr = append(sc.Intr, in)
		}
	}
	if rng.Bool(0.3) {
		// several sessions deleted by one admin request; with c16GenBatchWatch the
		// watch reports them in ONE event
		sc.BatchWatch = c16GenBatchWatch
		if len(sc.By) > 0 && rng.Bool(0.7) {
			ids := []string{"by0", "ext"}
			if len(sc.By) > 1 {
				ids = []string{"by0", "by1", "ext"}
			}
			var sh []string
			for _, i := range rng.Perm(len(ids)) {
				sh = append(sh, ids[i])
			}
			sc.Adm = append(sc.Adm, c16Adm{GapUs: int64(gaps[rng.Intn(len(gaps))] + 2*rng.Intn(500)), IDs: sh})
		}
	}
	if rng.Bool(0.25) {
		for i := rng.Pick(1, 1, 2); i > 0; i-- {
			a := c16Adm{GapUs: int64(gaps[rng.Intn(len(gaps))] + 2*rng.Intn(500))}
			for j := rng.Pick(1, 1, 2, 3); j > 0; j-- {
				a.IDs = append(a.IDs, rng.PickStr("nobody", "ext", "ext", "by0", "by1"))
			}
			sc.Adm = append(sc.Adm, a)
		}
	}
	if sc.AllQoS1 && rng.Bool(0.3) {
		// more messages than the connection's queue (and, padded, the socket
		// buffer) hold
		sc.Burst = rng.Pick(55, 70, 100)
		sc.BurstPad = rng.Pick(0, 0, 700, 1500)
	}
	if c16GenWatchBreak && rng.Bool(0.25) {
		for i := rng.Pick(1, 1, 2); i > 0; i-- {
			sc.WatchBreakUs = append(sc.WatchBreakUs, int64(gaps[rng.Intn(len(gaps))]+2*rng.Intn(500)))
		}
		if rng.Bool(0.5) {
			sc.GapDelete = rng.PickStr("x", "x", "by0", "by1")
		}
	}
}

// ---- reference model --------------------------------------------------------

func c16Match(filter, topic string) bool {
	f, t := strings.Split(filter, "/"), strings.Split(topic, "/")
	for i, l := range f {
		if l == "#" {
			return true
		}
		if i >= len(t) {
			return false
		}
		if l != "+" && l != t[i] {
			return false
		}
	}
	return len(f) == len(t)
}

type c16Model struct {
	has        bool
	persistent bool
	subs       map[string]byte
	inherited  map[string]bool // filters taken over from the previous session by the current connection
	amb        map[string]bool // filters that may or may not be subscribed (see header)
	ever       map[string]bool
	everLo     map[string]bool // filters the id ever asked for with QoS0
}

func (m *c16Model) connack(clean bool, storeLossy bool) (restored bool) {
	if !clean && m.has && m.persistent {
		m.inherited = map[string]bool{}
		for f := range m.subs {
			m.inherited[f] = true
		}
		restored = len(m.subs) > 0
	} else {
		m.subs = map[string]byte{}
		m.inherited = map[string]bool{}
		m.persistent = !clean
		m.has = true
	}
	if storeLossy {
		for f := range m.ever {
			m.amb[f] = true
		}
	}
	return
}

func (m *c16Model) firm() []string {
	var out []string
	for f := range m.subs {
		if !m.amb[f] {
			out = append(out, f)
		}
	}
	sort.Strings(out)
	return out
}

// expect tells whether a publish on topic must / may reach the id.
func (m *c16Model) expect(topic string) (must, may bool, why string) {
	for _, f := range m.firm() {
		if c16Match(f, topic) {
			must, may = true, true
			why = f
			if m.inherited[f] {
				why += " (inherited)"
			}
			return
		}
	}
	for f := range m.subs {
		if c16Match(f, topic) {
			may = true
		}
	}
	for f := range m.amb {
		if c16Match(f, topic) {
			may = true
		}
	}
	return
}

// ---- simulated storage ------------------------------------------------------

type c16Store struct {
	r       *sim.Run
	f       c16StoreF
	data    map[string]string
	ch      chan map[string]*string
	watched bool
	nGet    int
	nPut    int
	nDel    int
	nWatch  int
	lossy   bool
	getHit  map[string]int
	delLog  []string // deletes of the contested key: who/when
	putLog  []string // puts of the contested key: when/topics
	getMark map[string]int // number of puts of the contested key seen before the last get of a key
	getCnt  map[string]int
	admin   bool     // the harness's admin delete is in progress
	delErrs int
	quiet   bool // the run is being wound down
	nWatchCalls int
	nPrefix     int
	breaks      int
	onPrefix    func(has func(id string) bool)
	inflight    int    // get/put/delete calls in progress
	ops         int    // get/put/delete calls started
	batchOn     int                // >0: an admin request is being handled, its delete events are collected
	batch       map[string]*string // ... here
	phase       int    // 1: the watch broke, none of the two calls of the re-establishment yet; 2: one of them done
	midHook     func() // runs between the two storage calls of a watch re-establishment
	// deleter tells (at the moment delete is called) whether the connection that
	// deletes the contested key still owns the id: "owner" or "superseded"
	deleter func() string
}

var _ storage = (*c16Store)(nil)

type c16StoreErr struct{ op string }

func (e c16StoreErr) Error() string { return "c16 injected storage error: " + e.op }

func (s *c16Store) lat(ds []int64, n int, site string) {
	if !s.f.Async {
		return
	}
	var d time.Duration
	if len(ds) > 0 {
		d = time.Duration(ds[n%len(ds)]) * time.Microsecond
	}
	if d > 0 {
		s.r.Fault("store.latency")
	}
	s.r.Sleep(d)
}

func c16In(xs []int, n int) bool {
	for _, x := range xs {
		if x == n {
			return true
		}
	}
	return false
}

func (s *c16Store) get(key string) (*string, error) {
	s.ops++
	s.inflight++
	defer func() { s.inflight-- }()
	s.nGet++
	n := s.nGet
	s.lat(s.f.GetDelayUs, n, "store.get")
	if c16In(s.f.GetErr, n) {
		s.lossy = true
		s.r.Fault("store.get_error")
		return nil, c16StoreErr{"get"}
	}
	s.getMark[key] = len(s.putLog)
	s.getCnt[key]++
	if v, ok := s.data[key]; ok {
		s.getHit[key]++
		return &v, nil
	}
	return nil, nil
}

func (s *c16Store) getPrefix(prefix string, keysOnly bool) (map[string]string, error) {
	out := map[string]string{}
	// only Broker.reconnectWatcher asks (the harness never calls the session
	// query endpoint): remember which session keys it did not find
	s.nPrefix++
	if s.onPrefix != nil && !s.quiet {
		s.onPrefix(func(id string) bool { _, ok := s.data[sessionStoreKey(id)]; return ok })
	}
	for k, v := range s.data {
		if strings.HasPrefix(k, prefix) {
			if keysOnly {
				v = ""
			}
			out[k] = v
		}
	}
	s.reestStep()
	return out, nil
}

// reestStep: Broker.reconnectWatcher makes two storage calls (new watch,
// listing of the keys). What the harness wants to happen between the two,
// whatever their order, runs here at the end of the first one.
func (s *c16Store) reestStep() {
	switch s.phase {
	case 1:
		s.phase = 2
		if s.midHook != nil && !s.quiet {
			s.midHook()
		}
	case 2:
		s.phase = 0
	}
}

func (s *c16Store) put(key, value string) error {
	s.ops++
	s.inflight++
	defer func() { s.inflight-- }()
	s.nPut++
	n := s.nPut
	s.lat(s.f.PutDelayUs, n, "store.put")
	if c16In(s.f.PutErr, n) {
		s.lossy = true
		s.r.Fault("store.put_error")
		return c16StoreErr{"put"}
	}
	s.data[key] = value
	if key == sessionStoreKey(c16ID) {
		topics := value
		if i := strings.Index(value, "topics:"); i >= 0 {
			topics = value[i:]
			if j := strings.Index(topics, "clientID:"); j >= 0 {
				topics = topics[:j]
			}
		}
		s.putLog = append(s.putLog, fmt.Sprintf("@%v %s", s.r.Now(), strings.Join(strings.Fields(topics), " ")))
	}
	return nil
}

func (s *c16Store) delete(key string) error {
	// who deletes the contested key is read off the caller's stack: a flag set
	// around the admin handler would also cover deletes that other goroutines (a
	// connection's teardown) issue while the handler's own delete is under way
	deleter, admin := "", false
	if key == sessionStoreKey(c16ID) {
		buf := make([]byte, 8192)
		admin = strings.Contains(string(buf[:runtime.Stack(buf, false)]), "httpDeleteSessionHandler")
		if s.deleter != nil && !admin && !s.quiet {
			deleter = s.deleter()
		}
	}
	s.ops++
	s.inflight++
	defer func() { s.inflight-- }()
	s.nDel++
	n := s.nDel
	s.lat(s.f.DelDelayUs, n, "store.delete")
	if c16In(s.f.DelErr, n) {
		s.lossy = true
		s.delErrs++
		s.r.Fault("store.delete_error")
		return c16StoreErr{"delete"}
	}
	_, existed := s.data[key]
	delete(s.data, key)
	if key == sessionStoreKey(c16ID) {
		who := "broker"
		if admin {
			who = "admin"
		} else if s.deleter != nil {
			who = "broker(" + deleter + ")"
		}
		if !s.quiet {
			s.delLog = append(s.delLog, fmt.Sprintf("%s@%v(existed=%v)", who, s.r.Now(), existed))
		}
	}
	// etcd semantics: only the deletion of an existing key produces an event
	if existed && s.watched && s.batchOn > 0 {
		if s.batch == nil {
			s.batch = map[string]*string{}
		}
		s.batch[key] = nil
		return nil
	}
	if existed && s.watched {
		s.nWatch++
		m := map[string]*string{key: nil}
		if s.f.Async {
			nw := s.nWatch
			ch := s.ch
			go func() {
				s.lat(s.f.WatchDelayUs, nw, "store.watch")
				select {
				case ch <- m:
				default:
				}
			}()
		} else {
			select {
			case s.ch <- m:
			default:
			}
		}
	}
	return nil
}

// batchBegin / batchEnd bracket an admin request whose deletions the watch
// reports in one event (the storage interface's events are maps of keys).
func (s *c16Store) batchBegin() { s.batchOn++ }

func (s *c16Store) batchEnd() {
	s.batchOn--
	if s.batchOn > 0 || len(s.batch) == 0 {
		return
	}
	m := s.batch
	s.batch = nil
	if !s.watched {
		return
	}
	if len(m) > 1 && !s.quiet {
		s.r.Probe("c16.watch_event_with_several_keys")
	}
	s.nWatch++
	if s.f.Async {
		nw := s.nWatch
		ch := s.ch
		go func() {
			s.lat(s.f.WatchDelayUs, nw, "store.watch")
			select {
			case ch <- m:
			default:
			}
		}()
		return
	}
	select {
	case s.ch <- m:
	default:
	}
}

func (s *c16Store) watchDelete(prefix string) (<-chan map[string]*string, func(), error) {
	s.nWatchCalls++
	if s.nWatchCalls > 1 {
		// a new watch has a channel of its own: events of the broken one that are
		// still under way are lost, like the deletions during the gap
		s.ch = make(chan map[string]*string, 256)
		if !s.quiet {
			s.r.Probe("c16.watch_reestablished")
		}
	}
	s.watched = true
	if s.nWatchCalls > 1 {
		s.reestStep()
	}
	return s.ch, func() {}, nil
}

// breakWatch: the delete watch ends the way cluster.watcher ends it when etcd
// cancels the watch (compaction, lost leader, closed client): the consumer
// reads a nil map (the real channel is closed; the simulated one stays open
// because delayed deliveries may still be written to it).
func (s *c16Store) breakWatch() bool {
	if !s.watched || s.quiet {
		return false
	}
	s.watched = false
	s.breaks++
	s.phase = 1
	s.r.Fault("store.watch_break")
	select {
	case s.ch <- nil:
	default:
	}
	return true
}

// ---- harness state ----------------------------------------------------------

type c16Op struct {
	op      string
	filters []string
	qos     byte
	qoss    []byte // per filter
}

type c16Cli struct {
	h     *c16H
	name  string
	id    string
	idx   int // index among the contested id's connections; -1 for bystanders
	spec  c16Conn
	conn  *simnet.Conn
	cid   int
	wmu   chan struct{}
	note  chan struct{}
	ready bool // bystander: subscribed

	connack        *packets.ConnackPacket
	connected      bool
	connackSeq     uint64
	connectSeq     uint64
	ended          bool
	endKind        string
	endSeq         uint64
	localClosed    bool
	closedByServer bool
	closeErr       string
	closeSeq       uint64
	superseded     bool
	stopRead       bool
	recv           map[string]int
	pingResp       int
	pingSent       int
	acks           map[uint16]bool
	inflight       map[uint16]*c16Op
	nextID         uint16
	fromDB         bool
	prev           *c16Cli         // the connection that was current when this one sent CONNECT
	hits0          int             // store hits of the id's key before CONNECT
	gets0          int             // store gets of the id's key before CONNECT
	putMark        int             // puts of the id's key that had reached the store when this connection's session was looked up there (-1: not looked up)
	skipSteps      int             // steps already sent by connect (pipelined)
	takenOver      bool            // a later connection was acknowledged while this one's handler was still running
	subs           map[string]byte // bystander's own acknowledged subscriptions
	tick           time.Duration   // odd nanoseconds slept before every write (tie breaking, see send)
	ackq           []uint16        // PUBACKs to be written by the acker task
	holdRead       chan struct{}   // overlap: the reader starts when this channel is closed
	overlap        bool            // overlap connection (see c16Conn.Overlap): never the current one for the model
	pause          chan struct{}   // set: the reader stops after the next packet until the channel is closed
	nBurst         int             // distinct long payloads received
	mayClose       bool            // bystander: its session was deleted by an admin request / its key was missing when the watch was re-established
	ackNote        chan struct{}
}

type c16Srv struct {
	cid      int
	returned bool
	retSeq   uint64
	retAt    time.Duration
}

type c16H struct {
	r       *sim.Run
	sc      *c16Scenario
	b       *Broker
	n       *simnet.Net
	st      *c16Store
	clis    []*c16Cli
	bys     []*c16Cli
	byConn  map[int]*c16Cli
	srv     map[int]*c16Srv
	model   c16Model
	cur     *c16Cli
	closing bool
	stuck   bool
	pending int
	note    chan struct{}
	hist    []string
	panics  []string
	seenCl  []*Client
	lastCl  *Client
	seenSe  []*Session
	admin   bool // admin delete issued
	supInflight bool // a connection had unacknowledged operations when it was superseded
	probeN  int
	ncli    int
	pipeN   int
	live    int
	liveNames map[string]bool
	takeovers, restores int
	clOf      map[int]*Client // connection id -> broker-side Client, as seen in b.clients at quiescent points
	intr      map[int]string // connection id -> name of a refused connection attempt
	victims     []c16Victim // clients whose session was deleted by an admin request while the script ran
	gapVictim   *Client // the client registered for the id whose session was deleted in the middle of a watch re-establishment
	gapID       string
	gapName     string
	quietFailed bool // a wait for the storage to catch up timed out
	watchKill bool           // the contested id's session key was missing when the delete watch was re-established: its connection may be closed
}

// goTask starts a harness task and keeps count of the live ones (the end of
// Exec waits for them with a time-out instead of blocking for ever).
func (h *c16H) goTask(name string, f func()) {
	h.live++
	h.liveNames[name] = true
	h.r.Go(name, func() {
		defer func() {
			h.live--
			delete(h.liveNames, name)
		}()
		f()
	})
}

func (h *c16H) logf(format string, a ...interface{}) {
	if h.closing {
		// what the leftovers of a run do while it is wound down is not part of
		// its history (and not reproducible once gating has ended)
		return
	}
	s := fmt.Sprintf(format, a...)
	h.r.Eventf("%s", s)
	if len(h.hist) < 400 {
		h.hist = append(h.hist, fmt.Sprintf("[%v] %s", h.r.Now(), s))
	}
}

func (h *c16H) history() string {
	return "scenario: " + h.describe() + "\nhistory:\n  " + strings.Join(h.hist, "\n  ")
}

func (h *c16H) describe() string {
	var sb strings.Builder
	for k, c := range h.sc.Conns {
		fmt.Fprintf(&sb, "x%d{clean=%v ka=%d gap=%dus end=%s@%dus pipeline=%v v31=%v will=%v overlap=%v", k, c.Clean, c.KeepAlive, c.GapUs, c.End, c.EndUs, c.Pipeline, c.V31, c.Will, c.Overlap)
		for _, s := range c.Steps {
			fmt.Fprintf(&sb, " %s%v", s.Op, s.Filters)
		}
		sb.WriteString("} ")
	}
	fmt.Fprintf(&sb, "by=%d pubs=%d buf=%d qos1=%v async=%v id=%q byext=%v topiccache=%d maxconn=%v limits=%v creds=%v pipelines=%v", len(h.sc.By), len(h.sc.Pubs), h.sc.BufSize, h.sc.AllQoS1, h.sc.Store.Async,
		c16ID, h.sc.ByExt, h.sc.TopicCache, h.sc.MaxConn, h.sc.ConnLimit, h.sc.Creds, h.pipeTypes())
	for _, in := range h.sc.Intr {
		fmt.Fprintf(&sb, " refused{%s@%dus}", in.Kind, in.GapUs)
	}
	for _, a := range h.sc.Adm {
		fmt.Fprintf(&sb, " admin-delete%v@%dus", a.IDs, a.GapUs)
	}
	if c16GenWatchBreak && len(h.sc.WatchBreakUs) > 0 {
		fmt.Fprintf(&sb, " watch-breaks@%vus gap-delete=%q", h.sc.WatchBreakUs, h.sc.GapDelete)
	}
	if h.sc.StoreQuiet {
		sb.WriteString(" reconnects-wait-for-storage")
	}
	if h.sc.BatchWatch {
		sb.WriteString(" admin-requests-in-one-watch-event")
	}
	return sb.String()
}

// The three broadcast helpers swap a channel; a (real) mutex keeps the swap
// atomic even if the runtime preempts the goroutine at the call of make (it
// never spans a gate).
var c16Bmu sync.Mutex

func (h *c16H) bcast() {
	c16Bmu.Lock()
	old := h.note
	h.note = make(chan struct{})
	c16Bmu.Unlock()
	close(old)
}

func (c *c16Cli) bcast() {
	c16Bmu.Lock()
	old := c.note
	c.note = make(chan struct{})
	c16Bmu.Unlock()
	close(old)
}

func (c *c16Cli) bcastAck() {
	c16Bmu.Lock()
	old := c.ackNote
	c.ackNote = make(chan struct{})
	c16Bmu.Unlock()
	close(old)
}

// acker writes the PUBACKs: like a real client library the connection keeps
// reading while a write is blocked by flow control.
func (c *c16Cli) acker() {
	for {
		for len(c.ackq) > 0 {
			id := c.ackq[0]
			c.ackq = c.ackq[1:]
			ack := packets.NewControlPacket(packets.Puback).(*packets.PubackPacket)
			ack.MessageID = id
			if c.send(ack) != nil {
				return
			}
		}
		if c.dead() || c.h.closing {
			return
		}
		ch := c.ackNote
		<-ch
		c.h.r.Yield("c16.ack")
	}
}

func (c *c16Cli) dead() bool { return c.closedByServer || c.localClosed }

func (h *c16H) stop() bool { return h.stuck || h.closing || h.r.Aborted() }

func c16Us(v int64) time.Duration {
	if v < 0 {
		v = 0
	}
	return time.Duration(v) * time.Microsecond
}

func c16Stack() string {
	lines := strings.Split(string(debug.Stack()), "\n")
	var out []string
	for i := 0; i+1 < len(lines); i++ {
		if strings.Contains(lines[i], "mqttproxy.") && !strings.Contains(lines[i], "c16") {
			out = append(out, strings.TrimSpace(lines[i])+" "+strings.TrimSpace(lines[i+1]))
		}
		if len(out) >= 8 {
			break
		}
	}
	return strings.Join(out, "\n")
}

// c16Blocked lists where the goroutines of the code under test are blocked
// (topmost mqttproxy frames), for the report of a stuck broker.
func c16Blocked() string {
	buf := make([]byte, 1<<20)
	n := runtime.Stack(buf, true)
	if os.Getenv("C16_DEBUG") != "" {
		fmt.Fprintf(os.Stderr, "%s\n", buf[:n])
	}
	var out []string
	seen := map[string]int{}
	bubble := ""
	for _, g := range strings.Split(string(buf[:n]), "\n\n") {
		lines := strings.Split(g, "\n")
		if bubble == "" {
			// the first goroutine of the dump is the caller: only its bubble counts
			if j := strings.Index(lines[0], "synctest bubble"); j >= 0 {
				bubble = strings.TrimRight(lines[0][j:], "]:")
			} else {
				bubble = "synctest bubble"
			}
		}
		if len(lines) < 3 || !strings.Contains(lines[0], bubble+"]") {
			continue
		}
		var frames []string
		for i := 1; i+1 < len(lines) && len(frames) < 4; i += 2 {
			fn := lines[i]
			if strings.Contains(fn, "mqttproxy.") && !strings.Contains(fn, "c16") {
				if j := strings.Index(fn, "mqttproxy."); j >= 0 {
					fn = fn[j+len("mqttproxy."):]
				}
				if j := strings.LastIndex(fn, "("); j > 0 {
					fn = fn[:j]
				}
				loc := strings.TrimSpace(lines[i+1])
				if j := strings.LastIndex(loc, "/"); j >= 0 {
					loc = loc[j+1:]
				}
				if j := strings.Index(loc, " "); j >= 0 {
					loc = loc[:j]
				}
				frames = append(frames, fn+"@"+loc)
			}
		}
		if len(frames) == 0 {
			continue
		}
		state := lines[0]
		if j := strings.Index(state, "["); j >= 0 {
			state = state[j:]
		}
		if j := strings.Index(state, ","); j >= 0 {
			state = state[:j] + "]"
		}
		k := state + " " + strings.Join(frames, " < ")
		if seen[k] == 0 {
			out = append(out, k)
		}
		seen[k]++
	}
	sort.Strings(out)
	for i, k := range out {
		if seen[k] > 1 {
			out[i] = fmt.Sprintf("%s (x%d)", k, seen[k])
		}
	}
	return "  " + strings.Join(out, "\n  ")
}

// waitFor blocks until cond holds, the connection is gone, or the time-out.
func (h *c16H) waitFor(c *c16Cli, what string, cond func() bool) bool {
	deadline := time.Now().Add(c16Timeout)
	for !cond() {
		// a superseded connection gets no answers any more (its write loop
		// ended with the takeover) and is not closed by the broker either
		// ... and so is a connection whose session was deleted through the admin
		// handler or that the broker may have closed when it re-established the
		// delete watch (Client.close ends the write loop, queued answers are lost,
		// the TCP connection stays until the client's next packet)
		// (the CONNACK is written by the connection handler itself, not by the
		// write loop: it always comes, and the harness must not leave a CONNECT
		// in its handshake behind)
		giveUp := what != "connack" && (c.superseded || c.mayClose || h.closedAtWatch(c))
		if c.dead() || giveUp || h.stop() {
			return cond()
		}
		ch := c.note
		left := time.Until(deadline)
		if left <= 0 {
			h.noResponse(c, what)
			return false
		}
		if h.st.breaks > 0 && left > 10*time.Second {
			// nobody tells the client that the broker closed its Client object
			// when it re-established the watch: look again now and then
			left = 10*time.Second + c.tick
		}
		t := time.NewTimer(left)
		select {
		case <-ch:
		case <-t.C:
		}
		t.Stop()
		h.r.Yield("c16.wake")
	}
	return true
}

// closedAtWatch: the delete watch broke during this run and the broker-side
// Client of this connection is marked disconnected (white box): no answers any
// more. Whether the broker was entitled to close it is judged elsewhere.
func (h *c16H) closedAtWatch(c *c16Cli) bool {
	if h.st == nil || h.st.breaks == 0 || h.admin {
		// (after the final admin delete the harness waits for the very closure)
		return false
	}
	cl := h.clOf[c.cid]
	return cl != nil && cl.statusFlag == Disconnected
}

// waitPoll polls a condition nobody announces (doubling steps, usual time-out).
func (h *c16H) waitPoll(what string, cond func() bool) bool {
	deadline := time.Now().Add(c16Timeout)
	for step := 53 * time.Millisecond; !cond(); {
		if h.stuck || h.r.Aborted() {
			return false
		}
		if !time.Now().Before(deadline) {
			h.noResponse(nil, what)
			return false
		}
		h.r.Sleep(step)
		if step < time.Minute {
			step *= 2
		}
	}
	return true
}

// waitH waits on the harness-wide notification channel.
func (h *c16H) waitH(what string, cond func() bool) bool {
	deadline := time.Now().Add(c16Timeout)
	if what == "script-end" {
		// a sum of waits that have time-outs of their own
		deadline = time.Now().Add(12 * time.Hour)
	}
	for !cond() {
		if h.stuck || h.r.Aborted() {
			return false
		}
		ch := h.note
		left := time.Until(deadline)
		if left <= 0 {
			h.noResponse(nil, what)
			return false
		}
		t := time.NewTimer(left)
		select {
		case <-ch:
		case <-t.C:
		}
		t.Stop()
		h.r.Yield("c16.wake")
	}
	return true
}

// stuckDiag looks for the mechanism behind a request that got no answer.
func (h *c16H) stuckDiag() (class, detail string) {
	var full, locked []string
	seen := map[*Session]bool{}
	for _, cl := range h.seenCl {
		if cap(cl.writeCh) > 0 && len(cl.writeCh) == cap(cl.writeCh) {
			full = append(full, fmt.Sprintf("%s(conn %d, disconnected=%v)", cl.info.cid, c16ConnID(cl), cl.statusFlag == Disconnected))
		}
		if s := cl.session; s != nil && !seen[s] {
			seen[s] = true
			if s.TryLock() {
				s.Unlock()
			} else {
				locked = append(locked, s.info.ClientID)
			}
		}
	}
	detail = fmt.Sprintf("clients with a full write queue: %v; sessions whose mutex is held: %v\nblocked goroutines of the code under test:\n%s", full, locked, c16Blocked())
	if len(full) > 0 && len(locked) > 0 {
		return "C16.stuck.session-locked-by-full-queue", detail
	}
	if len(locked) > 0 {
		return "C16.stuck.session-locked", detail
	}
	return "", detail
}

func (h *c16H) noResponse(c *c16Cli, what string) {
	if h.stuck {
		return
	}
	h.stuck = true
	class, detail := h.stuckDiag()
	if class == "" {
		class = "C16.no-response." + what
	}
	name := "harness"
	if c != nil {
		name = c.name
	}
	h.logf("%s: no %s within %v", name, what, c16Timeout)
	h.r.Violate(class, "%s got no %s within %v of simulated time; %s\n%s", name, what, c16Timeout, detail, h.history())
	h.bcast()
	for _, x := range append(append([]*c16Cli{}, h.clis...), h.bys...) {
		x.bcast()
	}
}

func c16ConnID(cl *Client) int {
	if sc, ok := cl.conn.(*simnet.Conn); ok {
		return sc.ID
	}
	return -1
}

// ---- clients ----------------------------------------------------------------

var c16Primes = []int{137, 139, 149, 151, 157, 163, 167, 173, 179, 181, 191, 193, 197, 199, 211, 223}

func (h *c16H) nextTick() time.Duration {
	h.ncli++
	return time.Duration(c16Primes[h.ncli%len(c16Primes)]) * time.Nanosecond
}

func (h *c16H) newCli(name, id string, idx int, spec c16Conn) *c16Cli {
	return &c16Cli{tick: h.nextTick(), h: h, name: name, id: id, idx: idx, spec: spec, wmu: make(chan struct{}, 1), note: make(chan struct{}), ackNote: make(chan struct{}),
		recv: map[string]int{}, acks: map[uint16]bool{}, inflight: map[uint16]*c16Op{}, nextID: 1, subs: map[string]byte{}}
}

// send writes one packet. It first lets an odd number of nanoseconds pass so
// that no two packets of the run are processed at instants that differ by a
// multiple of the broker's 200 ms resend period or of half a second
// (keep-alive deadlines): timers of production goroutines that expire at the
// same instant wake them in an irreproducible order.
func (c *c16Cli) send(p packets.ControlPacket) error {
	if _, ok := p.(*packets.PingreqPacket); ok {
		c.pingSent++
	}
	var buf bytes.Buffer
	if err := p.Write(&buf); err != nil {
		return err
	}
	c.h.r.Sleep(c.tick)
	c.wmu <- struct{}{}
	c.conn.SetWriteDeadline(time.Now().Add(c16Timeout))
	_, err := c.conn.Write(buf.Bytes())
	<-c.wmu
	return err
}

func (c *c16Cli) reader() {
	h := c.h
	if c.holdRead != nil {
		<-c.holdRead
		h.r.Yield("c16.hold-released")
		if !h.closing {
			h.logf("%s: starts reading", c.name)
		}
	}
	for {
		p, err := packets.ReadPacket(c.conn)
		if err != nil {
			if !c.localClosed && !h.closing {
				c.closedByServer = true
				c.closeErr = err.Error()
				c.closeSeq = h.r.Seq()
				h.logf("%s: connection closed by server (%v)", c.name, err)
				if c.idx >= 0 {
					h.ambInflight(c)
				}
			}
			c.bcast()
			c.bcastAck()
			h.bcast()
			return
		}
		switch p := p.(type) {
		case *packets.ConnackPacket:
			c.connack = p
			if p.ReturnCode == packets.Accepted && !c.connected {
				h.onConnack(c)
			}
		case *packets.SubackPacket:
			c.onAck(p.MessageID)
		case *packets.UnsubackPacket:
			c.onAck(p.MessageID)
		case *packets.PubackPacket:
			c.onAck(p.MessageID)
		case *packets.PingrespPacket:
			c.pingResp++
		case *packets.PublishPacket:
			pl := string(p.Payload)
			c.recv[pl]++
			if c.recv[pl] == 1 {
				show := pl
				if len(show) > 12 {
					show = show[:12] + "..."
					c.nBurst++
				}
				h.logf("%s: got %s on %s qos%d", c.name, show, p.TopicName, p.Qos)
			}
			if p.Qos == 1 && !c.spec.NoAck {
				c.ackq = append(c.ackq, p.MessageID)
				c.bcastAck()
			}
		}
		c.bcast()
		if c.pause != nil {
			// slow consumer: leaves the rest in the socket buffer for a while
			ch := c.pause
			c.pause = nil
			h.logf("%s: pauses reading", c.name)
			<-ch
			h.r.Yield("c16.resume")
			h.logf("%s: resumes reading", c.name)
		}
		if c.stopRead {
			// stalled subscriber: leave everything else in the socket buffer
			h.logf("%s: stops reading", c.name)
			return
		}
	}
}

func (c *c16Cli) onAck(id uint16) {
	h := c.h
	op := c.inflight[id]
	delete(c.inflight, id)
	c.acks[id] = true
	if op == nil {
		return
	}
	if c.idx < 0 {
		for _, f := range op.filters {
			c.subs[f] = op.qos
		}
		return
	}
	if op.op == "pub" {
		return
	}
	firm := h.cur == c && !c.superseded && !c.ended
	h.logf("%s: %sack %v firm=%v", c.name, op.op, op.filters, firm)
	for i, f := range op.filters {
		h.model.ever[f] = true
		if !firm {
			h.model.amb[f] = true
			continue
		}
		if op.op == "sub" {
			h.model.subs[f] = op.qos
			if i < len(op.qoss) {
				h.model.subs[f] = op.qoss[i]
			}
		} else {
			delete(h.model.subs, f)
			delete(h.model.inherited, f)
		}
	}
}

// ambInflight: operations still unacknowledged when their connection stops
// being the current one may or may not have taken effect.
func (h *c16H) ambInflight(c *c16Cli) {
	for id, op := range c.inflight {
		for _, f := range op.filters {
			h.model.amb[f] = true
			h.model.ever[f] = true
		}
		delete(c.inflight, id)
	}
}

func (h *c16H) dial(c *c16Cli) bool {
	old := h.n.BufferSize
	if c.overlap {
		// the window of a connection is fixed when it is dialled
		h.n.BufferSize = 2
	}
	conn, err := h.n.Dial(context.Background(), "tcp", c.name+".c16:1883")
	h.n.BufferSize = old
	if err != nil {
		h.logf("%s: dial failed: %v", c.name, err)
		return false
	}
	c.conn = conn.(*simnet.Conn)
	c.cid = c.conn.ID
	h.byConn[c.cid] = c
	h.goTask(c.name+".rd", c.reader)
	if !c.spec.NoAck {
		h.goTask(c.name+".wr", c.acker)
	}
	return true
}

func (h *c16H) connect(c *c16Cli) bool {
	if !h.dial(c) {
		return false
	}
	p := packets.NewControlPacket(packets.Connect).(*packets.ConnectPacket)
	p.ProtocolName, p.ProtocolVersion = "MQTT", 4
	if c.spec.V31 {
		p.ProtocolName, p.ProtocolVersion = "MQIsdp", 3
		h.r.Probe("c16.connect_mqtt31")
	}
	p.CleanSession = c.spec.Clean
	p.ClientIdentifier = c.id
	p.Keepalive = c.spec.KeepAlive
	if h.sc.Creds || h.sc.Pipes.Connect {
		p.UsernameFlag, p.Username = true, "u"
		p.PasswordFlag, p.Password = true, []byte("ok")
	}
	if c.spec.Will {
		p.WillFlag, p.WillTopic, p.WillMessage = true, "c", []byte("will of "+c.name)
		p.WillQos = h.subQoS(1)
		h.r.Probe("c16.connect_with_will")
	}
	c.connectSeq = h.r.Seq()
	h.logf("%s: CONNECT clean=%v keepalive=%d (conn %d)", c.name, c.spec.Clean, c.spec.KeepAlive, c.cid)
	c.hits0 = h.st.getHit[sessionStoreKey(c.id)]
	c.gets0 = h.st.getCnt[sessionStoreKey(c.id)]
	if err := c.send(p); err != nil {
		h.logf("%s: CONNECT write failed: %v", c.name, err)
		return false
	}
	if c.spec.Pipeline && len(c.spec.Steps) > 0 && c.idx >= 0 {
		// MQTT allows a client to send further packets right behind CONNECT
		st := c.spec.Steps[0]
		st.NoWait = true
		c.skipSteps = 1
		h.r.Probe("c16.pipelined_first_step")
		if !h.doStep(c, st) {
			return false
		}
	}
	if !h.waitFor(c, "connack", func() bool { return c.connack != nil }) {
		if c.closedByServer && !h.stop() {
			h.r.Violate("C16.connect-dropped", "%s: connection closed by the server before CONNACK (%s)\n%s", c.name, c.closeErr, h.history())
		}
		return false
	}
	if c.connack.ReturnCode != packets.Accepted {
		h.r.Violate("C16.connect-refused", "%s: CONNACK return code %d\n%s", c.name, c.connack.ReturnCode, h.history())
		return false
	}
	return c.connected
}

// connectOverlap: CONNECT of a connection that will not read its CONNACK for a
// while. Returns once the broker has registered it (white box; the broker is
// then parked in its CONNACK write or about to be).
func (h *c16H) connectOverlap(c *c16Cli) bool {
	c.overlap = true
	c.holdRead = make(chan struct{})
	if !h.dial(c) {
		return false
	}
	p := packets.NewControlPacket(packets.Connect).(*packets.ConnectPacket)
	p.ProtocolName, p.ProtocolVersion = "MQTT", 4
	p.CleanSession, p.ClientIdentifier, p.Keepalive = false, c.id, 0
	if h.sc.Creds || h.sc.Pipes.Connect {
		p.UsernameFlag, p.Username = true, "u"
		p.PasswordFlag, p.Password = true, []byte("ok")
	}
	c.connectSeq = h.r.Seq()
	h.logf("%s: CONNECT clean=false keepalive=0 (conn %d), will not read its CONNACK before the next connection is through", c.name, c.cid)
	if err := c.send(p); err != nil {
		return false
	}
	ok := h.waitPoll("registration-of-parked-connect", func() bool {
		// (clOf: every client ever seen in b.clients at a quiescent point - the
		// registration may be gone again by the time of this poll)
		cl := h.b.clients[c16ID]
		return (cl != nil && c16ConnID(cl) == c.cid) || h.clOf[c.cid] != nil || c.dead() || h.stop()
	})
	if !ok || c.dead() || h.stop() {
		return false
	}
	h.r.Probe("c16.connack_write_parked_during_next_handshake")
	return true
}

// onConnack runs in the reader at the moment an accepting CONNACK is read, so
// that acknowledgements read right behind it already find the connection
// current.
func (h *c16H) onConnack(c *c16Cli) {
	c.connected = true
	c.connackSeq = h.r.Seq()
	if c.idx < 0 {
		return
	}
	if c.overlap {
		// read only after the next connection took the id over: the model has
		// moved on (a clean=0 connection in between changes nothing for it)
		c.superseded = true
		h.logf("%s: CONNACK (read late, the id belongs to a newer connection)", c.name)
		return
	}
	prev := c.prev
	c.fromDB = h.st.getHit[sessionStoreKey(c.id)] > c.hits0
	c.putMark = -1
	if h.st.getCnt[sessionStoreKey(c.id)] > c.gets0 {
		c.putMark = h.st.getMark[sessionStoreKey(c.id)]
	}
	takeover := false
	if prev != nil {
		if s := h.srv[prev.cid]; s != nil && !s.returned {
			takeover = true
		} else if s != nil && s.retSeq > c.connectSeq && prev.connected {
			// torn down while this connection's handshake was in flight: the
			// teardown may have run after this connection was registered
			prev.takenOver = true
			h.r.Probe("c16.old_teardown_during_new_handshake_seen_at_connack")
		}
	}
	// MQTT 3.1.1 §3.2.2.2: session present = 0 for clean=1, else whether the
	// server has stored session state. Not part of the statement: probe only.
	wantSP := !c.spec.Clean && h.model.has && h.model.persistent
	if c.connack.SessionPresent != wantSP {
		h.r.Probe(fmt.Sprintf("c16.connack_session_present_%v_mqtt_says_%v", c.connack.SessionPresent, wantSP))
	}
	restored := h.model.connack(c.spec.Clean, h.st.lossy)
	h.cur = c
	h.logf("%s: CONNACK takeover=%v fromDB=%v model: persistent=%v subs=%v amb=%v", c.name, takeover, c.fromDB, h.model.persistent, h.model.firm(), c16Keys(h.model.amb))
	if takeover {
		prev.takenOver = true
		h.takeovers++
		h.r.Probe("c16.takeover")
		if prev.ended {
			h.r.Probe("c16.takeover_of_half_dead_connection")
		} else {
			h.r.Probe("c16.takeover_of_live_connection")
		}
	} else if prev != nil {
		h.r.Probe("c16.reconnect_after_teardown")
	}
	if restored {
		h.restores++
		h.r.Probe("c16.clean0_reconnect_with_previous_subscriptions")
		if c.fromDB {
			h.r.Probe("c16.session_restored_from_store")
		}
	}
	if prev != nil && prev.spec.Clean != c.spec.Clean {
		h.r.Probe("c16.clean_flag_flip")
	}
}

func (h *c16H) scriptDone() {
	h.pending--
	h.bcast()
}

func (h *c16H) driver() {
	defer h.scriptDone()
	var hold *c16Cli
	defer func() {
		if hold != nil {
			close(hold.holdRead)
		}
	}()
	for k := range h.sc.Conns {
		spec := h.sc.Conns[k]
		h.r.Sleep(c16Us(spec.GapUs))
		if h.stop() {
			return
		}
		c := h.newCli(fmt.Sprintf("x%d", k), c16ID, k, spec)
		if h.sc.StoreQuiet && k > 0 {
			h.waitStoreQuiet(c)
			if h.stop() {
				return
			}
		}
		h.clis = append(h.clis, c)
		prev := h.cur
		if prev != nil {
			prev.superseded = true
			if len(prev.inflight) > 0 && !prev.dead() {
				h.supInflight = true
				h.r.Probe("c16.superseded_with_operation_in_flight")
			}
			h.ambInflight(prev)
			prev.bcast()
		}
		c.prev = prev
		if spec.Overlap && !spec.Clean && k < len(h.sc.Conns)-1 {
			if hold != nil {
				close(hold.holdRead)
			}
			hold = nil
			if h.connectOverlap(c) {
				hold = c
			} else {
				close(c.holdRead)
			}
			continue
		}
		ok := h.connect(c)
		if hold != nil {
			// the next connection has completed (or failed) its handshake: now the
			// parked one reads its CONNACK
			h.r.Sleep(c16Us(hold.spec.HoldUs) + hold.tick)
			close(hold.holdRead)
			hold = nil
		}
		if !ok {
			continue
		}
		h.pending++
		h.goTask(c.name, func() {
			defer h.scriptDone()
			h.runSteps(c)
		})
	}
}

func c16Keys(m map[string]bool) []string {
	var out []string
	for k := range m {
		out = append(out, k)
	}
	sort.Strings(out)
	return out
}

func (h *c16H) subQoS(q byte) byte {
	if h.sc.AllQoS1 {
		return 1
	}
	if q > 1 {
		q = 1
	}
	return q
}

func (h *c16H) doStep(c *c16Cli, s c16Step) bool {
	var filters []string
	for _, f := range s.Filters {
		for _, ok := range c16Filters {
			if f == ok {
				filters = append(filters, f)
			}
		}
	}
	switch s.Op {
	case "sub", "unsub":
		if len(filters) == 0 {
			return true
		}
		id := c.nextID
		c.nextID++
		q := h.subQoS(s.QoS)
		var qoss []byte
		var p packets.ControlPacket
		if s.Op == "sub" {
			sp := packets.NewControlPacket(packets.Subscribe).(*packets.SubscribePacket)
			sp.MessageID, sp.Topics = id, filters
			for range filters {
				sp.Qoss = append(sp.Qoss, q)
			}
			if !h.sc.AllQoS1 && len(s.QoSs) == len(s.Filters) && len(filters) == len(s.Filters) {
				sp.Qoss = nil
				for _, x := range s.QoSs {
					if x > 2 {
						x = 2
					}
					sp.Qoss = append(sp.Qoss, x)
				}
				qoss = sp.Qoss
				h.r.Probe("c16.subscribe_mixed_qos")
			}
			p = sp
		} else {
			up := packets.NewControlPacket(packets.Unsubscribe).(*packets.UnsubscribePacket)
			up.MessageID, up.Topics = id, filters
			p = up
		}
		c.inflight[id] = &c16Op{op: s.Op, filters: filters, qos: q, qoss: qoss}
		if s.Op == "sub" && c.idx >= 0 {
			for i, f := range filters {
				fq := q
				if i < len(qoss) {
					fq = qoss[i]
				}
				if fq == 0 {
					h.model.everLo[f] = true
				}
			}
		}
		h.logf("%s: %s %v qos%d%v id=%d", c.name, s.Op, filters, q, qoss, id)
		if err := c.send(p); err != nil {
			h.logf("%s: write failed: %v", c.name, err)
			return false
		}
		if !s.NoWait {
			return h.waitFor(c, s.Op+"ack", func() bool { return c.acks[id] })
		}
	case "ping":
		if err := c.send(packets.NewControlPacket(packets.Pingreq)); err != nil {
			return false
		}
		n := c.pingSent
		if !s.NoWait {
			return h.waitFor(c, "pingresp", func() bool { return c.pingResp >= n })
		}
	case "pub":
		// the client publishes: without a Publish pipeline the proxy has no
		// backend for it; QoS1 is acknowledged either way
		pp := packets.NewControlPacket(packets.Publish).(*packets.PublishPacket)
		pp.TopicName, pp.Payload = "up/"+c.name, []byte("u")
		pp.Qos = h.subQoS(s.QoS)
		h.r.Probe("c16.client_publish")
		if pp.Qos == 0 {
			return c.send(pp) == nil
		}
		id := c.nextID
		c.nextID++
		pp.MessageID = id
		c.inflight[id] = &c16Op{op: "pub"}
		if err := c.send(pp); err != nil {
			return false
		}
		if !s.NoWait {
			return h.waitFor(c, "puback", func() bool { return c.acks[id] })
		}
	}
	return true
}

func (h *c16H) runSteps(c *c16Cli) {
	for i, s := range c.spec.Steps {
		if i < c.skipSteps {
			continue
		}
		h.r.Sleep(c16Us(s.GapUs))
		if c.superseded || c.dead() || h.stop() {
			break
		}
		if !h.doStep(c, s) {
			break
		}
	}
	if h.stop() {
		return
	}
	h.r.Sleep(c16Us(c.spec.EndUs))
	if c.dead() || h.stop() {
		return
	}
	end := func(kind string) {
		c.ended, c.endKind, c.endSeq = true, kind, h.r.Seq()
		h.ambInflight(c)
		h.logf("%s: client ends the connection: %s (superseded=%v)", c.name, kind, c.superseded)
		h.r.Probe("c16.end." + kind)
	}
	switch c.spec.End {
	case "stall":
		c.stopRead = true
		h.logf("%s: will stop reading", c.name)
		h.r.Probe("c16.end.stall")
	case "silent":
		end("silent")
		c.conn.Blackhole()
	case "reset":
		end("reset")
		c.localClosed = true
		c.conn.Reset()
	case "close":
		end("close")
		c.localClosed = true
		c.conn.Close()
	case "disconnect":
		end("disconnect")
		c.send(packets.NewControlPacket(packets.Disconnect))
		c.localClosed = true
		c.conn.Close()
	case "ping":
		// a late packet on a (possibly superseded) connection: the read loop
		// notices that it has been closed only now
		h.logf("%s: late PINGREQ (superseded=%v)", c.name, c.superseded)
		h.r.Probe("c16.end.late_ping")
		c.send(packets.NewControlPacket(packets.Pingreq))
	}
	c.bcast()
	c.bcastAck()
}

func (h *c16H) bystander(c *c16Cli, spec c16By) {
	defer h.scriptDone()
	if !h.connect(c) {
		return
	}
	var filters []string
	for _, f := range spec.Filters {
		for _, ok := range c16Filters {
			if f == ok {
				filters = append(filters, f)
			}
		}
	}
	if len(filters) > 0 {
		if !h.doStep(c, c16Step{Op: "sub", Filters: filters, QoS: spec.QoS}) {
			return
		}
	}
	c.ready = true
}

func (h *c16H) publisher() {
	defer h.scriptDone()
	for i, p := range h.sc.Pubs {
		h.r.Sleep(c16Us(p.GapUs))
		if h.stop() {
			return
		}
		q := p.QoS
		if !h.sc.AllQoS1 || q > 1 {
			q = 0
		}
		ok := false
		for _, t := range c16Topics {
			if t == p.Topic {
				ok = true
			}
		}
		if !ok {
			continue
		}
		body, _ := json.Marshal(HTTPJsonData{Topic: p.Topic, QoS: int(q), Payload: fmt.Sprintf("m%d", i), Distributed: true})
		req := httptest.NewRequest(http.MethodPost, "/mqttproxy/c16/topics/publish", bytes.NewReader(body))
		rec := httptest.NewRecorder()
		h.logf("publish m%d on %s qos%d", i, p.Topic, q)
		h.b.httpTopicsPublishHandler(rec, req)
		if rec.Code != http.StatusOK {
			h.r.Violate("C16.harness", "publish handler answered %d: %s", rec.Code, rec.Body.String())
		}
	}
}

// ---- pipelines, refused connection attempts, admin deletes of other ids ------

func (h *c16H) pipeTypes() []PacketType {
	var out []PacketType
	p := h.sc.Pipes
	for _, x := range []struct {
		on bool
		t  PacketType
	}{{p.Connect, Connect}, {p.Subscribe, Subscribe}, {p.Unsubscribe, Unsubscribe}, {p.Disconnect, Disconnect}, {p.Publish, Publish}} {
		if x.on {
			out = append(out, x.t)
		}
	}
	return out
}

// c16Mux maps the pipeline names of the rules to handlers that behave like a
// pipeline that lets everything pass (Connect: authenticates the password).
type c16Mux struct{ h *c16H }

type c16Pipe struct {
	h    *c16H
	kind string
}

func (m *c16Mux) GetHandler(name string) (egcontext.Handler, bool) {
	if !strings.HasPrefix(name, "c16-") {
		return nil, false
	}
	return &c16Pipe{h: m.h, kind: strings.TrimPrefix(name, "c16-")}, true
}

func (p *c16Pipe) Handle(ctx *egcontext.Context) string {
	h := p.h
	if h.closing {
		return ""
	}
	h.pipeN++
	if ds := h.sc.Pipes.DelayUs; len(ds) > 0 {
		if d := c16Us(ds[h.pipeN%len(ds)]); d > 0 {
			if d > 400*time.Millisecond {
				d = 400 * time.Millisecond
			}
			h.r.Fault("pipeline.latency")
			h.r.Sleep(d)
		}
	}
	if p.kind == string(Connect) {
		req, _ := ctx.GetRequest(egcontext.DefaultNamespace).(*mqttprot.Request)
		resp, _ := ctx.GetResponse(egcontext.DefaultNamespace).(*mqttprot.Response)
		if req != nil && resp != nil && req.ConnectPacket() != nil && string(req.ConnectPacket().Password) != "ok" {
			resp.SetDisconnect()
		}
	}
	return ""
}

// intruder: one connection attempt with the contested client id that the
// broker has to refuse. It is not a takeover: the id's current connection, its
// session, subscriptions and registration must be what they were (checked by
// the invariant and by the final checks on the survivor).
func (h *c16H) intruder(name string, in c16Intr, tick time.Duration) {
	defer h.scriptDone()
	h.r.Sleep(c16Us(in.GapUs))
	if h.stop() {
		return
	}
	kind := in.Kind
	p := packets.NewControlPacket(packets.Connect).(*packets.ConnectPacket)
	p.ProtocolName, p.ProtocolVersion = "MQTT", 4
	p.CleanSession, p.ClientIdentifier = in.Clean, c16ID
	if h.sc.Creds || h.sc.Pipes.Connect {
		p.UsernameFlag, p.Username = true, "u"
		p.PasswordFlag, p.Password = true, []byte("ok")
	}
	var raw bytes.Buffer
	switch kind {
	case "badauth":
		if !h.sc.Pipes.Connect {
			return // would be accepted: a takeover the script does not know
		}
		p.PasswordFlag, p.Password = true, []byte("wrong")
		p.Write(&raw)
	case "badproto":
		p.ProtocolVersion = 5
		p.Write(&raw)
	case "pwnouser":
		p.UsernameFlag, p.Username = false, ""
		p.PasswordFlag, p.Password = true, []byte("ok")
		p.Write(&raw)
	case "notconnect":
		sp := packets.NewControlPacket(packets.Subscribe).(*packets.SubscribePacket)
		sp.MessageID, sp.Topics, sp.Qoss = 1, []string{"z"}, []byte{0}
		sp.Write(&raw)
	case "half":
		p.Write(&raw)
		raw.Truncate(raw.Len() / 2)
	default:
		return
	}
	conn, err := h.n.Dial(context.Background(), "tcp", name+".c16:1883")
	if err != nil {
		return
	}
	sc := conn.(*simnet.Conn)
	h.intr[sc.ID] = name
	h.logf("%s: connection attempt to be refused (%s, clean=%v, conn %d)", name, kind, in.Clean, sc.ID)
	h.r.Sleep(tick)
	conn.SetWriteDeadline(time.Now().Add(c16Timeout))
	conn.Write(raw.Bytes())
	if kind == "half" {
		h.r.Sleep(c16Us(1000) + tick)
		conn.Close()
		h.r.Probe("c16.intruder." + kind)
		return
	}
	conn.SetReadDeadline(time.Now().Add(c16Timeout))
	res := "closed"
	for {
		pk, err := packets.ReadPacket(conn)
		if err != nil {
			break
		}
		if ca, ok := pk.(*packets.ConnackPacket); ok {
			if ca.ReturnCode == packets.Accepted {
				res = "accepted"
				break
			}
			res = fmt.Sprintf("refused%d", ca.ReturnCode)
		}
	}
	conn.Close()
	if h.closing {
		return
	}
	h.logf("%s: %s", name, res)
	h.r.Probe("c16.intruder." + kind)
	if res == "accepted" {
		h.r.Violate("C16.intruder-accepted", "%s: a CONNECT that had to be refused (%s) was accepted\n%s", name, kind, h.history())
	}
	h.bcast()
}

// adminOthers: DELETE of sessions of other client ids through the admin
// handler while the script runs: ids nobody uses, an id that extends the
// contested id, bystanders (which the broker may disconnect from then on).
func (h *c16H) adminOthers(j int, a c16Adm) {
	defer h.scriptDone()
	h.r.Sleep(c16Us(a.GapUs))
	if h.stop() {
		return
	}
	var req HTTPSessions
	var names []string
	var cand []c16Victim
	for _, x := range a.IDs {
		id := ""
		switch x {
		case "nobody":
			id = "nobody"
		case "ext":
			id = c16ID + "zz"
		case "by0", "by1":
			k := int(x[2] - '0')
			if k < len(h.bys) {
				id = h.bys[k].id
				h.bys[k].mayClose = true
				h.bys[k].bcast()
				_, existed := h.st.data[sessionStoreKey(id)]
				if cl := h.b.clients[id]; cl != nil && existed && cl.statusFlag != Disconnected && h.st.watched && h.st.phase == 0 {
					cand = append(cand, c16Victim{cl, id, h.bys[k].name})
				}
			}
		}
		if id == "" || id == c16ID {
			continue
		}
		req.Sessions = append(req.Sessions, &HTTPSession{SessionID: id})
		names = append(names, id)
	}
	if len(names) == 0 {
		return
	}
	body, _ := json.Marshal(req)
	hr := httptest.NewRequest(http.MethodDelete, "/mqttproxy/c16/sessions", bytes.NewReader(body))
	rec := httptest.NewRecorder()
	h.logf("admin: DELETE sessions of other ids %q", names)
	h.r.Probe("c16.admin_delete_of_other_ids")
	errs := h.st.delErrs
	if h.sc.BatchWatch {
		h.st.batchBegin()
	}
	h.b.httpDeleteSessionHandler(rec, hr)
	if h.sc.BatchWatch {
		h.st.batchEnd()
	}
	// asserted only if the delete watch was up (no re-establishment under way)
	// from start to end of the request and no deletion failed
	if h.st.delErrs == errs && h.st.watched && h.st.phase == 0 && h.st.breaks == 0 {
		h.victims = append(h.victims, cand...)
	}
}

// c16Victim: the client that was registered for an id when an admin request
// deleted the id's (existing) session.
type c16Victim struct {
	cl       *Client
	id, name string
}

// checkVictims: "deleting a session through the admin endpoint disconnects
// that client" for every session of a request, also when the watch reports
// the deletions of the request in one event.
func (h *c16H) checkVictims() {
	for _, v := range h.victims {
		v := v
		if h.st.breaks > 0 || h.stuck {
			return
		}
		gone := func() bool { return v.cl.statusFlag == Disconnected || h.b.clients[v.id] != v.cl }
		deadline := time.Now().Add(c16Timeout)
		for step := 53 * time.Millisecond; !gone() && time.Now().Before(deadline) && !h.stop(); {
			h.r.Sleep(step)
			if step < time.Minute {
				step *= 2
			}
		}
		if h.stop() {
			return
		}
		if !gone() {
			h.r.Violate("C16.admin-delete.other-client-still-registered", "the session of %s (id %q) was deleted through the admin handler (several sessions of one request in one watch event=%v); %v later the client is still registered and not disconnected\n%s",
				v.name, v.id, h.sc.BatchWatch, c16Timeout, h.history())
			return
		}
		h.r.Probe("c16.admin_deleted_other_client_disconnected")
	}
}

// gapDelete runs on the goroutine of Broker.reconnectWatcher between its two
// storage calls: an admin DELETE of the session of a connected client. Whatever
// the order of the two calls, the deletion is either in the listing or reported
// by the new watch, so "deleting a session through the admin endpoint
// disconnects that client" has to hold (checked in final).
func (h *c16H) gapDelete() {
	if h.gapVictim != nil || h.closing || h.admin {
		return
	}
	id, name := c16ID, "the contested id"
	var by *c16Cli
	switch h.sc.GapDelete {
	case "x":
	case "by0", "by1":
		k := int(h.sc.GapDelete[2] - '0')
		if k >= len(h.bys) {
			return
		}
		by = h.bys[k]
		id, name = by.id, by.name
	default:
		return
	}
	cl := h.b.clients[id]
	_, existed := h.st.data[sessionStoreKey(id)]
	if cl == nil || cl.statusFlag == Disconnected || !existed {
		return
	}
	errs := h.st.delErrs
	body, _ := json.Marshal(HTTPSessions{Sessions: []*HTTPSession{{SessionID: id}}})
	req := httptest.NewRequest(http.MethodDelete, "/mqttproxy/c16/sessions", bytes.NewReader(body))
	rec := httptest.NewRecorder()
	h.logf("admin: DELETE session %q in the middle of the watch re-establishment (registered: conn %d)", id, c16ConnID(cl))
	if by != nil {
		by.mayClose = true
		by.bcast()
	} else {
		// the contested id is not judged by the survivor's checks any more
		h.watchKill = true
		if c := h.byConn[c16ConnID(cl)]; c != nil {
			c.mayClose = true
			c.bcast()
		}
	}
	old := h.st.admin
	h.st.admin = true
	h.b.httpDeleteSessionHandler(rec, req)
	h.st.admin = old
	if h.st.delErrs > errs {
		return
	}
	h.gapVictim, h.gapID, h.gapName = cl, id, name
	h.r.Probe("c16.admin_delete_inside_watch_reestablishment")
}

// checkGapVictim: the client whose session was deleted during the watch
// re-establishment must be disconnected (closed by the broker or unregistered)
// once the watch is back; the wait is progress-free, so it polls up to the
// usual time-out.
func (h *c16H) checkGapVictim() {
	cl := h.gapVictim
	if cl == nil || h.stuck {
		return
	}
	gone := func() bool { return cl.statusFlag == Disconnected || h.b.clients[h.gapID] != cl }
	deadline := time.Now().Add(c16Timeout)
	for step := 53 * time.Millisecond; !gone() && time.Now().Before(deadline) && !h.stop(); {
		h.r.Sleep(step)
		if step < time.Minute {
			step *= 2
		}
	}
	if h.stop() {
		return
	}
	if !gone() {
		h.r.Violate("C16.admin-delete.lost-during-watch-reconnect", "the session of %s (id %q) was deleted through the admin handler while the broker re-established its delete watch (between its listing of the stored sessions and the new watch); %v later the client is still registered and not disconnected (watch breaks %d, watch calls %d, listings %d)\n%s",
			h.gapName, h.gapID, c16Timeout, h.st.breaks, h.st.nWatchCalls, h.st.nPrefix, h.history())
		return
	}
	h.r.Probe("c16.admin_delete_inside_watch_reestablishment_disconnected")
}

// waitStoreQuiet lets the storage catch up: no get/put/delete in flight and
// none started during 21 consecutive polls of one second (the scheduler stalls
// at most 20 times per run, so in at least one of the intervals every runnable
// goroutine - snapshot senders, doStore - ran until it blocked).
func (h *c16H) waitStoreQuiet(c *c16Cli) bool {
	quiet, last := 0, h.st.ops
	for i := 0; i < 400 && !h.stop(); i++ {
		h.r.Sleep(time.Second + c.tick)
		if h.st.inflight == 0 && h.st.ops == last {
			quiet++
			if quiet >= 21 {
				h.r.Probe("c16.reconnect_after_storage_caught_up")
				return true
			}
		} else {
			quiet, last = 0, h.st.ops
		}
	}
	h.quietFailed = true
	return false
}

// onPrefix runs inside c16Store.getPrefix, i.e. when Broker.reconnectWatcher
// looks for sessions deleted while the watch was broken: an id whose key is
// missing at that moment (deleted, or not stored yet: the store is
// asynchronous) may be disconnected from then on.
func (h *c16H) onPrefix(has func(id string) bool) {
	x := has(c16ID)
	if !x {
		h.watchKill = true
		h.r.Probe("c16.watch_break.contested_key_missing")
	} else {
		h.r.Probe("c16.watch_break.contested_key_present")
	}
	for _, by := range h.bys {
		if !has(by.id) {
			by.mayClose = true
			by.bcast()
		}
	}
	if !x {
		for _, c := range h.clis {
			c.bcast()
		}
	}
	h.logf("store: watch re-established, session keys listed (contested key present=%v)", x)
}

// ---- server side ------------------------------------------------------------

func (h *c16H) serve(conn net.Conn) {
	sc, _ := conn.(*simnet.Conn)
	st := &c16Srv{}
	if sc != nil {
		st.cid = sc.ID
		h.srv[sc.ID] = st
	}
	defer func() {
		p := recover()
		stack := ""
		if p != nil {
			stack = c16Stack()
		}
		// The handler may have been woken by a timer (keep-alive deadline) at the
		// very instant at which other goroutines of the broker were woken by
		// theirs: pass a gate before recording anything, so that the recorded
		// history does not depend on the order in which the runtime ran them.
		h.r.Yield("c16.handler-returned")
		if p != nil {
			if !h.closing {
				msg := fmt.Sprintf("conn %d: %v\n%s", st.cid, p, stack)
				h.panics = append(h.panics, msg)
				h.logf("handleConn PANIC %v", p)
				cls := "C16.panic.handleConn"
				if strings.Contains(fmt.Sprint(p), "close of closed channel") {
					cls = "C16.panic.session-closed-twice"
				}
				h.r.Violate(cls, "Broker.handleConn panicked (this kills the easegress process): %s\n%s", msg, h.history())
			}
			conn.Close()
		}
		st.returned = true
		st.retSeq = h.r.Seq()
		st.retAt = h.r.Now()
		if c := h.byConn[st.cid]; c != nil && !h.closing {
			h.logf("server: handler of %s (conn %d) returned", c.name, st.cid)
		} else if name := h.intr[st.cid]; name != "" && !h.closing {
			h.logf("server: handler of %s (conn %d) returned", name, st.cid)
		}
		h.bcast()
	}()
	h.b.handleConn(conn)
}

func (h *c16H) invariant() string {
	if h.closing || h.b == nil {
		return ""
	}
	for _, x := range h.b.clients {
		if id := c16ConnID(x); id >= 0 && h.clOf[id] != x {
			h.clOf[id] = x
		}
	}
	cl := h.b.clients[c16ID]
	if cl != nil && cl != h.lastCl {
		h.lastCl = cl
		known := false
		for _, x := range h.seenCl {
			if x == cl {
				known = true
			}
		}
		if !known {
			h.seenCl = append(h.seenCl, cl)
		}
	}
	L := h.cur
	if L == nil {
		return ""
	}
	if cl != nil {
		id := c16ConnID(cl)
		c := h.byConn[id]
		if name := h.intr[id]; name != "" {
			return fmt.Sprintf("C16.refused-connection-registered: b.clients[%s] is the connection of %s, whose CONNECT had to be refused\n%s", c16ID, name, h.history())
		}
		if c != nil && c.idx >= 0 && c.idx < L.idx {
			return fmt.Sprintf("C16.invariant.stale-registration: b.clients[%s] is connection %s although the newer connection %s has been acknowledged\n%s", c16ID, c.name, L.name, h.history())
		}
		if s := h.srv[id]; s != nil && s.returned && c != nil && c.connected {
			return fmt.Sprintf("C16.invariant.dead-registration: b.clients[%s] is connection %s whose handler has returned\n%s", c16ID, c.name, h.history())
		}
		return ""
	}
	if L.connected && !L.ended && !L.closedByServer && !L.superseded && !h.admin && !h.watchKill && (L.spec.KeepAlive == 0 || L.spec.KeepAlive >= 3600) {
		return fmt.Sprintf("%s: b.clients[%s] is empty although connection %s was acknowledged, is healthy and nobody deleted its session; store deletes of its key: %v\n%s",
			h.killClass("C16.invariant.registration-missing"), c16ID, L.name, h.st.delLog, h.history())
	}
	return ""
}

// killClass refines the class of "the surviving connection was unregistered /
// disconnected" when the store saw the broker itself delete the id's key (the
// delete-watch then treats it like an admin deletion).
func (h *c16H) killClass(def string) string {
	// deleted by a connection that no longer owned the id (a newer one was
	// registered): the teardown of a superseded connection reached delDB
	for _, d := range h.st.delLog {
		if strings.HasPrefix(d, "broker(superseded)") && strings.Contains(d, "existed=true") {
			return "C16.takeover.successor-killed"
		}
	}
	// a legitimate deletion by the owner of the id (end of a clean session)
	// whose delete-watch event arrives after the id's next connection registered
	if h.brokerDeleted() {
		return "C16.reconnect.killed-by-own-delete-event"
	}
	// the delete watch broke and was re-established; the id's session key was in
	// the store whenever the broker listed the keys, nobody deleted it
	if h.st.breaks > 0 && !h.watchKill {
		return "C16.watch-reconnect.healthy-client-closed"
	}
	return def
}

// deleterRole runs inside c16Store.delete, i.e. on the goroutine that called
// SessionManager.delDB: the *Client whose closeAndDelSession is on the stack is
// compared with the client registered for the id at this moment.
func (h *c16H) deleterRole() string {
	buf := make([]byte, 8192)
	st := string(buf[:runtime.Stack(buf, false)])
	i := strings.Index(st, "(*Client).closeAndDelSession(")
	if i < 0 {
		return "unknown"
	}
	arg := st[i+len("(*Client).closeAndDelSession("):]
	if j := strings.IndexAny(arg, ",)"); j >= 0 {
		arg = arg[:j]
	}
	arg = strings.TrimSuffix(strings.TrimSpace(arg), "?")
	cur := h.b.clients[c16ID]
	switch {
	case cur == nil:
		// a first, regular teardown still finds itself registered
		// (removeClient comes after closeAndDelSession)
		return "unregistered"
	case fmt.Sprintf("%p", cur) == arg:
		return "owner"
	}
	return "superseded"
}

// storedHistory classifies a mismatch between the session restored from the
// store and the model for filter f: "stale" if the store had already received a
// snapshot with the right state of f before the session was looked up and an
// older snapshot overwrote it (snapshots overtaking each other), "lag" if the
// right snapshot simply had not arrived yet, "" if the store was never read.
func (h *c16H) storedHistory(f string, want bool) string {
	mark := -1
	for _, c := range h.clis {
		if c.connected && c.putMark >= 0 {
			mark = c.putMark
		}
	}
	if mark < 0 {
		return ""
	}
	if mark > len(h.st.putLog) {
		mark = len(h.st.putLog)
	}
	has := func(i int) bool { return strings.Contains(h.st.putLog[i]+" ", " "+f+": ") }
	seenWant, seenOther := false, false
	for i := 0; i < mark; i++ {
		if has(i) == want {
			seenWant = true
			seenOther = false
		} else if seenWant {
			seenOther = true
		}
	}
	// a snapshot with the right state reached the store only after the lookup:
	// it was late, not overtaken
	for i := mark; i < len(h.st.putLog); i++ {
		if has(i) == want {
			return "lag"
		}
	}
	// the last snapshot before the lookup has the wrong state although a
	// snapshot with the right one had arrived before it
	if seenWant && seenOther {
		return "stale"
	}
	return "lag"
}

// unregisteredDeleted / supersededDeleted: an existing store record of the id
// was deleted by a connection that was not registered any more / that had been
// replaced by a newer registered connection.
func (h *c16H) unregisteredDeleted() bool { return h.deletedBy("broker(unregistered)") }
func (h *c16H) supersededDeleted() bool   { return h.deletedBy("broker(superseded)") }
func (h *c16H) deletedBy(prefix string) bool {
	for _, d := range h.st.delLog {
		if strings.HasPrefix(d, prefix) && strings.Contains(d, "existed=true") {
			return true
		}
	}
	return false
}

// brokerDeleted: the broker itself deleted the (existing) store record of the
// contested id.
func (h *c16H) brokerDeleted() bool {
	for _, d := range h.st.delLog {
		if strings.HasPrefix(d, "broker") && strings.Contains(d, "existed=true") {
			return true
		}
	}
	return false
}

// takeoverTeardown: some connection of the contested id was taken over, i.e.
// its handler was still running when its successor was acknowledged (its
// teardown therefore happened, happens or will happen after the takeover).
func (h *c16H) takeoverTeardown() bool {
	for _, c := range h.clis {
		if c.takenOver {
			return true
		}
	}
	return false
}

func (h *c16H) trieHas(filter, id string) bool {
	node := h.b.topicMgr.root
	for _, l := range strings.Split(filter, "/") {
		nx, ok := node.nodes[l]
		if !ok {
			return false
		}
		node = nx
	}
	_, ok := node.clients[id]
	return ok
}

func (h *c16H) trieFilters(id string) []string {
	var out []string
	var walk func(n *topicNode, path []string)
	walk = func(n *topicNode, path []string) {
		if _, ok := n.clients[id]; ok && len(path) > 0 {
			out = append(out, strings.Join(path, "/"))
		}
		for l, nx := range n.nodes {
			walk(nx, append(append([]string{}, path...), l))
		}
	}
	walk(h.b.topicMgr.root, nil)
	sort.Strings(out)
	return out
}

// probe publishes one message per probe topic (synchronously through
// Broker.sendMsgToClient, the function behind the publish endpoint) and
// returns the payload per topic.
func (h *c16H) probe() (map[string]string, bool) {
	q := byte(0)
	if h.sc.AllQoS1 {
		q = 1
	}
	return h.probeQ(q)
}

func (h *c16H) probeQ(q byte) (map[string]string, bool) {
	h.probeN++
	round := h.probeN
	out := map[string]string{}
	done := false
	h.goTask(fmt.Sprintf("probe%d", round), func() {
		for i, t := range c16Topics {
			pl := fmt.Sprintf("p%d.%d", round, i)
			out[t] = pl
			h.logf("probe publish %s on %s qos%d", pl, t, q)
			h.b.sendMsgToClient(nil, t, []byte(pl), q)
		}
		done = true
		h.bcast()
	})
	ok := h.waitH("probe-publish-return", func() bool { return done })
	return out, ok
}

// barrier: PINGRESPs come back in the order of the PINGREQs, so the barrier
// holds once every ping sent so far has been answered (a scripted no_wait ping
// may still be unanswered: its late PINGRESP must not be taken for ours).
func (h *c16H) barrier(c *c16Cli) bool {
	if err := c.send(packets.NewControlPacket(packets.Pingreq)); err != nil {
		h.logf("%s: barrier ping write failed: %v", c.name, err)
		return false
	}
	n := c.pingSent
	return h.waitFor(c, "pingresp", func() bool { return c.pingResp >= n })
}

// supersededTeardownAfter tells whether an older connection of the contested
// id was torn down (handler returned) after S had sent its CONNECT, or is still
// not torn down.
func (h *c16H) supersededTeardownAfter(S *c16Cli) (after []string, pendingOld []string) {
	for _, c := range h.clis {
		if c == S || c.idx >= S.idx || !c.connected {
			continue
		}
		s := h.srv[c.cid]
		if s == nil {
			continue
		}
		if !s.returned {
			pendingOld = append(pendingOld, c.name)
		} else if s.retSeq > S.connectSeq {
			after = append(after, c.name)
		}
	}
	return
}

func (h *c16H) final() {
	r := h.r
	var S *c16Cli
	if n := len(h.sc.Conns); n > 0 && len(h.clis) == n {
		last := h.clis[n-1]
		if last.connected && last.spec.End == "stay" && h.cur == last && (last.spec.KeepAlive == 0 || last.spec.KeepAlive >= 3600) {
			S = last
		}
	}
	for _, c := range h.clis {
		if !c.connected {
			continue
		}
		if s := h.srv[c.cid]; s != nil && s.returned && h.cur != nil && c.idx < h.cur.idx {
			switch {
			case s.retSeq < h.cur.connectSeq:
				r.Probe("c16.old_teardown_before_new_connect")
			case s.retSeq < h.cur.connackSeq:
				r.Probe("c16.old_teardown_during_new_handshake")
			default:
				r.Probe("c16.old_teardown_after_new_connack")
			}
		}
	}
	h.checkGapVictim()
	h.checkVictims()
	if S != nil && h.watchKill {
		// its session key was missing when the broker re-established the delete
		// watch: the broker may have disconnected it for that (see onPrefix)
		r.Probe("c16.survivor_not_judged_after_watch_break")
		S = nil
	}
	if S == nil {
		r.Probe("c16.no_survivor")
		return
	}
	if h.st.breaks > 0 {
		r.Probe("c16.survivor_checked_after_watch_break")
	}
	if len(h.intr) > 0 {
		r.Probe("c16.survivor_checked_after_refused_attempts")
	}
	// ctx and the class refinements are evaluated when a violation is reported
	// (the white-box reads below pass gates, a teardown may happen meanwhile)
	ctx := func() string {
		after, pendingOld := h.supersededTeardownAfter(S)
		return fmt.Sprintf("survivor %s (clean=%v, session restored from store=%v); superseded connections torn down after its CONNECT: %v, never torn down: %v; a superseded connection was torn down during the run: %v; store deletes of its key: %v; store puts of its key: %v",
			S.name, S.spec.Clean, S.fromDB, after, pendingOld, h.takeoverTeardown(), h.st.delLog, h.st.putLog)
	}
	if after, pendingOld := h.supersededTeardownAfter(S); len(after) > 0 {
		r.Probe("c16.superseded_teardown_after_survivor_connect")
	} else if len(pendingOld) > 0 {
		r.Probe("c16.superseded_connection_never_torn_down")
	}
	lag := func() string {
		if h.sc.Store.Async {
			return ".store-lag"
		}
		return ""
	}
	m := &h.model
	// an operation of the survivor that is still unacknowledged (no_wait steps)
	// may be half applied (trie already changed, session not yet, or not at
	// all): its filters are ambiguous for the white-box checks as well as for
	// the probes
	inflightAmb := func() {
		for _, op := range S.inflight {
			for _, f := range op.filters {
				if !m.amb[f] {
					m.amb[f] = true
					r.Probe("c16.operation_in_flight_at_final_check")
				}
			}
		}
	}
	inflightAmb()
	// F0 black box: not closed by the server
	if S.closedByServer {
		r.Violate(h.killClass("C16.survivor-disconnected"), "the surviving connection was closed by the server (%s). %s\n%s", S.closeErr, ctx(), h.history())
		return
	}
	// F1 registration
	cl := h.b.clients[c16ID]
	switch {
	case cl == nil:
		r.Violate(h.killClass("C16.registration-lost"), "b.clients[%s] is empty. %s\n%s", c16ID, ctx(), h.history())
	case c16ConnID(cl) != S.cid:
		r.Violate("C16.registration-lost", "b.clients[%s] is connection %d, not the survivor's %d. %s\n%s", c16ID, c16ConnID(cl), S.cid, ctx(), h.history())
	case cl.statusFlag == Disconnected:
		r.Violate(h.killClass("C16.survivor-disconnected"), "the surviving connection is registered but marked disconnected. %s\n%s", ctx(), h.history())
	}
	if cl == nil || c16ConnID(cl) != S.cid || cl.statusFlag == Disconnected {
		// everything below would only list consequences of the lost registration
		return
	}
	// F2 session entry
	if cl != nil {
		v, ok := h.b.sessMgr.sessionMap.Load(c16ID)
		closed := false
		if cl.session != nil {
			select {
			case <-cl.session.done:
				closed = true
			default:
			}
		}
		cls := "C16.session-entry-lost"
		if h.takeoverTeardown() {
			cls = "C16.takeover.session-entry-removed"
		}
		switch {
		case !ok:
			r.Violate(cls, "sessionMap has no entry for %s while its connection is alive (session closed=%v). %s\n%s", c16ID, closed, ctx(), h.history())
		case v.(*Session) != cl.session:
			r.Violate(cls, "sessionMap[%s] is not the session of the registered connection. %s\n%s", c16ID, ctx(), h.history())
		case closed:
			r.Violate(cls, "the session of the registered connection has been closed (no QoS1 resend any more). %s\n%s", ctx(), h.history())
		}
	}
	// white-box view used to name the mechanism of a subscription mismatch
	sessHas := func(f string) bool {
		if cl == nil || cl.session == nil || cl.session.info == nil {
			return false
		}
		_, ok := cl.session.info.Topics[f]
		return ok
	}
	sessTopics := func() []string {
		var out []string
		if cl != nil && cl.session != nil && cl.session.info != nil {
			for f := range cl.session.info.Topics {
				out = append(out, f)
			}
		}
		sort.Strings(out)
		return out
	}
	// quietOK: the survivor's session was restored from the storage, every
	// reconnect of the run waited for the storage to catch up, no injected
	// storage error, the broker never deleted the id's key
	quietOK := func() bool {
		return h.sc.StoreQuiet && !h.quietFailed && S.fromDB && !h.st.lossy && !h.brokerDeleted() && h.st.breaks == 0
	}
	lostClass := func(f string, blackbox bool) string {
		inh := m.inherited[f]
		switch {
		case !sessHas(f) && inh && quietOK():
			// not the known store lag (SUBACK before persistence): every reconnect
			// of this run waited until the storage had caught up, the snapshot with
			// the acknowledged subscription never arrived there
			return "C16.reconnect.subscription-never-persisted"
		case !sessHas(f) && inh && h.sc.Store.Async:
			return "C16.reconnect.subscription-not-restored.store-lag"
		case !sessHas(f) && inh && h.unregisteredDeleted():
			// a connection that was not registered any more (second teardown of
			// one connection through its write loop, or a connection unregistered
			// by the delete watch) ran the clean-up and deleted the stored session
			// of a later connection
			return "C16.stale-teardown.stored-session-deleted"
		case !sessHas(f) && inh && h.takeoverTeardown() && h.supersededDeleted():
			return "C16.takeover.stored-session-deleted"
		case !sessHas(f) && inh && !h.st.lossy && h.storedHistory(f, true) == "lag" && len(h.st.putLog) > 0:
			// the snapshot with the subscription had not reached the store yet
			// when the session was looked up there (SUBACK precedes persistence)
			return "C16.reconnect.subscription-not-restored.store-lag"
		case !sessHas(f) && inh && !h.st.lossy && h.storedHistory(f, true) == "stale" && h.supInflight:
			// a packet of the superseded connection was processed after the
			// takeover and stored its old session over the successor's
			return "C16.takeover.old-connection-overwrote-session"
		case !sessHas(f) && inh && !h.st.lossy && h.storedHistory(f, true) == "stale":
			// the store had the subscription and an older snapshot overwrote it
			// (the snapshots of Session.store travel in goroutines of their own
			// and may reach the storage in another order than they were taken)
			return "C16.stored-session-stale"
		case !sessHas(f) && inh && h.supInflight:
			return "C16.takeover.old-connection-overwrote-session"
		case !sessHas(f) && inh:
			return "C16.reconnect.subscription-not-restored" + lag()
		case h.takeoverTeardown() && blackbox:
			return "C16.takeover.delivery-lost"
		case h.takeoverTeardown():
			return "C16.takeover.subscription-removed"
		case inh:
			return "C16.reconnect.subscription-not-restored" + lag()
		}
		return "C16.own-subscription-lost"
	}
	// F3 trie
	for _, f := range m.firm() {
		if !h.trieHas(f, c16ID) {
			r.Violate(lostClass(f, false), "filter %q (inherited=%v) of the surviving connection is not in the topic trie (trie has %v for %s, its session object has %v, model %v). %s\n%s",
				f, m.inherited[f], h.trieFilters(c16ID), c16ID, sessTopics(), m.firm(), ctx(), h.history())
			break
		}
	}
	// F4 black box delivery
	if h.stuck {
		return
	}
	// expectations are fixed now: an operation acknowledged only after the probe
	// publishes may or may not apply to them
	inflightAmb()
	type c16Exp struct {
		must, may bool
		why       string
	}
	exp := map[string]c16Exp{}
	for _, t := range c16Topics {
		must, may, why := m.expect(t)
		exp[t] = c16Exp{must, may, why}
	}
	pl, ok := h.probe()
	if !ok {
		return
	}
	if !h.barrier(S) {
		if S.closedByServer && !h.stuck {
			r.Violate(h.killClass("C16.survivor-disconnected"), "the surviving connection was closed by the server during the final probe (%s). %s\n%s", S.closeErr, ctx(), h.history())
		}
		return
	}
	for _, t := range c16Topics {
		must, may, why := exp[t].must, exp[t].may, exp[t].why
		got := S.recv[pl[t]] > 0
		switch {
		case must && !got:
			f := strings.TrimSuffix(why, " (inherited)")
			wb := ""
			if cl != nil && cl.session != nil {
				closed := false
				select {
				case <-cl.session.done:
					closed = true
				default:
				}
				wb = fmt.Sprintf(" [registered client: conn %d, write queue %d/%d, disconnected=%v; session: %d pending, closed=%v, registered now: %v]",
					c16ConnID(cl), len(cl.writeCh), cap(cl.writeCh), cl.statusFlag == Disconnected, len(cl.session.pending), closed, h.b.clients[c16ID] == cl)
			}
			r.Violate(lostClass(f, true), "probe %s on %q was not delivered to the surviving connection although it holds %s (trie has %v for %s, its session object has %v)%s. %s\n%s",
				pl[t], t, why, h.trieFilters(c16ID), c16ID, sessTopics(), wb, ctx(), h.history())
		case !may && got:
			// which stale filter routed it?
			inSession := false
			var stale []string
			for _, f := range h.trieFilters(c16ID) {
				if c16Match(f, t) {
					stale = append(stale, f)
					if sessHas(f) {
						inSession = true
					}
				}
			}
			cls := "C16.discarded-session-still-delivers"
			if inSession {
				cls = "C16.reconnect.stale-session-restored" + lag()
				if quietOK() {
					cls = "C16.reconnect.unsubscribe-never-persisted"
				} else if !h.sc.Store.Async && !h.st.lossy {
					for _, f := range stale {
						switch h.storedHistory(f, false) {
						case "stale":
							cls = "C16.stored-session-stale"
						case "lag":
							cls = "C16.reconnect.stale-session-restored.store-lag"
						}
					}
				}
			}
			r.Violate(cls, "probe %s on %q was delivered to the surviving connection whose session must not have a matching filter (model %v, ambiguous %v; trie has %v for %s, matching %v, its session object has %v). %s\n%s",
				pl[t], t, m.firm(), c16Keys(m.amb), h.trieFilters(c16ID), c16ID, stale, sessTopics(), ctx(), h.history())
		}
		if must && got {
			if strings.Contains(why, "inherited") {
				r.Probe("c16.inherited_subscription_delivers")
			} else {
				r.Probe("c16.own_subscription_delivers")
			}
		}
	}
	if S.spec.Clean && S.idx > 0 {
		r.Probe("c16.clean1_survivor_checked")
	}
	// F5 subscriptions keep their QoS (sessions with QoS0 and QoS>=1 filters):
	// a QoS1 message must reach the survivor if a firm filter subscribed with
	// QoS 1 or 2 matches. Where only QoS0 filters match both outcomes are
	// accepted (easegress drops instead of downgrading: C15's subject).
	if !h.sc.AllQoS1 && !r.Violated() && !h.stuck {
		lo, hi := false, false
		for _, f := range m.firm() {
			if m.subs[f] >= 1 {
				hi = true
			} else {
				lo = true
			}
		}
		if lo && hi {
			// an inherited filter counts only if the id never asked for it with
			// QoS0: otherwise an older snapshot of the session (the store lags
			// behind the acknowledgements: known findings *.store-lag) may
			// legitimately carry the other QoS
			must1 := map[string]string{}
			for _, t := range c16Topics {
				for _, f := range m.firm() {
					if m.subs[f] >= 1 && c16Match(f, t) && !(m.inherited[f] && m.everLo[f]) {
						must1[t] = f
					}
				}
			}
			pl1, ok := h.probeQ(1)
			if !ok || !h.barrier(S) {
				if S.closedByServer && !h.stuck {
					r.Violate(h.killClass("C16.survivor-disconnected"), "the surviving connection was closed by the server during the QoS1 probe (%s). %s\n%s", S.closeErr, ctx(), h.history())
				}
				return
			}
			for _, t := range c16Topics {
				if f := must1[t]; f != "" && S.recv[pl1[t]] == 0 {
					cls := "C16.subscription-qos-lost"
					if m.inherited[f] {
						cls = "C16.reconnect.subscription-qos-not-restored"
					}
					r.Violate(cls, "QoS1 probe %s on %q was not delivered to the surviving connection although it holds %q subscribed with QoS%d (inherited=%v; model %v; its session object has %v). %s\n%s",
						pl1[t], t, f, m.subs[f], m.inherited[f], m2s(m.subs), sessTopics(), ctx(), h.history())
					break
				}
			}
			r.Probe("c16.mixed_qos_session_checked")
			if r.Violated() {
				return
			}
		}
	}
	// F6 slow consumer: QoS1 messages published while the survivor does not
	// read (more than the socket buffer and the connection's queue hold) all
	// arrive once it reads again ("keeps receiving matching messages"; it
	// acknowledges every message)
	if n := h.sc.Burst; n > 0 && h.sc.AllQoS1 && !S.spec.NoAck && !r.Violated() && !h.stuck {
		topic := ""
		for _, t := range c16Topics {
			if exp[t].must {
				topic = t
				break
			}
		}
		if n > 200 {
			n = 200
		}
		pad := h.sc.BurstPad
		if pad < 0 || pad > 4096 {
			pad = 0
		}
		if h.sc.BufSize > 0 && h.sc.BufSize <= 4096 {
			// a tiny window carries a padded message in dozens of segments: slower
			// than the broker's resend rate (see the latency cap in Exec)
			pad = 0
			if n > 60 {
				n = 60
			}
		}
		if topic != "" {
			gate := make(chan struct{})
			S.pause = gate
			done := false
			var want []string
			for i := 0; i < n; i++ {
				want = append(want, fmt.Sprintf("burst-%04d-of-%d.", i, n)+strings.Repeat("x", pad))
			}
			h.logf("burst: %d QoS1 messages of %d bytes on %s while %s does not read", n, len(want[0]), topic, S.name)
			h.goTask("burst", func() {
				for _, pl := range want {
					h.b.sendMsgToClient(nil, topic, []byte(pl), 1)
				}
				done = true
				h.bcast()
			})
			if !h.waitH("burst-publish-return", func() bool { return done }) {
				close(gate)
				return
			}
			r.Sleep(1013 * time.Millisecond)
			close(gate)
			got := func() int {
				k := 0
				for _, pl := range want {
					if S.recv[pl] > 0 {
						k++
					}
				}
				return k
			}
			deadline := time.Now().Add(c16Timeout)
			for got() < n && !S.dead() && !h.stop() && time.Now().Before(deadline) {
				ch := S.note
				t := time.NewTimer(time.Until(deadline))
				select {
				case <-ch:
				case <-t.C:
				}
				t.Stop()
				r.Yield("c16.wake")
			}
			if h.stop() {
				return
			}
			if k := got(); k < n {
				cls := "C16.qos1-messages-never-delivered"
				if S.fromDB {
					cls = "C16.reconnect.restored-session-never-redelivers"
				}
				if S.closedByServer {
					cls = h.killClass("C16.survivor-disconnected")
				}
				pend, qlen := -1, -1
				if cl.session != nil {
					pend = len(cl.session.pending)
				}
				qlen = len(cl.writeCh)
				r.Violate(cls, "%d of %d QoS1 messages published on %q while the surviving connection did not read were never delivered within %v after it resumed reading and acknowledging (session restored from store=%v, %d pending in its session, write queue %d/%d, closed by server=%v). %s\n%s",
					n-k, n, topic, c16Timeout, S.fromDB, pend, qlen, cap(cl.writeCh), S.closedByServer, ctx(), h.history())
				return
			}
			r.Probe("c16.burst_to_slow_consumer_delivered")
			if S.fromDB {
				r.Probe("c16.burst_to_restored_session_delivered")
			}
			// the acknowledgements must have reached the broker before the next step
			if !h.barrier(S) {
				return
			}
		}
	}
	// bystanders
	for _, by := range h.bys {
		if by.mayClose {
			// its own session was deleted through the admin handler (or was not
			// stored yet when the delete watch was re-established)
			r.Probe("c16.bystander_not_judged")
			continue
		}
		if !by.ready || by.closedByServer {
			if by.closedByServer {
				cls := "C16.bystander-disconnected"
				if h.st.breaks > 0 {
					cls = "C16.watch-reconnect.healthy-client-closed"
				}
				r.Violate(cls, "%s was closed by the server (%s)\n%s", by.name, by.closeErr, h.history())
			}
			continue
		}
		if cl := h.b.clients[by.id]; h.st.breaks > 0 && cl != nil && cl.statusFlag == Disconnected {
			r.Violate("C16.watch-reconnect.healthy-client-closed", "%s (id %q) is marked disconnected although nobody deleted its session; the delete watch broke %d times\n%s", by.name, by.id, h.st.breaks, h.history())
			continue
		}
		if !h.barrier(by) {
			if by.closedByServer && !by.mayClose && !h.stuck {
				r.Violate("C16.bystander-disconnected", "%s was closed by the server at its next packet (%s)\n%s", by.name, by.closeErr, h.history())
			}
			continue
		}
		for _, t := range c16Topics {
			must := false
			for f := range by.subs {
				if c16Match(f, t) {
					must = true
				}
			}
			got := by.recv[pl[t]] > 0
			if must && !got {
				r.Violate("C16.bystander-delivery-lost", "probe %s on %q did not reach %s (subscriptions %v)\n%s", pl[t], t, by.name, by.subs, h.history())
			}
			if !must && got {
				r.Violate("C16.bystander-unexpected-delivery", "probe %s on %q reached %s (subscriptions %v)\n%s", pl[t], t, by.name, by.subs, h.history())
			}
		}
	}
	if !h.sc.AdminDelete || r.Violated() {
		return
	}
	// admin delete
	key := sessionStoreKey(c16ID)
	_, existed := h.st.data[key]
	errs := h.st.delErrs
	h.admin = true
	h.st.admin = true
	dreq := HTTPSessions{Sessions: []*HTTPSession{{SessionID: c16ID}}}
	if h.sc.BatchWatch {
		// one request, several sessions (the other one belongs to an offline
		// client), one watch event
		other := &HTTPSession{SessionID: c16ID + "zz"}
		if h.sc.Burst%2 == 0 {
			dreq.Sessions = append(dreq.Sessions, other)
		} else {
			dreq.Sessions = append([]*HTTPSession{other}, dreq.Sessions...)
		}
		h.st.batchBegin()
	}
	body, _ := json.Marshal(dreq)
	req := httptest.NewRequest(http.MethodDelete, "/mqttproxy/c16/sessions", bytes.NewReader(body))
	rec := httptest.NewRecorder()
	h.logf("admin: DELETE session %s (key existed=%v, sessions in the request: %d)", c16ID, existed, len(dreq.Sessions))
	h.b.httpDeleteSessionHandler(rec, req)
	if h.sc.BatchWatch {
		h.st.batchEnd()
	}
	h.st.admin = false
	if !existed || h.st.delErrs > errs {
		r.Probe("c16.admin_delete_not_asserted")
		return
	}
	gone := false
	deadline := time.Now().Add(c16Timeout)
	for step := 53 * time.Millisecond; time.Now().Before(deadline) && !h.stop(); {
		if h.b.clients[c16ID] == nil {
			gone = true
			break
		}
		r.Sleep(step)
		if step < time.Minute {
			step *= 2
		}
	}
	if !gone {
		r.Violate("C16.admin-delete.client-still-registered", "after DELETE of session %s through the admin handler the client stays in b.clients. %s\n%s", c16ID, ctx(), h.history())
		return
	}
	r.Probe("c16.admin_delete_unregistered_client")
	// ... and nobody else
	for _, by := range h.bys {
		if !by.ready || by.mayClose || by.closedByServer {
			continue
		}
		if cl := h.b.clients[by.id]; cl == nil || cl.statusFlag == Disconnected {
			r.Violate("C16.admin-delete.other-client-affected", "after DELETE of session %q through the admin handler the client %q (%s) is unregistered or marked disconnected\n%s", c16ID, by.id, by.name, h.history())
			return
		}
		r.Probe("c16.admin_delete_left_others_alone")
	}
	pl2, ok := h.probe()
	if !ok {
		return
	}
	S.send(packets.NewControlPacket(packets.Pingreq))
	if !h.waitFor(S, "close-after-admin-delete", func() bool { return S.closedByServer }) {
		if !h.stuck && !S.closedByServer {
			r.Violate("C16.admin-delete.connection-not-closed", "after the admin delete the client's next packet did not make the server close the connection\n%s", h.history())
		}
		return
	}
	for _, t := range c16Topics {
		if S.recv[pl2[t]] > 0 {
			r.Violate("C16.admin-delete.still-delivers", "probe %s on %q reached the client after its session had been deleted through the admin handler\n%s", pl2[t], t, h.history())
		}
	}
	r.Probe("c16.admin_delete_closed_connection")
}

var c16LoggerReady bool

func c16Exec(r *sim.Run, sci interface{}) {
	sc := sci.(*c16Scenario)
	if len(sc.Conns) == 0 {
		return
	}
	if !c16LoggerReady {
		logger.InitNop()
		c16LoggerReady = true
	}
	r.MultiClass = true
	c16ID = c16IDs[0]
	for _, id := range c16IDs {
		if id == sc.ID {
			c16ID = id
		}
	}
	if c16ID != c16IDs[0] {
		r.Probe("c16.client_id_shape")
	}
	h := &c16H{r: r, sc: sc, byConn: map[int]*c16Cli{}, srv: map[int]*c16Srv{}, note: make(chan struct{}), liveNames: map[string]bool{}, intr: map[int]string{}, clOf: map[int]*Client{}}
	h.model = c16Model{subs: map[string]byte{}, inherited: map[string]bool{}, amb: map[string]bool{}, ever: map[string]bool{}, everLo: map[string]bool{}}
	h.n = simnet.New()
	if sc.BufSize > 0 {
		h.n.BufferSize = sc.BufSize
		if h.n.BufferSize < 48 {
			h.n.BufferSize = 48
		}
	}
	simnet.SetDefault(h.n)
	defer simnet.SetDefault(nil)
	h.n.PlanFor = func(id int, addr string) (c2s, s2c simnet.DirPlan) {
		for k := range sc.Conns {
			if strings.HasPrefix(addr, fmt.Sprintf("x%d.", k)) {
				c := sc.Conns[k]
				for _, s := range c.SegC2S {
					if s > 0 {
						c2s.SegSizes = append(c2s.SegSizes, s)
					}
				}
				// latency is per segment and segments are delivered one after
				// the other: with tiny segments or a tiny window a long latency
				// would make the link slower than the broker's 200 ms resend rate
				// (a congestion collapse that has nothing to do with the property)
				lim := int64(1 << 40)
				if len(c2s.SegSizes) > 0 || (sc.BufSize > 0 && sc.BufSize <= 4096) || sc.Burst > 0 {
					// (the burst check makes the broker resend every 200 ms to a
					// client that acknowledges every copy with a segment of its own)
					lim = 5000
				}
				for _, d := range c.DelayC2SUs {
					if d > lim {
						d = lim
					}
					c2s.Delays = append(c2s.Delays, c16Us(d))
				}
				for _, d := range c.DelayS2CUs {
					if d > lim {
						d = lim
					}
					s2c.Delays = append(s2c.Delays, c16Us(d))
				}
			}
		}
		return
	}
	h.st = &c16Store{r: r, f: sc.Store, data: map[string]string{}, ch: make(chan map[string]*string, 256), getHit: map[string]int{}, getMark: map[string]int{}, getCnt: map[string]int{}}
	h.st.deleter = h.deleterRole
	h.st.onPrefix = h.onPrefix
	if sc.GapDelete != "" {
		h.st.midHook = h.gapDelete
	}
	if len(sc.Adm) > 0 || sc.BatchWatch {
		// the stored session of an offline persistent client whose id extends the
		// contested id (deleted by some of the admin requests)
		off := &Session{info: &SessionInfo{EGName: "eg", Name: "c16", Topics: map[string]int{"a/#": 1, "c": 0}, ClientID: c16ID + "zz"}}
		if v, err := off.encode(); err == nil {
			h.st.data[sessionStoreKey(c16ID+"zz")] = v
		}
	}
	spec := &Spec{Name: "c16", EGName: "eg", Port: 1884}
	if sc.TopicCache > 0 {
		spec.TopicCacheSize = sc.TopicCache
		r.Probe("c16.spec.small_topic_cache")
	}
	if sc.MaxConn {
		// never binding: refused attempts are never registered
		spec.MaxAllowedConnection = len(sc.By) + 2
		r.Probe("c16.spec.max_allowed_connection")
	}
	if sc.ConnLimit {
		spec.ConnectionLimit = &RateLimit{RequestRate: 100000, TimePeriod: 1}
		spec.ClientPublishLimit = &RateLimit{RequestRate: 100000, BytesRate: 100000000, TimePeriod: 1}
		r.Probe("c16.spec.rate_limits")
	}
	for _, pt := range h.pipeTypes() {
		spec.Rules = append(spec.Rules, &Rule{When: &When{PacketType: pt}, Pipeline: "c16-" + string(pt)})
		r.Probe("c16.spec.pipeline." + string(pt))
	}
	h.b = newBroker(spec, h.st, &c16Mux{h: h}, func(string, string) ([]string, error) { return nil, nil })
	if h.b == nil {
		r.Violate("C16.harness", "newBroker returned nil")
		return
	}
	ln, err := h.n.Listen("tcp", ":1883")
	if err != nil {
		r.Violate("C16.harness", "listen: %v", err)
		return
	}
	go func() {
		for {
			conn, err := ln.Accept()
			if err != nil {
				return
			}
			cn := conn
			id := 0
			if sc, ok := conn.(*simnet.Conn); ok {
				id = sc.ID
			}
			// a named task: the names of the broker's goroutines (children of
			// this one) then do not depend on who reaches a gate first
			h.goTask(fmt.Sprintf("srv%d", id), func() { h.serve(cn) })
		}
	}()
	r.SetInvariant(h.invariant)

	for j, by := range sc.By {
		bid := fmt.Sprintf("B%d", j)
		if sc.ByExt {
			// ids that have the contested id as a prefix
			bid = fmt.Sprintf("%s%d", c16ID, j)
		}
		c := h.newCli(fmt.Sprintf("by%d", j), bid, -1, c16Conn{Clean: by.Clean})
		h.bys = append(h.bys, c)
		h.pending++
		by := by
		h.goTask(c.name, func() { h.bystander(c, by) })
	}
	h.pending += 2
	h.goTask("driver", h.driver)
	h.goTask("pub", h.publisher)
	for j, in := range sc.Intr {
		j, in := j, in
		tick := h.nextTick()
		h.pending++
		h.goTask(fmt.Sprintf("in%d", j), func() { h.intruder(fmt.Sprintf("in%d", j), in, tick) })
	}
	for j, a := range sc.Adm {
		j, a := j, a
		h.pending++
		h.goTask(fmt.Sprintf("adm%d", j), func() { h.adminOthers(j, a) })
	}
	if c16GenWatchBreak {
		for j, us := range sc.WatchBreakUs {
			us := us
			h.pending++
			h.goTask(fmt.Sprintf("wbreak%d", j), func() {
				defer h.scriptDone()
				r.Sleep(c16Us(us))
				if h.stop() {
					return
				}
				if h.st.breakWatch() {
					h.logf("store: the delete watch breaks")
				}
			})
		}
	}
	h.waitH("script-end", func() bool { return h.pending == 0 })

	// settle: let keep-alive deadlines of dead connections and delayed storage
	// operations fire
	settle := 3 * time.Second
	for _, c := range sc.Conns {
		if d := time.Duration(c.KeepAlive) * 1500 * time.Millisecond; c.KeepAlive < 3600 && d+3*time.Second > settle {
			settle = d + 3*time.Second
		}
	}
	if !h.stuck {
		r.Sleep(settle)
		// every broken delete watch has been re-established (both storage calls
		// of Broker.reconnectWatcher made): a re-establishment parked by the
		// scheduler must not run - with its gap-delete - into the final checks
		h.waitPoll("watch-reestablishment", func() bool {
			return h.st.nPrefix >= h.st.breaks && h.st.nWatchCalls-1 >= h.st.breaks
		})
		if h.st.breaks > 0 {
			r.Sleep(settle)
		}
	}
	if !h.stuck {
		h.final()
	}
	// no CONNECT is left in its handshake when the broker is closed (closing a
	// broker under a connecting client is not this property's subject)
	h.waitPoll("handshakes-finished", func() bool {
		for _, c := range append(append([]*c16Cli{}, h.clis...), h.bys...) {
			if c.conn == nil || c.connack != nil || c.dead() {
				continue
			}
			if s := h.srv[c.cid]; s != nil && s.returned {
				continue
			}
			return false
		}
		return true
	})

	// signature / non-triviality
	var sig strings.Builder
	for _, c := range h.clis {
		ret := "-"
		if s := h.srv[c.cid]; s != nil && s.returned && h.cur != nil {
			switch {
			case s.retSeq < h.cur.connectSeq:
				ret = "b"
			case s.retSeq < h.cur.connackSeq:
				ret = "d"
			default:
				ret = "a"
			}
		}
		fmt.Fprintf(&sig, "%v/%s/%d/%s/%v;", c.spec.Clean, c.spec.End, len(c.spec.Steps), ret, c.fromDB)
	}
	fmt.Fprintf(&sig, "|%v|%v|%d", m2s(h.model.subs), c16Keys(h.model.amb), len(sc.By))
	r.SetSig(sig.String())
	if h.takeovers > 0 || h.restores > 0 {
		r.Nontrivial()
	}
	for _, cl := range h.seenCl {
		if cap(cl.writeCh) > 0 && len(cl.writeCh) == cap(cl.writeCh) {
			r.Probe("c16.write_queue_full")
		}
	}

	// wind down
	h.closing = true
	h.st.quiet = true
	r.SetInvariant(nil)
	for _, cl := range h.seenCl {
		if cl.session != nil {
			h.seenSe = append(h.seenSe, cl.session)
		}
	}
	for _, c := range append(append([]*c16Cli{}, h.clis...), h.bys...) {
		if c.conn != nil {
			c.localClosed = true
			c.conn.Close()
		}
		c.bcast()
		c.bcastAck()
	}
	func() {
		defer func() { recover() }()
		h.b.close()
	}()
	ln.Close()
	h.n.Shutdown()
	r.Sleep(time.Second)
	// stop the resend tickers of every session still alive: entries of the
	// session map the way delLocal does it (no double close with a teardown
	// that is still parked), then sessions that are in no map any more
	var keys []string
	h.b.sessMgr.sessionMap.Range(func(k, v interface{}) bool {
		keys = append(keys, k.(string))
		return true
	})
	for _, k := range keys {
		h.b.sessMgr.delLocal(k)
	}
	for _, s := range h.seenSe {
		func() {
			defer func() { recover() }()
			select {
			case <-s.done:
			default:
				close(s.done)
			}
		}()
	}
	h.bcast()
	// every task ends once its connection is gone; a connection handler that
	// does not return even now is blocked inside the broker
	for i := 0; i < 600 && h.live > 0; i++ {
		r.Sleep(time.Second)
	}
	if h.live > 0 && !h.stuck && !r.Aborted() {
		var names []string
		for n := range h.liveNames {
			names = append(names, n)
		}
		sort.Strings(names)
		_, detail := h.stuckDiag()
		r.Violate("C16.stuck.handler-never-returns", "10 min after the broker was closed and every connection reset these tasks have not returned: %v; %s\n%s", names, detail, h.history())
	}
	if h.live == 0 {
		r.WaitTasks()
	}
}

func m2s(m map[string]byte) string {
	var ks []string
	for k, v := range m {
		ks = append(ks, fmt.Sprintf("%s:%d", k, v))
	}
	sort.Strings(ks)
	return strings.Join(ks, ",")
}

func TestVerifC16(t *testing.T) {
	hdrv.Main(t, &hdrv.Harness{
		ID:       "C16",
		Gen:      c16Gen,
		New:      func() interface{} { return &c16Scenario{} },
		Exec:     c16Exec,
		MaxSteps: 400000,
		Rule: "scenario = 1-4 scripted connections of one contested client id (clean flag, keep-alive, subscribe/unsubscribe/ping steps with gaps, end kind " +
			"disconnect/close/reset/silent/stall/late-ping/stay at a drawn instant, per-connection segmentation and latency), 0-2 bystander ids on the same filters, " +
			"publishes through the HTTP endpoint, storage latency/error plan, socket buffer size, optional admin delete; a recipe family stalls a QoS1 subscriber on a tiny buffer before a late takeover; " +
			"about half of the runs add ordinary configurations/inputs: client id shapes, ids extending the contested id, topic cache size, non-binding connection cap and rate limits, pass-through pipelines (Connect authenticates) with latency, MQTT 3.1, credentials, will, per-filter QoS, client publishes, refused connection attempts with the contested id, admin deletes of other ids, delete-watch breaks, a QoS1 burst to a paused survivor; " +
			"non-trivial = at least one takeover of a not yet torn down connection or a clean=0 reconnect that inherits subscriptions; " +
			"distinct = distinct (per connection clean/end/steps/teardown position relative to the survivor's handshake/restored-from-store, final model, ambiguous set, bystanders) signatures",
		Real: []string{"pkg/object/mqttproxy Broker (newBroker, handleConn, setSession, deleteSession, watchDelete, removeClient, sendMsgToClient, httpTopicsPublishHandler, httpDeleteSessionHandler)",
			"Client (readLoop, writeLoop, closeAndDelSession, close, process*)", "SessionManager, Session (incl. resend ticker on the virtual clock)", "TopicManager", "paho packets codec"},
		Stub: []string{"storage -> c16Store (map, etcd-like delete watch, optional latency/errors)", "TCP -> simnet (netshim in broker.go)", "accept loop: harness listener calling the real Broker.handleConn under recover() (Broker.run idles on a port nobody dials)",
			"MQTT clients: raw packet scripts", "pipelines: stub MuxMapper (pass-through handlers with latency, Connect checks the password)", "sync, sync/atomic -> simsync/simatomic (gates); selects determinised; gates at go statements; time -> simtime in session.go/broker.go"},
		Assumptions: []string{
			"operations whose acknowledgement was not read while their connection was current make their filters ambiguous (neither required nor forbidden)",
			"after an injected storage error all filters of the contested id are ambiguous at the next reconnect",
			"surviving connections use keep-alive 0 or 3600 s (scheduler stalls would expire shorter ones)",
			"per-segment latency capped at 5 ms on tiny segments/windows (no congestion collapse against the 200 ms resend)",
			"runs with storage latency classify lost/stale inherited subscriptions as *.store-lag; C16.stored-session-stale is decided by elimination",
			"QoS1 publishes only when all subscriptions are QoS1; QoS2, handshake aborts, overlapping CONNECTs of one id, watch breakage not generated",
			"admin delete asserted only if the session key existed and the delete succeeded; TCP closure required after the client's next packet",
			"CONNACK session-present flag (probe only) and SUBACK return codes not checked",
			"refused connection attempts (bad auth/protocol/first packet) are not takeovers; an id whose session key is missing when the delete watch is re-established, and a bystander deleted by an admin request, are not judged",
			"QoS1 probe round in mixed-QoS sessions requires delivery only through filters subscribed with QoS>=1 (inherited ones only if never asked for with QoS0); burst check only in all-QoS1 runs with an acknowledging survivor, link latency capped at 5 ms there",
			"an admin delete placed between the two storage calls of the watch re-establishment must disconnect the client registered at that moment (the contested id is then not judged further); *-never-persisted classes only when every reconnect waited for the storage to catch up (21 idle polls), no storage error, no watch break, no broker-side deletion of the key",
			"watch events with several keys (one per admin request) are within the storage interface's contract but are not produced by today's clusterStorage (cluster.watcher.WatchWithOp sends single-key maps); admin-deleted bystanders are asserted only if the watch was up and never broke in the run",
			"a parked (overlap) reconnect is clean=0 and never the model's current connection; the driver waits for its registration in Broker.clients (white box) before the next CONNECT",
			"maxAllowedConnection / rate limits are only set to values that never bind; binding caps, empty client id, two brokers on one store, admin delete of the contested id racing scripted connects are not generated",
		},
	})
}
