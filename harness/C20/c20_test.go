//go:debug asynctimerchan=0
//go:build go1.21

package supervisor_test

// C20 — objects are initialised, inherited and closed exactly once as the
// configuration changes.
//
// The real supervisor.MustNew / ObjectRegistry.run+applyConfig /
// Supervisor.run+handleEvent AND the real RawConfigTrafficController +
// TrafficController run together inside the bubble, i.e. the object registry
// serves both of its production watchers at once. A feeder task pushes full
// configuration snapshots into the channel of a mocked cluster syncer; four
// recording kinds (two business controllers, handled by Supervisor; one
// pipeline-category and one traffic-gate-category object, handled by
// RawConfigTrafficController/TrafficController) record every
// Init/Inherit/Close with instance identities and may panic at drawn calls.
//
// Oracle (written from the property statement): every name has one lifecycle
// per controller domain (business controllers | traffic objects), because the
// two domains are reconciled by two independent goroutines whose relative
// order the statement does not fix. Per (name, domain) the recorded call
// sequence must equal the sequence derived from the snapshot sequence (appear
// -> Init on a fresh instance, spec change -> Inherit on a fresh instance with
// the previous live instance as predecessor, unchanged -> nothing, disappear
// -> Close of the live instance, kind change inside the domain -> Close(old)
// then Init(new), kind change across domains -> Close(old) in the old domain
// and Init(new) in the new one); at every quiescent point each controller
// holds exactly the objects of its domain in the last snapshot.
//
// The harness is an EXTERNAL test package because trafficcontroller and
// rawconfigtrafficcontroller import package supervisor; c20_export_test.go is
// the in-package export helper.
//
// Reading decisions (see also Assumptions):
//   * calls are counted whether or not they panic; an object whose Init or
//     Inherit panicked still counts as the live generation of its name (the
//     statement: "the set of live objects always equals the latest applied
//     snapshot"). After a panicking Inherit both the new and the previous
//     instance are accepted as the next predecessor / Close target.
//   * "spec unchanged" includes a textually different but YAML-equivalent
//     document (key order, quoting).
//   * a change of kind inside one domain must close the old object before the
//     new one is initialised (a name never has two live objects); across
//     domains the order of Close(old) and Init(new) is free.
//   * shutdown (Supervisor.Close) is not judged.
//   * start-up: up to 4 snapshots are pushed before and while MustNew creates
//     the registry and the watchers. Snapshots applied before a domain's
//     watcher exists are folded into that watcher's first event (state based,
//     legitimate). The harness cannot see how many were folded, so a domain's
//     history must be explained by SOME folding of 0..E leading snapshots (E =
//     snapshots sent before MustNew returned; the same number for all names
//     of the domain); whatever was folded, the live set must equal the last
//     snapshot.
//   * production map ranges are made reproducible by check.json "map_ranges";
//     the per-run log is nevertheless written sorted per name.
//
// Extensions (second wave):
//   * the kind name "Pipeline": RawConfigTrafficController routes objects of
//     exactly that kind to TrafficController's pipeline map (Create/Update/
//     DeletePipeline, the pipeline half of _cleanSpace); a fifth recording kind
//     is registered under that name in place of the real Pipeline (export
//     helper C20ReplaceKind), so names move between the pipeline map and the
//     traffic-gate map by a change of kind, the last pipeline goes while gates
//     stay (and the other way round), and the live set is read through the
//     accessor responsible for the kind (GetPipeline / GetTrafficGate; a name
//     held by both, or by the wrong one, is C20.live-set).
//   * document shapes: the normalised document the API server stores (every
//     default written out: mode, ns, version), JSON, comments + document
//     marker. All are the same spec as the hand-written document => untouched.
//   * "version:" is part of the spec: a version-only change is a spec change
//     (Inherit exactly once).
//   * unusable documents (kind not registered in this binary, validation
//     failure, wrong field type, not YAML): the statement is silent about the
//     name itself, two readings are accepted per name (nothing happens to it /
//     it is absent); every OTHER name of the snapshot is judged as always, and
//     the name is judged again under both readings once a good document
//     follows.
//   * another controller (task "mesh") drives a second namespace of the same
//     TrafficController the way the ingress controllers do (Apply*ForSpec for
//     everything wanted, Delete* for what is listed but not wanted, Clean),
//     with the SAME names and under the same panic plan. The default namespace
//     must not notice (doc/reference/controllers.md: "manages the resource in
//     a namespaced way"); the objects of the other namespace are judged by the
//     same lifecycle rules against the desired states (classes
//     C20.other-namespace.*), pipelines and traffic gates being separate
//     resources there.
//   * readers also call RawConfigTrafficController.Status/GetPipeline,
//     TrafficController.Status/ListPipelines/WalkPipelines/WalkTrafficGates and
//     Status() of every controller (what StatusSyncController does).
//
// Violation classes: C20.kind-change (a call required by a change of kind is
// missing or replaced), C20.init-missing / inherit-missing / close-missing,
// C20.init-duplicate, C20.close-duplicate, C20.untouched, C20.spurious-<op>,
// C20.wrong-spec, C20.instance-reuse, C20.predecessor,
// C20.close-wrong-instance, C20.panic-isolation (a call is missing in a
// snapshot in which another object's callback panicked), C20.live-set,
// C20.not-reconciled, C20.deadlock, C20.process-crash (framework),
// C20.other-namespace.<rule> (the same rules for the mesh task's namespace),
// C20.other-namespace.apply-failed.

import (
	"fmt"
	"sort"
	"strings"
	"sync"
	"testing"
	"time"

	"github.com/megaease/easegress/pkg/cluster"
	"github.com/megaease/easegress/pkg/cluster/clustertest"
	"github.com/megaease/easegress/pkg/context"
	"github.com/megaease/easegress/pkg/logger"
	"github.com/megaease/easegress/pkg/object/pipeline"
	"github.com/megaease/easegress/pkg/object/rawconfigtrafficcontroller"
	"github.com/megaease/easegress/pkg/object/trafficcontroller"
	"github.com/megaease/easegress/pkg/option"
	"github.com/megaease/easegress/pkg/supervisor"
	"verif/simkit/hdrv"
	"verif/simkit/sim"
)

// ---- scenario ---------------------------------------------------------------

type c20Obj struct {
	Name string `json:"name"`
	Kind string `json:"kind"`
	Rev  int    `json:"rev"`
	Alt  bool   `json:"alt,omitempty"` // YAML-equivalent other formatting
	// Form selects another equivalent document shape: 1 = the normalised
	// document the API server stores (sorted keys, every default written out,
	// explicit default version), 2 = JSON, 3 = document marker + comments
	Form int `json:"form,omitempty"`
	// Ver 1 = a non-default "version:" (a change of Ver is a change of the spec)
	Ver int `json:"ver,omitempty"`
	// Bad != "" = the document under this name cannot be turned into a spec:
	// "kind" (kind not registered in this binary), "enum" (fails validation),
	// "type" (field of the wrong type), "garbage" (not YAML)
	Bad string `json:"bad,omitempty"`
}

// c20MeshStep is one desired state another controller (the way the ingress
// controllers do it) applies to ITS namespace of the TrafficController with
// Apply*ForSpec / Delete* / Clean while the default namespace is reconciled
// from the snapshots.
type c20MeshStep struct {
	GapUs int64    `json:"gap_us"`
	Objs  []c20Obj `json:"objs"` // kinds: Pipeline or C20Gate only
	Clean bool     `json:"clean,omitempty"`
}

type c20Snap struct {
	GapUs  int64    `json:"gap_us"`
	Objs   []c20Obj `json:"objs"`
	Settle bool     `json:"settle,omitempty"`
}

type c20Panic struct {
	Name string `json:"name"`
	Op   string `json:"op"` // init | inherit | close
	Nth  int    `json:"nth"`
}

type c20ROp struct {
	GapUs int64  `json:"gap_us"`
	Op    string `json:"op"` // walk | getbiz | gettrf | list
	Name  string `json:"name"`
}

type c20Reader struct {
	Ops []c20ROp `json:"ops"`
}

type c20Scenario struct {
	ChanCap   int         `json:"chan_cap"`
	Early     int         `json:"early"`      // snapshots the feeder may push before MustNew has returned (0 = none)
	EarlyWait int         `json:"early_wait"` // snapshots main waits for (as far as the channel holds them) before it calls MustNew
	Snaps     []c20Snap   `json:"snaps"`
	Panics    []c20Panic  `json:"panics"`
	DelaysUs  []int64     `json:"delays_us"` // delay of the i-th callback overall (cyclic)
	Readers   []c20Reader `json:"readers"`
	// delay of the i-th Category() call made on a recording object while
	// MustNew runs (cyclic): the watcher filters are "code of the caller" and
	// may be slow
	CatDelaysUs []int64 `json:"cat_delays_us"`
	// desired states applied to the namespace c20OtherNS by a "mesh" task
	Mesh []c20MeshStep `json:"mesh,omitempty"`
	// MeshStyle 0: Apply*ForSpec + delete what is listed but unwanted (ingress
	// controllers); 1: own bookkeeping, Create*ForSpec / Update*ForSpec /
	// Delete* (mesh worker ingress/egress)
	MeshStyle int `json:"mesh_style,omitempty"`
}

const (
	c20KindBizA = "C20BizA"
	c20KindBizB = "C20BizB"
	c20KindPipe = "C20Pipe"
	c20KindGate = "C20Gate"
	// the kind name RawConfigTrafficController routes to the pipeline map
	c20KindPL = pipeline.Kind

	c20OtherNS  = "c20-other"
	c20OtherVer = "easegress.megaease.com/v1"
)

var c20AllKinds = []string{c20KindBizA, c20KindBizB, c20KindPipe, c20KindGate, c20KindPL}

// c20Domain tells which controller is responsible for a kind: "biz" =
// Supervisor (business controllers), "trf" = RawConfigTrafficController +
// TrafficController (pipeline / traffic gate categories).
func c20Domain(kind string) string {
	switch kind {
	case c20KindBizA, c20KindBizB:
		return "biz"
	case c20KindPipe, c20KindGate, c20KindPL:
		return "trf"
	}
	return ""
}

var c20Domains = []string{"biz", "trf"}

func c20Gen(rng *sim.Rand, tier string) interface{} {
	sc := &c20Scenario{}
	names := []string{"n1", "n2", "n3", "n4", "n5", "n6"}[:rng.Pick(1, 2, 2, 3, 3, 4, 4, 4, 6)]
	kc := rng.Bool(0.35)
	// kinds available to the run (swarm): one domain only, the usual pair of a
	// real deployment (a traffic gate kind + Pipeline), or everything
	kinds := c20AllKinds
	switch rng.Intn(7) {
	case 0:
		kinds = c20AllKinds[:2]
	case 1:
		kinds = c20AllKinds[2:]
	case 2:
		kinds = c20AllKinds[3:]
	}
	wUnch, wChange, wGone := rng.Pick(15, 40, 70), rng.Pick(10, 25, 45), rng.Pick(5, 15, 30)
	wKC := 0
	if kc {
		wKC = rng.Pick(5, 15, 30)
	}
	appearP := float64(rng.Pick(30, 50, 85)) / 100
	altP := float64(rng.Pick(0, 10, 30)) / 100
	// document shapes: plain / stored form / JSON / comments
	formP := float64(rng.Pick(0, 0, 15, 40, 100)) / 100
	// a non-default version on some objects; a flip of it is a spec change
	verP := float64(rng.Pick(0, 0, 0, 15, 40)) / 100
	// documents that cannot be turned into a spec
	badP := float64(rng.Pick(0, 0, 0, 0, 0, 8, 20)) / 100
	type cur struct {
		present bool
		kind    string
		rev     int
		ver     int
	}
	state := map[string]*cur{}
	maxRev := map[string]int{}
	for _, n := range names {
		state[n] = &cur{kind: kinds[rng.Intn(len(kinds))]}
	}
	otherKind := func(k string) string {
		for {
			c := kinds[rng.Intn(len(kinds))]
			if c != k {
				return c
			}
		}
	}
	change := func(n string, c *cur) {
		if verP > 0 && rng.Bool(verP) {
			c.ver = 1 - c.ver
			if rng.Bool(0.7) {
				return
			}
		}
		maxRev[n]++
		c.rev = maxRev[n]
	}
	nsnap := rng.Range(2, 12)
	// start-up runs: 1-4 snapshots are pushed before and while MustNew creates
	// the registry and the two watchers
	early := 0
	if rng.Bool(0.45) {
		early = rng.Pick(1, 2, 3, 4)
		if nsnap < early+1 {
			nsnap = early + 1
		}
	}
	// backlog runs: many snapshots pushed at once while the first callbacks are
	// slow, so that the watchers' event queues (and the syncer channel) fill up
	backlog := rng.Bool(0.08)
	if backlog {
		nsnap = rng.Range(12, 18)
		wUnch, wChange, wGone, appearP = 5, 45, 20, 0.85
	}
	for i := 0; i < nsnap; i++ {
		sn := c20Snap{GapUs: int64(rng.Pick(0, 0, 0, 1, 50, 1000, 5000)), Settle: rng.Bool(0.25)}
		if backlog {
			sn.GapUs, sn.Settle = 0, false
		}
		uw, cw, gw := wUnch, wChange, wGone
		if i < early {
			sn.GapUs, sn.Settle = int64(rng.Pick(0, 0, 0, 1)), false
			uw, cw, gw = 10, 40, 30
		}
		for _, n := range names {
			c := state[n]
			if badP > 0 && rng.Bool(badP) {
				// the state of the generator does not move: the next good
				// document is drawn relative to the last good one
				sn.Objs = append(sn.Objs, c20Obj{Name: n, Kind: c.kind, Rev: c.rev, Ver: c.ver, Bad: rng.PickStr("kind", "kind", "enum", "type", "garbage")})
				continue
			}
			if !c.present {
				p := appearP
				if i == 0 {
					p = 0.85
				}
				if !rng.Bool(p) {
					continue
				}
				c.present = true
				if kc && rng.Bool(0.3) {
					c.kind = otherKind(c.kind)
				}
				if c.rev == 0 || rng.Bool(0.6) {
					change(n, c)
					if c.rev == 0 {
						maxRev[n]++
						c.rev = maxRev[n]
					}
				}
			} else {
				x := rng.Intn(uw + cw + gw + wKC)
				switch {
				case x < uw:
				case x < uw+cw:
					change(n, c)
				case x < uw+cw+gw:
					c.present = false
					continue
				default:
					c.kind = otherKind(c.kind)
					if rng.Bool(0.5) {
						change(n, c)
					}
				}
			}
			o := c20Obj{Name: n, Kind: c.kind, Rev: c.rev, Ver: c.ver, Alt: rng.Bool(altP)}
			if formP > 0 && rng.Bool(formP) {
				o.Form = rng.Pick(1, 1, 1, 2, 3)
			}
			sn.Objs = append(sn.Objs, o)
		}
		sc.Snaps = append(sc.Snaps, sn)
	}
	if rng.Bool(0.5) {
		for i, k := 0, rng.Range(1, 3); i < k; i++ {
			sc.Panics = append(sc.Panics, c20Panic{Name: names[rng.Intn(len(names))], Op: rng.PickStr("init", "inherit", "inherit", "close"), Nth: rng.Pick(1, 1, 2, 3)})
		}
	}
	for i, k := 0, rng.Range(1, 4); i < k; i++ {
		sc.DelaysUs = append(sc.DelaysUs, int64(rng.Pick(0, 0, 0, 0, 20, 1000, 4000)))
	}
	sc.ChanCap = rng.Pick(0, 0, 1, 2, 4, 16)
	if backlog {
		sc.DelaysUs = []int64{int64(rng.Pick(20000, 100000)), 0, 0}
		sc.ChanCap = rng.Pick(0, 4, 16)
	}
	if early > 0 {
		sc.Early = early
		// mostly: all early snapshots already wait in the channel when the
		// registry starts, so that it applies them while the watchers are
		// being created
		sc.ChanCap = rng.Pick(early, early, early, 16, 1, 2)
		sc.EarlyWait = rng.Pick(early, early, early, rng.Range(0, early))
		if rng.Bool(0.7) {
			for i, k := 0, rng.Range(1, 3); i < k; i++ {
				sc.CatDelaysUs = append(sc.CatDelaysUs, int64(rng.Pick(0, 0, 100, 1000)))
			}
		}
	}
	for i, k := 0, rng.Pick(0, 0, 1, 2); i < k; i++ {
		var rd c20Reader
		for j, m := 0, rng.Range(1, 6); j < m; j++ {
			rd.Ops = append(rd.Ops, c20ROp{GapUs: int64(rng.Pick(0, 1, 50, 1000, 3000)),
				Op:   rng.PickStr("walk", "getbiz", "gettrf", "list", "listp", "walkp", "status", "rcpipe"),
				Name: names[rng.Intn(len(names))]})
		}
		sc.Readers = append(sc.Readers, rd)
	}
	// another controller drives its own namespace of the TrafficController
	// with the same names (and the same panic plan) at the same time
	if rng.Bool(0.3) {
		sc.MeshStyle = rng.Pick(0, 0, 1)
		type mk struct{ name, kind string }
		var keys []mk
		for _, n := range names {
			keys = append(keys, mk{n, c20KindPL}, mk{n, c20KindGate})
		}
		live := map[mk]int{}
		mrev := 0
		for i, k := 0, rng.Range(1, 6); i < k; i++ {
			st := c20MeshStep{GapUs: int64(rng.Pick(0, 1, 50, 1000, 5000))}
			if rng.Bool(0.15) {
				st.Clean = true
				live = map[mk]int{}
				sc.Mesh = append(sc.Mesh, st)
				continue
			}
			for _, key := range keys {
				rev, is := live[key]
				switch {
				case !is && rng.Bool(0.5):
					mrev++
					live[key] = mrev
				case !is:
					continue
				case rng.Bool(0.25):
					delete(live, key)
					continue
				case rng.Bool(0.5):
					mrev++
					live[key] = mrev
				default:
					live[key] = rev
				}
				o := c20Obj{Name: key.name, Kind: key.kind, Rev: live[key], Alt: rng.Bool(altP)}
				if formP > 0 && rng.Bool(formP) {
					o.Form = rng.Pick(1, 2, 3)
				}
				st.Objs = append(st.Objs, o)
			}
			sc.Mesh = append(sc.Mesh, st)
		}
	}
	return sc
}

// ---- recording kinds --------------------------------------------------------

type c20Spec struct {
	Rev int `yaml:"rev" jsonschema:"omitempty"`
	// Mode has a default ("auto"): the stored form of a document writes it
	// out, hand-written documents leave it away
	Mode string `yaml:"mode" jsonschema:"omitempty,enum=auto,enum=manual"`
	// NS is set in the documents the mesh task applies to its own namespace
	NS string `yaml:"ns" jsonschema:"omitempty"`
}

type c20Call struct {
	Op       string
	Inst     string // identity of the receiver: "<name>.<k>" = k-th instance seen for the name (independent of the order in which names are visited)
	First    bool   // first call ever made on the receiver
	Pred     string // identity of previousGeneration (Inherit), "foreign" if not a recording object
	PredKind string
	Kind     string
	Rev      int
	Ver      int
	Panicked bool
}

func (c *c20Call) String() string {
	s := fmt.Sprintf("%s#%s", c.Op, c.Inst)
	if c.Op == "inherit" {
		s += fmt.Sprintf("<-#%s", c.Pred)
		if c.PredKind != c.Kind {
			s += "(" + c.PredKind + ")"
		}
	}
	s += fmt.Sprintf("(%s/r%d%s)", c.Kind, c.Rev, c20VerStr(c.Ver))
	if c.Panicked {
		s += "!"
	}
	return s
}

func c20VerStr(v int) string {
	if v != 0 {
		return "/v1"
	}
	return ""
}

type c20State struct {
	r      *sim.Run
	nextID map[string]int
	calls  map[string][]*c20Call // per "<name>/<domain>", in call order
	late   int                   // calls during shutdown (not judged)
	opN    map[string]int
	plan   map[string]bool
	delays []int64
	cbN    int
	// Category() delays during start-up
	startup   bool
	catDelays []int64
	catN      int
	total     int
	ended     bool
}

var c20cur *c20State

type c20Rec struct {
	id     string
	ncalls int
	name   string
	kind   string
	rev    int
	ver    int
	dom    string // set for objects of the mesh task's namespace
}

type c20Ident interface{ c20rec() *c20Rec }

func (b *c20Rec) c20rec() *c20Rec { return b }

func (b *c20Rec) ident(st *c20State) string {
	if b.id == "" {
		n := b.name
		if n == "" {
			n = "?"
		}
		st.nextID[n]++
		b.id = fmt.Sprintf("%s.%d", n, st.nextID[n])
	}
	return b.id
}

func (b *c20Rec) hook(dom, op string, spec *supervisor.Spec, prev supervisor.Object) {
	st := c20cur
	if st == nil {
		return
	}
	if st.ended {
		st.late++
		return
	}
	if spec != nil {
		b.name, b.kind, b.rev, b.ver = spec.Name(), spec.Kind(), -1, 0
		if spec.Version() != supervisor.DefaultSpecVersion {
			b.ver = 1
		}
		if s, ok := spec.ObjectSpec().(*c20Spec); ok {
			b.rev = s.Rev
			if s.NS != "" {
				b.dom = c20OthDom(b.kind)
			}
			if s.Mode != "auto" {
				b.rev = -2 // no generated document sets another mode
			}
		}
	}
	if b.dom != "" {
		dom = b.dom
	}
	call := &c20Call{Op: op, Inst: b.ident(st), First: b.ncalls == 0}
	b.ncalls++
	call.Kind, call.Rev, call.Ver = b.kind, b.rev, b.ver
	if prev != nil {
		call.Pred = "foreign"
		if p, ok := prev.(c20Ident); ok {
			call.Pred, call.PredKind = p.c20rec().ident(st), p.c20rec().kind
		}
	}
	name := b.name
	if name == "" {
		name = "?"
	}
	key := name + "|" + op
	st.opN[key]++
	call.Panicked = st.plan[fmt.Sprintf("%s|%d", key, st.opN[key])]
	st.calls[name+"/"+dom] = append(st.calls[name+"/"+dom], call)
	if b.dom == "" {
		st.total++
	}
	// a gate and a drawn delay in every callback
	var d int64
	if len(st.delays) > 0 {
		d = st.delays[st.cbN%len(st.delays)]
	}
	st.cbN++
	st.r.Sleep(time.Duration(d) * time.Microsecond)
	if call.Panicked {
		st.r.Fault("panic." + op)
		panic(fmt.Sprintf("c20: planned panic in %s of %s", op, name))
	}
}

// c20OthDom names the lifecycle domain of an object of the mesh task's
// namespace: pipelines and traffic gates are separate resources there (one
// name may be both at once).
func c20OthDom(kind string) string {
	if kind == c20KindPL {
		return "othP"
	}
	return "othG"
}

func (b *c20Rec) DefaultSpec() interface{} { return &c20Spec{Mode: "auto"} }
func (b *c20Rec) Status() *supervisor.Status {
	return &supervisor.Status{ObjectStatus: map[string]string{}}
}

type c20Ctl struct{ c20Rec }

func (c *c20Ctl) Init(s *supervisor.Spec) { c.hook("biz", "init", s, nil) }
func (c *c20Ctl) Inherit(s *supervisor.Spec, prev supervisor.Object) {
	c.hook("biz", "inherit", s, prev)
}
func (c *c20Ctl) Close() { c.hook("biz", "close", nil, nil) }

type c20Trf struct{ c20Rec }

func (c *c20Trf) Init(s *supervisor.Spec, m context.MuxMapper) { c.hook("trf", "init", s, nil) }
func (c *c20Trf) Inherit(s *supervisor.Spec, prev supervisor.Object, m context.MuxMapper) {
	c.hook("trf", "inherit", s, prev)
}
func (c *c20Trf) Close() { c.hook("trf", "close", nil, nil) }

type c20BizA struct{ c20Ctl }
type c20BizB struct{ c20Ctl }
type c20Pipe struct{ c20Trf }
type c20Gate struct{ c20Trf }

// c20PL is registered under the kind name of the real Pipeline.
type c20PL struct{ c20Trf }

func (*c20PL) Kind() string { return c20KindPL }
func (*c20PL) Category() supervisor.ObjectCategory {
	c20CatHook()
	return supervisor.CategoryPipeline
}

// Status has the shape RawConfigTrafficController.Status and
// TrafficController.Status expect of a pipeline.
func (*c20PL) Status() *supervisor.Status {
	return &supervisor.Status{ObjectStatus: &pipeline.Status{}}
}

// Handle makes the object a context.Handler, which is what
// RawConfigTrafficController.GetPipeline and Namespace.GetHandler expect.
func (*c20PL) Handle(*context.Context) string { return "" }

func (*c20BizA) Kind() string { return c20KindBizA }
func (*c20BizB) Kind() string { return c20KindBizB }
func (*c20Pipe) Kind() string { return c20KindPipe }
func (*c20Gate) Kind() string { return c20KindGate }
func (*c20BizA) Category() supervisor.ObjectCategory {
	c20CatHook()
	return supervisor.CategoryBusinessController
}
func (*c20BizB) Category() supervisor.ObjectCategory {
	c20CatHook()
	return supervisor.CategoryBusinessController
}
func (*c20Pipe) Category() supervisor.ObjectCategory {
	c20CatHook()
	return supervisor.CategoryPipeline
}
func (*c20Gate) Category() supervisor.ObjectCategory {
	c20CatHook()
	return supervisor.CategoryTrafficGate
}

// c20CatHook makes the watcher filters (which ask every object for its
// category) slow while the supervisor starts up.
func c20CatHook() {
	st := c20cur
	if st == nil || st.ended || !st.startup || len(st.catDelays) == 0 {
		return
	}
	d := st.catDelays[st.catN%len(st.catDelays)]
	st.catN++
	if d > 0 {
		st.r.Probe("c20.slow_filter_during_startup")
		st.r.Sleep(time.Duration(d) * time.Microsecond)
	}
}

func init() {
	logger.InitNop()
	supervisor.Register(&c20BizA{})
	supervisor.Register(&c20BizB{})
	supervisor.Register(&c20Pipe{})
	supervisor.Register(&c20Gate{})
	supervisor.C20ReplaceKind(&c20PL{})
}

// c20YAML writes the document of an object. All shapes of one (name, kind,
// rev, ver) are the same spec: key order, quoting, JSON, comments, and the
// stored form, in which every default (mode, ns, version) is written out.
// oth = document of the mesh task's namespace (ns: other).
func c20YAML(o c20Obj, oth bool) string {
	switch o.Bad {
	case "":
	case "kind":
		return fmt.Sprintf("name: %s\nkind: C20NoSuchKind\nrev: %d\n", o.Name, o.Rev)
	case "enum":
		return fmt.Sprintf("name: %s\nkind: %s\nrev: %d\nmode: bogus\n", o.Name, o.Kind, o.Rev)
	case "type":
		return fmt.Sprintf("name: %s\nkind: %s\nrev: [1, 2]\n", o.Name, o.Kind)
	default:
		return "name: [" + o.Name + "\n\t:: }"
	}
	ver, ns := supervisor.DefaultSpecVersion, ""
	if o.Ver != 0 {
		ver = c20OtherVer
	}
	if oth {
		ns = "other"
	}
	var b strings.Builder
	switch {
	case o.Form == 1:
		fmt.Fprintf(&b, "kind: %s\nmode: auto\nname: %s\nns: %q\nrev: %d\nversion: %s\n", o.Kind, o.Name, ns, o.Rev, ver)
		return b.String()
	case o.Form == 2:
		fmt.Fprintf(&b, "{\"name\": %q, \"kind\": %q, \"rev\": %d", o.Name, o.Kind, o.Rev)
		if o.Ver != 0 {
			fmt.Fprintf(&b, ", \"version\": %q", ver)
		}
		if oth {
			fmt.Fprintf(&b, ", \"ns\": %q", ns)
		}
		b.WriteString("}\n")
		return b.String()
	case o.Form == 3:
		fmt.Fprintf(&b, "---\n# written by hand\nname: %s # the name\nkind: %s\n\n# revision\nrev: %d\n", o.Name, o.Kind, o.Rev)
	case o.Alt:
		fmt.Fprintf(&b, "rev: %d\n\nkind: %q\nname: '%s'\n", o.Rev, o.Kind, o.Name)
	default:
		fmt.Fprintf(&b, "name: %s\nkind: %s\nrev: %d\n", o.Name, o.Kind, o.Rev)
	}
	if o.Ver != 0 {
		fmt.Fprintf(&b, "version: %s\n", ver)
	}
	if oth {
		fmt.Fprintf(&b, "ns: %s\n", ns)
	}
	return b.String()
}

// ---- reference: expected calls per name --------------------------------------

type c20Exp struct {
	Op   string
	Kind string
	Rev  int
	Ver  int
	Snap int
	KC   bool // part of a change of kind
}

func (e *c20Exp) String() string {
	s := fmt.Sprintf("%s(%s/r%d%s)@s%d", e.Op, e.Kind, e.Rev, c20VerStr(e.Ver), e.Snap)
	if e.KC {
		s += "[kind-change]"
	}
	return s
}

// c20SnapAll returns the entries of a snapshot the harness delivers (good and
// bad documents), by name.
func c20SnapAll(sn c20Snap) map[string]c20Obj {
	m := map[string]c20Obj{}
	for _, o := range sn.Objs {
		if o.Name == "" || strings.ContainsAny(o.Name, "/|?") || c20Domain(o.Kind) == "" {
			continue
		}
		if o.Ver != 0 {
			o.Ver = 1
		}
		m[o.Name] = o
	}
	return m
}

// c20Resolved gives the objects the snapshots 0..upto stand for. A name whose
// document cannot be turned into a spec is, under the reading absent=false,
// what it was in the snapshot before (nothing happens to it), and under
// absent=true not part of the snapshot; the statement does not say which.
func c20Resolved(sc *c20Scenario, upto int, absent bool) []map[string]c20Obj {
	var out []map[string]c20Obj
	prev := map[string]c20Obj{}
	for i := 0; i <= upto && i < len(sc.Snaps); i++ {
		cur := map[string]c20Obj{}
		for n, o := range c20SnapAll(sc.Snaps[i]) {
			if o.Bad == "" {
				cur[n] = o
			} else if p, was := prev[n]; was && !absent {
				cur[n] = p
			}
		}
		out = append(out, cur)
		prev = cur
	}
	return out
}

// c20BadNames returns the names that had an unusable document in snapshots
// 0..upto.
func c20BadNames(sc *c20Scenario, upto int) map[string]bool {
	out := map[string]bool{}
	for i := 0; i <= upto && i < len(sc.Snaps); i++ {
		for _, o := range sc.Snaps[i].Objs {
			if o.Bad != "" {
				out[o.Name] = true
			}
		}
	}
	return out
}

// c20SnapMap is the snapshot under the reading absent=false.
func c20SnapMap(sc *c20Scenario, i int) map[string]c20Obj {
	r := c20Resolved(sc, i, false)
	if i < 0 || i >= len(r) {
		return map[string]c20Obj{}
	}
	return r[i]
}

func c20SortedNames(ms ...map[string]c20Obj) []string {
	set := map[string]bool{}
	for _, m := range ms {
		for k := range m {
			set[k] = true
		}
	}
	out := make([]string, 0, len(set))
	for k := range set {
		out = append(out, k)
	}
	sort.Strings(out)
	return out
}

// c20ExpectDom derives, from the snapshot sequence alone, the calls the
// statement requires for every "<name>/<dom>" (snapshots 0..upto) of one
// controller domain. From the point of view of a domain a name is present
// while its kind belongs to the domain. fold is the number of leading
// snapshots that had been applied before the domain's watcher existed: they
// reach the controller folded into one state (the last of them), which is how
// a state-based watcher legitimately starts. res = c20Resolved(...).
func c20ExpectDom(res []map[string]c20Obj, d string, fold int, out map[string][]*c20Exp) {
	prev := map[string]c20Obj{}
	first := 0
	if fold > 0 {
		first = fold - 1
	}
	for i := first; i < len(res); i++ {
		cur := res[i]
		for _, n := range c20SortedNames(prev, cur) {
			p, was := prev[n]
			c, is := cur[n]
			kc := was && is && p.Kind != c.Kind
			key := n + "/" + d
			wasD := was && c20Domain(p.Kind) == d
			isD := is && c20Domain(c.Kind) == d
			switch {
			case !wasD && isD:
				out[key] = append(out[key], &c20Exp{"init", c.Kind, c.Rev, c.Ver, i, kc})
			case wasD && !isD:
				out[key] = append(out[key], &c20Exp{"close", p.Kind, p.Rev, p.Ver, i, kc})
			case wasD && isD && kc:
				out[key] = append(out[key], &c20Exp{"close", p.Kind, p.Rev, p.Ver, i, true}, &c20Exp{"init", c.Kind, c.Rev, c.Ver, i, true})
			case wasD && isD && (p.Rev != c.Rev || p.Ver != c.Ver):
				out[key] = append(out[key], &c20Exp{"inherit", c.Kind, c.Rev, c.Ver, i, false})
			}
		}
		prev = cur
	}
}

// c20Expect is the expectation of both domains without any folding (unusable
// documents read as "nothing happens to the name").
func c20Expect(sc *c20Scenario, upto int) map[string][]*c20Exp {
	out := map[string][]*c20Exp{}
	res := c20Resolved(sc, upto, false)
	for _, d := range c20Domains {
		c20ExpectDom(res, d, 0, out)
	}
	return out
}

// c20MeshStates turns the mesh task's steps into desired states per domain
// ("othP" pipelines, "othG" traffic gates of the other namespace).
func c20MeshStates(sc *c20Scenario, upto int, dom string) []map[string]c20Obj {
	var out []map[string]c20Obj
	for i := 0; i <= upto && i < len(sc.Mesh); i++ {
		cur := map[string]c20Obj{}
		if !sc.Mesh[i].Clean {
			for _, o := range sc.Mesh[i].Objs {
				if !c20MeshValid(o) || c20OthDom(o.Kind) != dom {
					continue
				}
				o.Ver = 0
				cur[o.Name] = o
			}
		}
		out = append(out, cur)
	}
	return out
}

func c20MeshValid(o c20Obj) bool {
	return o.Name != "" && !strings.ContainsAny(o.Name, "/|?") && (o.Kind == c20KindPL || o.Kind == c20KindGate) && o.Bad == ""
}

// c20ExpectMesh: the same derivation for the other namespace. Inside one of
// its two maps a name never changes its kind.
func c20ExpectMesh(sc *c20Scenario, upto int) map[string][]*c20Exp {
	out := map[string][]*c20Exp{}
	for _, d := range []string{"othP", "othG"} {
		prev := map[string]c20Obj{}
		for i, cur := range c20MeshStates(sc, upto, d) {
			for _, n := range c20SortedNames(prev, cur) {
				p, was := prev[n]
				c, is := cur[n]
				key := n + "/" + d
				switch {
				case !was && is:
					out[key] = append(out[key], &c20Exp{"init", c.Kind, c.Rev, 0, i, false})
				case was && !is:
					out[key] = append(out[key], &c20Exp{"close", p.Kind, p.Rev, 0, i, false})
				case was && is && p.Rev != c.Rev:
					out[key] = append(out[key], &c20Exp{"inherit", c.Kind, c.Rev, 0, i, false})
				}
			}
			prev = cur
		}
	}
	return out
}

// ---- oracle -------------------------------------------------------------------

type c20Verdict struct {
	class string
	msg   string
	e     *c20Exp
	miss  bool            // an expected call is missing / replaced
	mode  int             // 1 = judged under the reading "an unusable document makes the name absent"
	ok    map[string]bool // acceptable current instances after the matched prefix
	live  bool
}

// c20Walk compares the expected and the recorded call sequence of one
// "<name>/<domain>".
func c20Walk(exp []*c20Exp, act []*c20Call, panicSnaps map[int]map[string]bool, key string) *c20Verdict {
	v := &c20Verdict{ok: map[string]bool{}}
	var curKind string
	curRev, curVer := 0, 0
	for i := 0; i < len(exp) || i < len(act); i++ {
		var e *c20Exp
		var a *c20Call
		if i < len(exp) {
			e = exp[i]
		}
		if i < len(act) {
			a = act[i]
		}
		v.e = e
		switch {
		case e != nil && e.KC && (a == nil || a.Op != e.Op || a.Kind != e.Kind || a.Rev != e.Rev || a.Ver != e.Ver):
			v.class, v.miss = "C20.kind-change", true
			got := "no call"
			if a != nil {
				got = a.String()
			}
			v.msg = fmt.Sprintf("the kind of the name changed: expected %s, got %s", e, got)
			return v
		case a == nil:
			v.class, v.miss = "C20."+e.Op+"-missing", true
			v.msg = fmt.Sprintf("expected %s, no such call was made", e)
			return v
		case e == nil || a.Op != e.Op:
			switch {
			case a.Op == "inherit" && v.live && a.Kind == curKind && a.Rev == curRev && a.Ver == curVer:
				v.class, v.msg = "C20.untouched", fmt.Sprintf("%s although the spec did not change", a)
			case a.Op == "init" && v.live:
				v.class, v.msg = "C20.init-duplicate", fmt.Sprintf("%s while the name already has a live object", a)
			case a.Op == "close" && !v.live:
				v.class, v.msg = "C20.close-duplicate", fmt.Sprintf("%s while the name has no live object", a)
			case e != nil:
				v.class, v.miss = "C20."+e.Op+"-missing", true
				v.msg = fmt.Sprintf("expected %s, got %s", e, a)
			default:
				v.class, v.msg = "C20.spurious-"+a.Op, fmt.Sprintf("%s although nothing changed for the name", a)
			}
			return v
		}
		// same operation
		if a.Op != "close" && (a.Kind != e.Kind || a.Rev != e.Rev || a.Ver != e.Ver) {
			v.class, v.msg = "C20.wrong-spec", fmt.Sprintf("expected %s, got %s", e, a)
			return v
		}
		switch a.Op {
		case "init":
			if !a.First {
				v.class, v.msg = "C20.instance-reuse", fmt.Sprintf("%s on an instance that had been used before", a)
				return v
			}
			v.ok = map[string]bool{a.Inst: true}
			v.live = true
		case "inherit":
			if !a.First {
				v.class, v.msg = "C20.instance-reuse", fmt.Sprintf("%s on an instance that had been used before", a)
				return v
			}
			if !v.ok[a.Pred] {
				v.class, v.msg = "C20.predecessor", fmt.Sprintf("%s: predecessor is not the previous live generation %v", a, c20Keys(v.ok))
				return v
			}
			if a.Panicked {
				v.ok[a.Inst] = true
			} else {
				v.ok = map[string]bool{a.Inst: true}
			}
		case "close":
			if !v.ok[a.Inst] {
				v.class, v.msg = "C20.close-wrong-instance", fmt.Sprintf("%s: closed instance is not the live generation %v", a, c20Keys(v.ok))
				return v
			}
			v.ok = map[string]bool{}
			v.live = false
		}
		if a.Op != "close" {
			curKind, curRev, curVer = a.Kind, a.Rev, a.Ver
		}
		if a.Panicked {
			if panicSnaps[e.Snap] == nil {
				panicSnaps[e.Snap] = map[string]bool{}
			}
			panicSnaps[e.Snap][key] = true
		}
	}
	v.e = nil
	return v
}

func c20SortedKeys(m map[string]bool) []string { return c20Keys(m) }

func c20Keys(m map[string]bool) []string {
	out := []string{}
	for k := range m {
		out = append(out, k)
	}
	sort.Strings(out)
	return out
}

func c20MeshString(sc *c20Scenario, upto int) string {
	var b strings.Builder
	for i := 0; i <= upto && i < len(sc.Mesh); i++ {
		fmt.Fprintf(&b, "m%d{", i)
		if sc.Mesh[i].Clean {
			b.WriteString("Clean")
		}
		sep := ""
		for _, d := range []string{"othG", "othP"} {
			m := c20MeshStates(sc, i, d)[i]
			for _, n := range c20SortedNames(m) {
				fmt.Fprintf(&b, "%s%s:%s/r%d", sep, n, m[n].Kind, m[n].Rev)
				sep = " "
			}
		}
		b.WriteString("} ")
	}
	return b.String()
}

func c20History(calls []*c20Call) string {
	var s []string
	for _, c := range calls {
		s = append(s, c.String())
	}
	return strings.Join(s, " ")
}

func c20Snapshots(sc *c20Scenario, upto int) string {
	var b strings.Builder
	for i := 0; i <= upto && i < len(sc.Snaps); i++ {
		m := c20SnapAll(sc.Snaps[i])
		fmt.Fprintf(&b, "s%d{", i)
		for j, n := range c20SortedNames(m) {
			if j > 0 {
				b.WriteByte(' ')
			}
			if m[n].Bad != "" {
				fmt.Fprintf(&b, "%s:UNUSABLE(%s)", n, m[n].Bad)
				continue
			}
			fmt.Fprintf(&b, "%s:%s/r%d%s", n, m[n].Kind, m[n].Rev, c20VerStr(m[n].Ver))
		}
		b.WriteString("} ")
	}
	return b.String()
}

// ---- executor ---------------------------------------------------------------

func c20Exec(r *sim.Run, sci interface{}) {
	sc := sci.(*c20Scenario)
	if len(sc.Snaps) == 0 {
		return
	}
	if sc.ChanCap < 0 || sc.ChanCap > 64 {
		sc.ChanCap = 0
	}
	r.MultiClass = true
	st := &c20State{r: r, nextID: map[string]int{}, calls: map[string][]*c20Call{}, opN: map[string]int{}, plan: map[string]bool{}}
	for _, p := range sc.Panics {
		st.plan[fmt.Sprintf("%s|%s|%d", p.Name, p.Op, p.Nth)] = true
	}
	for _, d := range sc.DelaysUs {
		if d < 0 || d > 1000000 {
			d = 0
		}
		st.delays = append(st.delays, d)
	}
	for _, d := range sc.CatDelaysUs {
		if d < 0 || d > 1000000 {
			d = 0
		}
		st.catDelays = append(st.catDelays, d)
	}
	st.startup = true
	c20cur = st
	defer func() { c20cur = nil }()

	ch := make(chan map[string]string, sc.ChanCap)
	layout := &cluster.Layout{}
	prefix := layout.ConfigObjectPrefix()
	cls := clustertest.NewMockedCluster()
	cls.MockedLayout = func() *cluster.Layout { return layout }
	cls.MockedSyncer = func(time.Duration) (cluster.Syncer, error) {
		s := clustertest.NewMockedSyncer()
		s.MockedSyncPrefix = func(string) (<-chan map[string]string, error) { return ch, nil }
		return s, nil
	}

	// expected number of calls after each snapshot (for the backlog probe)
	cum := make([]int, len(sc.Snaps))
	for _, es := range c20Expect(sc, len(sc.Snaps)-1) {
		for _, e := range es {
			cum[e.Snap]++
		}
	}
	for i := 1; i < len(cum); i++ {
		cum[i] += cum[i-1]
	}

	var super *supervisor.Supervisor
	var tc *trafficcontroller.TrafficController
	ready := false
	readyCh := make(chan struct{})
	done := map[string]bool{} // keys no longer judged (already reported)
	reported := map[string]bool{}
	stuck := false
	early := 0             // snapshots whose send completed before MustNew had returned
	foldedSeveral := false // some domain's history is explained by folding >= 2 snapshots
	badDocs := map[string]bool{}
	usedAbsent := false    // some name's history is explained only by reading an unusable document as "absent"
	const ns = rawconfigtrafficcontroller.DefaultNamespace

	sent := -1
	report := func(class, key string, upto int, format string, a ...interface{}) {
		done[key] = true
		if upto < 0 {
			upto = sent
		}
		if reported[class+"|"+key] {
			return
		}
		reported[class+"|"+key] = true
		name := key
		if i := strings.IndexByte(key, '/'); i > 0 {
			name = key[:i]
		}
		var other []string
		for _, d := range c20Domains {
			if k := name + "/" + d; k != key && len(st.calls[k]) > 0 {
				other = append(other, fmt.Sprintf("\nrecorded calls of %s: %s", k, c20History(st.calls[k])))
			}
		}
		r.Violate(class, "object %s (name/controller domain): %s\nrecorded calls of %s: %s%s\nsnapshots: %s", key, fmt.Sprintf(format, a...), key,
			c20History(st.calls[key]), strings.Join(other, ""), c20Snapshots(sc, upto))
	}

	// lookup returns what the controller of a domain holds under a name. The
	// traffic domain has two accessors: objects of the kind Pipeline are held
	// as pipelines, all other traffic kinds as traffic gates; other is what the
	// accessor that is NOT responsible for the wanted kind returns (a name of
	// the default namespace must never be held twice).
	lookup := func(name, dom, wantKind string) (ent, other *supervisor.ObjectEntity) {
		switch dom {
		case "trf", "othP", "othG":
			if tc == nil {
				return nil, nil
			}
			space := ns
			if dom != "trf" {
				space = c20OtherNS
			}
			g, _ := tc.GetTrafficGate(space, name)
			p, _ := tc.GetPipeline(space, name)
			switch {
			case dom == "othP":
				return p, nil
			case dom == "othG":
				return g, nil
			case wantKind == c20KindPL:
				return p, g
			case wantKind != "":
				return g, p
			case g != nil:
				return g, p
			}
			return p, nil
		}
		if e, ok := super.GetBusinessController(name); ok {
			return e, nil
		}
		return nil, nil
	}

	// liveCheck compares what a controller holds under a name with the object
	// the last applied state wants there (v = the verdict of the key's walk).
	liveCheck := func(k, name, dom string, want c20Obj, wantLive bool, v *c20Verdict, upto int, what string) {
		wantKind := ""
		if wantLive {
			wantKind = want.Kind
		}
		ent, other := lookup(name, dom, wantKind)
		if other != nil && (ent != nil || wantLive) {
			report("C20.live-set", k, upto, "the name is held as a %s by the accessor that is not responsible for the kind %s (pipelines: GetPipeline, all other traffic kinds: GetTrafficGate) in %s",
				other.Spec().Kind(), wantKind, what)
			return
		}
		switch {
		case wantLive && ent == nil:
			report("C20.live-set", k, upto, "in %s as %s/r%d%s but not held by its controller", what, want.Kind, want.Rev, c20VerStr(want.Ver))
		case !wantLive && ent != nil:
			report("C20.live-set", k, upto, "no object of this domain in %s but the controller still holds %s", what, ent.Spec().Kind())
		case wantLive:
			id := "foreign"
			if p, ok := ent.Instance().(c20Ident); ok {
				id = p.c20rec().id
			}
			rev, ver := -1, 0
			if s, ok := ent.Spec().ObjectSpec().(*c20Spec); ok {
				rev = s.Rev
			}
			if ent.Spec().Version() != supervisor.DefaultSpecVersion {
				ver = 1
			}
			if ent.Spec().Kind() != want.Kind || rev != want.Rev || ver != want.Ver || !v.ok[id] {
				report("C20.live-set", k, upto, "controller holds instance #%s with spec %s/r%d%s, %s wants %s/r%d%s as instance %v",
					id, ent.Spec().Kind(), rev, c20VerStr(ver), what, want.Kind, want.Rev, c20VerStr(want.Ver), c20Keys(v.ok))
			}
		}
	}

	// judge compares everything recorded so far with what snapshots 0..upto
	// require. Only called when the system is quiescent.
	judge := func(upto int) {
		keySet := map[string]bool{}
		for i := 0; i <= upto && i < len(sc.Snaps); i++ {
			for n := range c20SnapAll(sc.Snaps[i]) {
				for _, d := range c20Domains {
					keySet[n+"/"+d] = true
				}
			}
		}
		for k := range st.calls {
			keySet[k] = true
		}
		keys := make([]string, 0, len(keySet))
		for k := range keySet {
			keys = append(keys, k)
		}
		sort.Strings(keys)
		// Unusable documents: the statement does not say what a name is whose
		// document cannot be turned into a spec. Two readings are accepted per
		// name: nothing happens to the name (it stays what it was), or the name
		// is not part of the snapshot. All other names are judged as always.
		badNames := c20BadNames(sc, upto)
		resolved := [2][]map[string]c20Obj{c20Resolved(sc, upto, false), nil}
		nmodes := 1
		if len(badNames) > 0 {
			resolved[1] = c20Resolved(sc, upto, true)
			nmodes = 2
		}
		// Start-up rule: the snapshots sent before MustNew had returned may
		// have been applied before a domain's watcher existed; any number of
		// them (0..early) may have been folded into the watcher's first
		// event, the same number for all names of the domain. The domain is
		// judged against the folding that explains its history best; with no
		// early snapshots there is exactly one candidate.
		panicSnaps := map[int]map[string]bool{}
		verdicts := map[string]*c20Verdict{}
		for _, d := range c20Domains {
			maxFold := early
			if maxFold > upto+1 {
				maxFold = upto + 1
			}
			bestBad := -1
			var bestV map[string]*c20Verdict
			var bestP map[int]map[string]bool
			bestFold := 0
			// first every folding under the reading "nothing happens to a name
			// with an unusable document" alone, only then with the second reading
			for pass := 0; pass < nmodes*(maxFold+1) && bestBad != 0; pass++ {
				fold, allowAbsent := pass%(maxFold+1), pass > maxFold
				var exp [2]map[string][]*c20Exp
				for m := 0; m < nmodes; m++ {
					exp[m] = map[string][]*c20Exp{}
					c20ExpectDom(resolved[m], d, fold, exp[m])
				}
				vs := map[string]*c20Verdict{}
				ps := map[int]map[string]bool{}
				bad := 0
				for _, k := range keys {
					if done[k] || strings.HasPrefix(k, "?") || !strings.HasSuffix(k, "/"+d) {
						continue
					}
					name := k[:strings.IndexByte(k, '/')]
					kp := map[int]map[string]bool{}
					vs[k] = c20Walk(exp[0][k], st.calls[k], kp, k)
					if vs[k].class != "" && badNames[name] && allowAbsent {
						kp2 := map[int]map[string]bool{}
						if v2 := c20Walk(exp[1][k], st.calls[k], kp2, k); v2.class == "" {
							v2.mode = 1
							vs[k], kp = v2, kp2
						} else {
							vs[k].msg += " [the name had an unusable document: neither reading (name stays what it was / name is absent) explains the calls]"
						}
					}
					for sn, m := range kp {
						if ps[sn] == nil {
							ps[sn] = map[string]bool{}
						}
						for kk := range m {
							ps[sn][kk] = true
						}
					}
					if vs[k].class != "" {
						bad++
						vs[k].msg += fmt.Sprintf(" [start-up: %d early snapshot(s), best explanation folds the first %d]", early, fold)
					}
				}
				if bestBad < 0 || bad < bestBad {
					bestBad, bestV, bestP, bestFold = bad, vs, ps, fold
				}
			}
			if bestFold >= 2 {
				foldedSeveral = true
			}
			for k, v := range bestV {
				verdicts[k] = v
			}
			for sn, m := range bestP {
				if panicSnaps[sn] == nil {
					panicSnaps[sn] = map[string]bool{}
				}
				for k := range m {
					panicSnaps[sn][k] = true
				}
			}
		}
		for _, k := range keys {
			v := verdicts[k]
			if v == nil {
				continue
			}
			if v.class != "" {
				class := v.class
				if v.miss && v.e != nil && class != "C20.kind-change" {
					for other := range panicSnaps[v.e.Snap] {
						if other != k {
							class = "C20.panic-isolation"
							v.msg += fmt.Sprintf(" (a callback of %s panicked while snapshot s%d was reconciled)", other, v.e.Snap)
							break
						}
					}
				}
				report(class, k, upto, "%s", v.msg)
				continue
			}
			// live set: the domain's controller holds exactly the last snapshot
			i := strings.IndexByte(k, '/')
			if !ready || i <= 0 || strings.HasPrefix(k, "?") {
				continue
			}
			name, dom := k[:i], k[i+1:]
			if v.mode == 1 {
				usedAbsent = true
			}
			last := map[string]c20Obj{}
			if upto < len(resolved[v.mode]) {
				last = resolved[v.mode][upto]
			}
			want, present := last[name]
			liveCheck(k, name, dom, want, present && c20Domain(want.Kind) == dom, v, upto, fmt.Sprintf("the last applied snapshot s%d", upto))
		}
		// calls on an instance that never got a spec (Close before Init/Inherit)
		for _, k := range keys {
			if strings.HasPrefix(k, "?") && !done[k] && len(st.calls[k]) > 0 {
				report("C20.close-wrong-instance", k, upto, "an instance that was never initialised was closed")
			}
		}
	}

	// judgeMesh: the objects of the other namespace against the desired states
	// the mesh task has applied completely (0..upto). The task calls the
	// TrafficController synchronously, so no settling is needed.
	judgeMesh := func(upto int) {
		exp := c20ExpectMesh(sc, upto)
		keySet := map[string]bool{}
		for k := range exp {
			keySet[k] = true
		}
		for k := range st.calls {
			if strings.HasSuffix(k, "/othP") || strings.HasSuffix(k, "/othG") {
				keySet[k] = true
			}
		}
		keys := make([]string, 0, len(keySet))
		for k := range keySet {
			keys = append(keys, k)
		}
		sort.Strings(keys)
		for _, d := range []string{"othP", "othG"} {
			states := c20MeshStates(sc, upto, d)
			last := map[string]c20Obj{}
			if len(states) > 0 {
				last = states[len(states)-1]
			}
			for _, k := range keys {
				if done[k] || !strings.HasSuffix(k, "/"+d) || strings.HasPrefix(k, "?") {
					continue
				}
				v := c20Walk(exp[k], st.calls[k], map[int]map[string]bool{}, k)
				if v.class != "" {
					report(strings.Replace(v.class, "C20.", "C20.other-namespace.", 1), k, -1, "%s [desired states of namespace %s: %s]", v.msg, c20OtherNS, c20MeshString(sc, upto))
					continue
				}
				name := k[:strings.IndexByte(k, '/')]
				want, present := last[name]
				liveCheck(k, name, d, want, present, v, -1, fmt.Sprintf("the last desired state m%d of namespace %s (%s)", upto, c20OtherNS, c20MeshString(sc, upto)))
			}
		}
	}

	// settle waits until the whole system is quiescent: a sleep of two hours
	// during which the scheduler stalled for less than that can only end when
	// every other goroutine is blocked with nothing parked.
	settle := func() bool {
		for i := 0; i < 4; i++ {
			before := r.StalledFor()
			r.Sleep(2 * time.Hour)
			if r.Aborted() {
				return false
			}
			if !ready || r.StalledFor()-before >= 2*time.Hour {
				continue
			}
			_, ev, sn := supervisor.C20Pending(super)
			if ev == 0 && sn == 0 {
				return true
			}
		}
		return false
	}

	feeder := func() {
		for i, sn := range sc.Snaps {
			if r.Aborted() || stuck {
				return
			}
			gap := sn.GapUs
			if gap < 0 || gap > 10000000 {
				gap = 0
			}
			r.Sleep(time.Duration(gap) * time.Microsecond)
			// Snapshots applied before a watcher exists are legitimately
			// folded into its first event; only the first snapshot may be that
			// early, so that the expected calls do not depend on it.
			if i >= sc.Early && !ready {
				<-readyCh
				r.Sleep(0)
				if stuck {
					return
				}
			}
			m := map[string]string{}
			objs := c20SnapAll(sn)
			for _, n := range c20SortedNames(objs) {
				m[prefix+n] = c20YAML(objs[n], false)
				if objs[n].Bad != "" {
					r.Fault("unusable-document." + objs[n].Bad)
					badDocs[m[prefix+n]] = true
				}
			}
			ch <- m
			sent = i
			if !ready {
				early = i + 1
			}
			if i > 0 && st.total < cum[i-1] {
				r.Probe("c20.snapshot_sent_while_backlog")
			}
			if ready {
				w, ev, _ := supervisor.C20Pending(super)
				if ev >= 2 {
					r.Probe("c20.watcher_events_queued>=2")
				}
				if ev >= 10 {
					r.Probe("c20.watcher_event_queue_full")
				}
				if w != 2 {
					r.Violate("C20.harness", "expected the two production watchers, found %d", w)
				}
			}
			if (sn.Settle && ready) || i == len(sc.Snaps)-1 {
				if !settle() {
					if !r.Aborted() {
						stuck = true
						r.Violate("C20.not-reconciled", "snapshots or watcher events are still pending after 8 hours of simulated quiescence (sent s%d)\nsnapshots: %s", i, c20Snapshots(sc, i))
					}
					return
				}
				judge(i)
			}
		}
	}

	started := false
	if sc.Early > 0 {
		started = true
		r.Go("feeder", feeder)
		// let the first snapshot sit in the channel before the registry is
		// created: the registry's first applyConfig then races with the two
		// NewWatcher calls (objects arrive in a watcher's first event or in a
		// regular event)
		wait := sc.EarlyWait
		if wait > sc.ChanCap {
			wait = sc.ChanCap
		}
		if wait > len(sc.Snaps) {
			wait = len(sc.Snaps)
		}
		for sent < wait-1 && !r.Aborted() {
			r.Sleep(time.Microsecond)
		}
	}
	// The registry stores every applied snapshot in <home>/running_objects.yaml.
	// A real system call inside a run lets the Go runtime hand the processor
	// to another goroutine when the call is slow (machine load), which
	// reorders tape draws made between two gates: the NUL byte makes
	// os.WriteFile fail with EINVAL before any system call is made.
	super = supervisor.MustNew(&option.Options{AbsHomeDir: "/nonexistent-verif-c20\x00"}, cls)
	if e, ok := super.GetSystemController(trafficcontroller.Kind); ok {
		tc, _ = e.Instance().(*trafficcontroller.TrafficController)
	}
	var rctc *rawconfigtrafficcontroller.RawConfigTrafficController
	if e, ok := super.GetSystemController(rawconfigtrafficcontroller.Kind); ok {
		rctc, _ = e.Instance().(*rawconfigtrafficcontroller.RawConfigTrafficController)
	}
	if rctc == nil || tc == nil {
		r.Violate("C20.harness", "TrafficController / RawConfigTrafficController system controllers missing")
		stuck = true
		close(readyCh)
		r.WaitTasks()
		return
	}
	ready = true
	st.startup = false
	close(readyCh)
	if !started {
		r.Go("feeder", feeder)
	}
	for ri, rd := range sc.Readers {
		ops := rd.Ops
		r.Go(fmt.Sprintf("reader%d", ri), func() {
			for _, op := range ops {
				if r.Aborted() || st.ended {
					return
				}
				gap := op.GapUs
				if gap < 0 || gap > 10000000 {
					gap = 0
				}
				r.Sleep(time.Duration(gap) * time.Microsecond)
				switch op.Op {
				case "walk":
					// what StatusSyncController does every few seconds
					super.WalkControllers(func(e *supervisor.ObjectEntity) bool { _ = e.Spec().Name(); _ = e.Instance().Status(); return true })
				case "list":
					tc.ListTrafficGates(ns)
				case "listp":
					tc.ListPipelines(ns)
				case "walkp":
					tc.WalkPipelines(ns, func(e *supervisor.ObjectEntity) bool { _ = e.Spec().Name(); return true })
					tc.WalkTrafficGates(ns, func(e *supervisor.ObjectEntity) bool { _ = e.Spec().Name(); return true })
				case "status":
					rctc.Status()
					tc.Status()
				case "rcpipe":
					rctc.GetPipeline(op.Name)
				case "gettrf":
					lookup(op.Name, "trf", "")
				default:
					lookup(op.Name, "biz", "")
				}
			}
		})
	}
	meshDone := -1
	if len(sc.Mesh) > 0 {
		r.Go("mesh", func() {
			own := map[string]int{} // style 1: what the task believes to have created ("<kind>/<name>" -> rev)
			for i, step := range sc.Mesh {
				if r.Aborted() || stuck {
					return
				}
				gap := step.GapUs
				if gap < 0 || gap > 10000000 {
					gap = 0
				}
				r.Sleep(time.Duration(gap) * time.Microsecond)
				want := map[string]bool{}
				if step.Clean {
					own = map[string]int{}
					tc.Clean(c20OtherNS)
					r.Probe("c20.other_namespace_cleaned")
				} else {
					// the way the ingress controllers translate their desired
					// state: apply everything wanted, then delete what is
					// listed but not wanted
					objs := append([]c20Obj(nil), step.Objs...)
					sort.SliceStable(objs, func(a, b int) bool {
						if objs[a].Name != objs[b].Name {
							return objs[a].Name < objs[b].Name
						}
						return objs[a].Kind < objs[b].Kind
					})
					for _, o := range objs {
						if !c20MeshValid(o) || want[o.Kind+"/"+o.Name] {
							continue
						}
						want[o.Kind+"/"+o.Name] = true
						o.Ver = 0
						spec, err := super.NewSpec(c20YAML(o, true))
						if err != nil {
							r.Violate("C20.harness", "mesh document rejected: %v", err)
							return
						}
						rev, have := own[o.Kind+"/"+o.Name]
						switch {
						case sc.MeshStyle != 1 && o.Kind == c20KindPL:
							_, err = tc.ApplyPipelineForSpec(c20OtherNS, spec)
						case sc.MeshStyle != 1:
							_, err = tc.ApplyTrafficGateForSpec(c20OtherNS, spec)
						case have && rev == o.Rev:
						case have && o.Kind == c20KindPL:
							_, err = tc.UpdatePipelineForSpec(c20OtherNS, spec)
						case have:
							_, err = tc.UpdateTrafficGateForSpec(c20OtherNS, spec)
						case o.Kind == c20KindPL:
							_, err = tc.CreatePipelineForSpec(c20OtherNS, spec)
						default:
							_, err = tc.CreateTrafficGateForSpec(c20OtherNS, spec)
						}
						own[o.Kind+"/"+o.Name] = o.Rev
						if err != nil {
							r.Violate("C20.other-namespace.apply-failed", "applying %s %s to namespace %s failed: %v", o.Kind, o.Name, c20OtherNS, err)
							return
						}
					}
					var del []string
					if sc.MeshStyle == 1 {
						for k := range own {
							if !want[k] {
								delete(own, k)
								if strings.HasPrefix(k, c20KindPL+"/") {
									del = append(del, "P"+k[len(c20KindPL)+1:])
								} else {
									del = append(del, "G"+k[len(c20KindGate)+1:])
								}
							}
						}
					} else {
						for _, e := range tc.ListPipelines(c20OtherNS) {
							if !want[c20KindPL+"/"+e.Spec().Name()] {
								del = append(del, "P"+e.Spec().Name())
							}
						}
						for _, e := range tc.ListTrafficGates(c20OtherNS) {
							if !want[c20KindGate+"/"+e.Spec().Name()] {
								del = append(del, "G"+e.Spec().Name())
							}
						}
					}
					sort.Strings(del)
					for _, d := range del {
						if d[0] == 'P' {
							tc.DeletePipeline(c20OtherNS, d[1:])
						} else {
							tc.DeleteTrafficGate(c20OtherNS, d[1:])
						}
					}
				}
				meshDone = i
			}
		})
	}
	r.WaitTasks()
	if meshDone >= 0 && !stuck && !r.Aborted() {
		judgeMesh(meshDone)
		// the default namespace once more, now that the other namespace is
		// final: nothing the mesh task did may have touched it
		if sent == len(sc.Snaps)-1 {
			judge(sent)
		}
	}
	// the documents meant to be unusable really are
	if !stuck && !r.Aborted() {
		for _, doc := range c20SortedKeys(badDocs) {
			if _, err := super.NewSpec(doc); err == nil {
				r.Violate("C20.harness", "a document meant to be unusable was accepted: %q", doc)
			}
		}
	}

	// shutdown (not judged)
	st.ended = true
	if !stuck && !r.Aborted() {
		var wg sync.WaitGroup
		wg.Add(1)
		super.Close(&wg)
		wg.Wait()
	}

	// ---- probes, signature, log (sorted per name)
	if early >= 1 {
		r.Probe("c20.snapshot_sent_before_MustNew_returned")
	}
	if early >= 2 {
		r.Probe("c20.several_snapshots_sent_before_MustNew_returned")
	}
	if foldedSeveral {
		r.Probe("c20.startup_folded>=2_snapshots")
	}
	keys := make([]string, 0, len(st.calls))
	for k := range st.calls {
		keys = append(keys, k)
	}
	sort.Strings(keys)
	seen := map[string]int{}
	var sig strings.Builder
	fullCycle := 0
	for _, k := range keys {
		ops := map[string]bool{}
		closed := false
		var h []string
		for _, c := range st.calls[k] {
			seen[c.Op]++
			ops[c.Op] = true
			if c.Op == "init" && closed {
				r.Probe("c20.reappear_after_close")
			}
			if c.Op == "close" {
				closed = true
			}
			if c.Panicked {
				seen["panic"]++
			}
			x := fmt.Sprintf("%s:%s/r%d", c.Op, c.Kind, c.Rev)
			if c.Panicked {
				x += "!"
			}
			h = append(h, x)
		}
		if ops["init"] && ops["inherit"] && ops["close"] {
			fullCycle++
		}
		switch {
		case strings.HasSuffix(k, "/trf"):
			seen["trf"]++
		case strings.HasSuffix(k, "/biz"):
			seen["biz"]++
		}
		r.Eventf("%s: %s", k, c20History(st.calls[k]))
		fmt.Fprintf(&sig, "|%s=%s", k, strings.Join(h, ","))
	}
	for _, op := range []string{"init", "inherit", "close"} {
		if seen[op] > 0 {
			r.Probe("c20." + op)
		}
	}
	if seen["trf"] > 0 && seen["biz"] > 0 {
		r.Probe("c20.both_controllers_received_calls")
	}
	if st.late > 0 {
		r.Probe("c20.closed_at_shutdown")
	}
	// generator-side conditions actually delivered
	prev := map[string]c20Obj{}
	resolvedAll := c20Resolved(sc, sent, false)
	badSeen := map[string]bool{}
	if usedAbsent {
		r.Probe("c20.unusable_document_explained_only_as_absent")
	}
	for i := 0; i <= sent && i < len(resolvedAll); i++ {
		cur := resolvedAll[i]
		raw := c20SnapAll(sc.Snaps[i])
		changes, kcs := 0, 0
		doms := map[string]bool{}
		npl, ngate := 0, 0
		for _, n := range c20SortedNames(cur) {
			if cur[n].Kind == c20KindPL {
				npl++
			} else if c20Domain(cur[n].Kind) == "trf" {
				ngate++
			}
		}
		if npl > 0 {
			r.Probe("c20.pipeline_kind_object_live")
		}
		if npl > 0 && ngate > 0 {
			r.Probe("c20.pipelines_and_gates_live_together")
		}
		if len(cur) >= 5 {
			r.Probe("c20.snapshot_with>=5_objects")
		}
		for _, n := range c20SortedNames(raw) {
			if raw[n].Bad != "" {
				r.Probe("c20.unusable_document." + raw[n].Bad)
				if _, was := prev[n]; was {
					r.Probe("c20.unusable_document_for_live_name")
				} else {
					r.Probe("c20.unusable_document_for_absent_name")
				}
				badSeen[n] = true
				if len(raw) >= 2 {
					r.Probe("c20.unusable_document_with_siblings_in_snapshot")
				}
			} else if badSeen[n] {
				r.Probe("c20.good_document_after_unusable_one")
				badSeen[n] = false
			}
		}
		for _, n := range c20SortedNames(prev, cur) {
			p, was := prev[n]
			c, is := cur[n]
			if was && !is && p.Kind == c20KindPL {
				if npl == 0 && ngate > 0 {
					r.Probe("c20.last_pipeline_deleted_gates_remain")
				}
			}
			if was && !is && c20Domain(p.Kind) == "trf" && p.Kind != c20KindPL && ngate == 0 && npl > 0 {
				r.Probe("c20.last_gate_deleted_pipelines_remain")
			}
			switch {
			case was && is && p.Kind == c.Kind && p.Rev == c.Rev && p.Ver == c.Ver:
				if raw[n].Bad != "" {
					continue
				}
				r.Probe("c20.unchanged_object_resent")
				if p.Alt != c.Alt {
					r.Probe("c20.unchanged_object_other_yaml_formatting")
				}
				if p.Form != c.Form {
					r.Probe("c20.unchanged_object_other_document_shape")
					if p.Form == 1 || c.Form == 1 {
						r.Probe("c20.unchanged_object_stored_form_vs_handwritten")
					}
				}
				continue
			case was && is && p.Kind != c.Kind:
				kcs++
				if c20Domain(p.Kind) != c20Domain(c.Kind) {
					r.Probe("c20.kind_change_across_controllers")
				} else {
					r.Probe("c20.kind_change_within_controller")
					if p.Kind == c20KindPL || c.Kind == c20KindPL {
						r.Probe("c20.kind_change_between_pipeline_and_gate")
					}
				}
			case was && is && p.Rev == c.Rev && p.Ver != c.Ver:
				r.Probe("c20.version_only_change")
			}
			changes++
			if was {
				doms[c20Domain(p.Kind)] = true
			}
			if is {
				doms[c20Domain(c.Kind)] = true
			}
		}
		if changes >= 2 {
			r.Probe("c20.several_changes_in_one_snapshot")
		}
		if kcs >= 1 && changes >= 2 {
			r.Probe("c20.kind_change_with_other_changes_in_snapshot")
		}
		if len(doms) == 2 {
			r.Probe("c20.snapshot_with_events_for_both_watchers")
		}
		if changes == 0 && i > 0 {
			r.Probe("c20.identical_snapshot_resent")
		}
		if i > 0 && len(cur) == 0 && len(prev) > 0 {
			r.Probe("c20.everything_disappears")
		}
		prev = cur
	}
	if seen["panic"] > 0 {
		r.Probe("c20.callback_panicked")
		// did a sibling have work in the same snapshot?
		exp := c20Expect(sc, sent)
		bySnap := map[int]map[string]bool{}
		for k, es := range exp {
			for _, e := range es {
				if bySnap[e.Snap] == nil {
					bySnap[e.Snap] = map[string]bool{}
				}
				bySnap[e.Snap][k] = true
			}
		}
		hit := false
		for _, k := range keys {
			for i, c := range st.calls[k] {
				if c.Panicked && i < len(exp[k]) && len(bySnap[exp[k][i].Snap]) >= 2 {
					hit = true
				}
			}
		}
		if hit {
			r.Probe("c20.panic_in_snapshot_with_sibling_changes")
		}
	}
	if seen["init"] > 0 && seen["inherit"] > 0 && seen["close"] > 0 && len(keys) >= 2 {
		r.Nontrivial()
	}
	if fullCycle > 0 {
		r.Probe("c20.name_with_init_inherit_close")
	}
	// the other namespace
	if meshDone >= 0 {
		r.Probe(fmt.Sprintf("c20.other_namespace_driven.style%d", sc.MeshStyle&1))
		othCalls, both := 0, false
		for _, k := range keys {
			if !strings.HasSuffix(k, "/othP") && !strings.HasSuffix(k, "/othG") {
				continue
			}
			for _, c := range st.calls[k] {
				othCalls++
				r.Probe("c20.other_namespace." + c.Op)
				if c.Panicked {
					r.Probe("c20.other_namespace.callback_panicked")
				}
			}
			if len(st.calls[k[:strings.IndexByte(k, '/')]+"/trf"]) > 0 {
				both = true
			}
		}
		if both {
			r.Probe("c20.same_name_in_both_namespaces")
		}
		_ = othCalls
	}
	// a Close that panicked as part of a change of kind
	for _, k := range keys {
		cs := st.calls[k]
		for i, c := range cs {
			if c.Op == "close" && c.Panicked && i+1 < len(cs) && cs[i+1].Op == "init" && cs[i+1].Kind != c.Kind {
				r.Probe("c20.close_panicked_in_kind_change")
			}
		}
	}
	r.SetSig(sig.String())
}

func TestVerifC20(t *testing.T) {
	hdrv.Main(t, &hdrv.Harness{
		ID:            "C20",
		Gen:           c20Gen,
		New:           func() interface{} { return &c20Scenario{} },
		Exec:          c20Exec,
		MaxSteps:      40000,
		DeadlockClass: "C20.deadlock",
		Rule: "scenario = 2-18 full snapshots over <=6 names and 5 kinds of two controller domains, one of them registered under the kind name Pipeline (appear, spec change incl. version-only, unchanged incl. other YAML formatting / stored form / JSON / comments, disappear, reappear, " +
			"change of kind inside a domain (also between the pipeline map and the traffic-gate map) and across domains, several at once, documents that cannot be turned into a spec) pushed with drawn gaps through a syncer channel of drawn capacity while Supervisor and RawConfigTrafficController both watch the registry, " +
			"panics planned at the n-th Init/Inherit/Close of a name, callback delays, backlog runs, concurrent reader tasks (Get/List/Walk/Status), in 30% of the runs a task that drives a second TrafficController namespace with the same names through Apply*ForSpec/Delete*/Clean; non-trivial = at least one Init, one Inherit and one Close were executed and >=2 (name, domain) lifecycles received calls; " +
			"distinct = distinct per-(name, domain) call histories with kinds, revisions and panics",
		Real: []string{"pkg/supervisor (MustNew, ObjectRegistry.run/applyConfig/NewWatcher with both production watchers, Supervisor.run/handleEvent, ObjectEntity.*WithRecovery, Spec/NewSpec)",
			"pkg/object/trafficcontroller (TrafficController Create/Update/Delete TrafficGate and Pipeline, Apply*ForSpec, Clean, _cleanSpace, Get/List/Walk/Status, two namespaces)", "pkg/object/rawconfigtrafficcontroller (Init/reload, watcher loop, handleEvent)"},
		Stub: []string{"cluster -> clustertest.MockedCluster, syncer channel fed by the harness", "five recording object kinds registered by the harness (2 business controllers, 1 pipeline-category, 1 traffic-gate-category, 1 registered under the kind name Pipeline IN PLACE of the real Pipeline object)",
			"sync.Mutex/sync.Map -> simsync (same semantics + gates); map ranges, multi-case selects and goroutine starts of the three packages determinised by check.json map_ranges/selects/go_gates", "logger -> nop",
			"running_objects.yaml: the home directory name contains a NUL byte, so the write fails (logged) before any system call is made"},
		Assumptions: []string{
			"one lifecycle per (name, controller domain): Supervisor and RawConfigTrafficController reconcile on independent goroutines, so for a change of kind across domains the order of Close(old) and Init(new) is free; inside a domain a change of kind must Close(old) before Init(new)",
			"calls are counted whether or not they panic; an object whose Init/Inherit panicked still is the live generation of its name; after a panicking Inherit the new and the previous instance are both accepted as next predecessor / Close target",
			"a YAML-equivalent document (key order, quoting) is an unchanged spec",
			"the relative order of calls on different names inside one snapshot is not judged",
			"every snapshot put on the syncer channel counts as applied, in order; Supervisor.Close (shutdown) is not judged",
			"start-up: snapshots applied before a domain's watcher exists are legitimately folded into its first event; a domain's history must match some folding of 0..E leading snapshots (E = snapshots sent before MustNew returned), the same for all names of the domain",
			"quiescence = a 2 h simulated sleep returns during which the scheduler stalled for less than 2 h (r.StalledFor) and no snapshot/watcher event is pending",
			"the real Pipeline object's own Init/Inherit/Close are not under test: a recording object is registered under its kind name, so that the pipeline map of TrafficController is reached; an object of that kind must be held by GetPipeline, every other traffic kind by GetTrafficGate, never both",
			"a document in another shape (stored form with every default written out incl. the default version, JSON, comments) is an unchanged spec; a change of version: alone is a spec change",
			"a name whose document cannot be turned into a spec: two readings accepted per name (it stays what it was / it is absent), first tried without the second reading; all other names of the snapshot are judged as always",
			"other namespace: the mesh task applies desired states the way the ingress controllers do; Apply with an equal spec = unchanged, with a changed spec = Inherit, listed-but-unwanted = Delete = Close, Clean = everything disappears; it shares the panic plan (counted per name and operation over both namespaces)",
		},
	})
}
