//go:debug asynctimerchan=0
//go:build go1.21

package supervisor

// C20 export helper (in-package test file): the harness proper lives in the
// external test package supervisor_test, because it has to import
// pkg/object/trafficcontroller and pkg/object/rawconfigtrafficcontroller,
// which themselves import this package. Only plumbing is exported here, no
// oracle logic.

// C20Pending returns the number of watchers registered in the object
// registry, the number of watcher events not yet taken by their consumers
// and the number of snapshots not yet taken by the registry. It reads plain
// state without locks: the simulator runs one goroutine at a time and the
// caller does not gate.
func C20Pending(s *Supervisor) (watchers, events, snapshots int) {
	or := s.objectRegistry
	for _, w := range or.watchers {
		watchers++
		events += len(w.eventChan)
	}
	return watchers, events, len(or.configSyncChan)
}

// C20ReplaceKind puts a recording object of the harness in the place of an
// already registered kind (the real "Pipeline": RawConfigTrafficController
// routes objects of exactly that kind to TrafficController's pipeline map, so
// the pipeline half of TrafficController can only be reached with an object
// that carries this kind name). Plumbing only.
func C20ReplaceKind(o Object) {
	if _, ok := objectRegistry[o.Kind()]; !ok {
		Register(o)
		return
	}
	objectRegistry[o.Kind()] = o
	for i, x := range objectRegistryOrderByDependency {
		if x.Kind() == o.Kind() {
			objectRegistryOrderByDependency[i] = o
		}
	}
	if _, ok := o.(TrafficObject); ok {
		TrafficObjectKinds[o.Kind()] = struct{}{}
	}
}
